package main

// Value model (after x/tools go/ssa/interp): boxed values, Go pointers into boxes.
//
//  integers, bools      *Term (Int / Bool sort), kept inside the Go type's range
//  float32/64           float64 (concrete only)
//  string               string (concrete) or symStr (concrete length, symbolic bytes)
//  struct / array       structure / array ([]value)
//  slice                []value (nil slice = []value(nil))
//  pointer              *value (nil = (*value)(nil))
//  interface            iface{t, v}
//  map                  *mapVal
//  func                 *ssa.Function | *closure | *ssa.Builtin | nil
//  tuple                tuple
//  math/big.Int         bigVal{t}   (the struct value; *big.Int is an ordinary *value to it)
//  uint256.Int          u256Val{t}

import (
	"fmt"
	"go/types"
	"math/big"
	"strings"

	"golang.org/x/tools/go/ssa"
)

type value interface{}

type structure []value
type array []value
type tuple []value

type iface struct {
	t types.Type
	v value
}

type closure struct {
	Fn  *ssa.Function
	Env []value
}

type symStr struct{ b []*Term }

type bigVal struct{ t *Term }
type u256Val struct{ t *Term }

type chanVal struct {
	q   []value
	cap int
}

// poison marks a value that could not be computed by tolerant package initialisation.
type poison struct{ why string }

type intKind struct {
	w      int
	signed bool
}

var (
	u256Max = new(big.Int).Sub(Pow2(256), bigOne)
)

func (k intKind) lo() *big.Int {
	if k.signed {
		return new(big.Int).Neg(Pow2(k.w - 1))
	}
	return bigZero
}
func (k intKind) hi() *big.Int {
	if k.signed {
		return new(big.Int).Sub(Pow2(k.w-1), bigOne)
	}
	return new(big.Int).Sub(Pow2(k.w), bigOne)
}

func basicKind(t types.Type) (*types.Basic, bool) {
	b, ok := t.Underlying().(*types.Basic)
	return b, ok
}

func intKindOf(t types.Type) (intKind, bool) {
	b, ok := t.Underlying().(*types.Basic)
	if !ok {
		return intKind{}, false
	}
	switch b.Kind() {
	case types.Int, types.Int64, types.UntypedInt, types.UntypedRune:
		return intKind{64, true}, true
	case types.Int8:
		return intKind{8, true}, true
	case types.Int16:
		return intKind{16, true}, true
	case types.Int32:
		return intKind{32, true}, true
	case types.Uint, types.Uint64, types.Uintptr:
		return intKind{64, false}, true
	case types.Uint8:
		return intKind{8, false}, true
	case types.Uint16:
		return intKind{16, false}, true
	case types.Uint32:
		return intKind{32, false}, true
	}
	return intKind{}, false
}

func isFloat(t types.Type) bool {
	b, ok := t.Underlying().(*types.Basic)
	return ok && b.Info()&types.IsFloat != 0
}
func isString(t types.Type) bool {
	b, ok := t.Underlying().(*types.Basic)
	return ok && b.Info()&types.IsString != 0
}
func isBoolT(t types.Type) bool {
	b, ok := t.Underlying().(*types.Basic)
	return ok && b.Info()&types.IsBoolean != 0
}

func namedPath(t types.Type) string {
	if n, ok := t.(*types.Named); ok {
		o := n.Obj()
		if o.Pkg() != nil {
			return o.Pkg().Path() + "." + o.Name()
		}
		return o.Name()
	}
	if a, ok := t.(*types.Alias); ok {
		return namedPath(types.Unalias(a))
	}
	return ""
}

func isBigIntT(t types.Type) bool { return namedPath(t) == "math/big.Int" }
func isU256T(t types.Type) bool   { return namedPath(t) == "github.com/holiman/uint256.Int" }

// wrap brings an arbitrary Int term into the range of k with Go wrap-around semantics.
func wrap(t *Term, k intKind) *Term {
	lo, hi := k.lo(), k.hi()
	if t.Lo != nil && t.Hi != nil && t.Lo.Cmp(lo) >= 0 && t.Hi.Cmp(hi) <= 0 {
		return t
	}
	m := CInt(Pow2(k.w))
	if !k.signed {
		return Mod(t, m)
	}
	h := CInt(Pow2(k.w - 1))
	return Sub(Mod(Add(t, h), m), h)
}

func zero(t types.Type) value {
	if isBigIntT(t) {
		return bigVal{CI(0)}
	}
	if isU256T(t) {
		return u256Val{CI(0)}
	}
	switch t := t.(type) {
	case *types.Alias:
		return zero(types.Unalias(t))
	case *types.Basic:
		if t.Kind() == types.UntypedNil {
			panic("untyped nil has no zero value")
		}
		if t.Info()&types.IsUntyped != 0 {
			t = types.Default(t).(*types.Basic)
		}
		switch {
		case t.Info()&types.IsBoolean != 0:
			return TFalse
		case t.Info()&types.IsInteger != 0:
			return CI(0)
		case t.Info()&types.IsFloat != 0:
			return float64(0)
		case t.Info()&types.IsComplex != 0:
			return complex128(0)
		case t.Info()&types.IsString != 0:
			return ""
		case t.Kind() == types.UnsafePointer:
			return (*value)(nil)
		}
		panic(fmt.Sprint("zero for unexpected basic ", t))
	case *types.Pointer:
		return (*value)(nil)
	case *types.Array:
		a := make(array, t.Len())
		for i := range a {
			a[i] = zero(t.Elem())
		}
		return a
	case *types.Named:
		return zero(t.Underlying())
	case *types.Interface:
		return iface{}
	case *types.Slice:
		return []value(nil)
	case *types.Struct:
		s := make(structure, t.NumFields())
		for i := range s {
			s[i] = zero(t.Field(i).Type())
		}
		return s
	case *types.Tuple:
		if t.Len() == 1 {
			return zero(t.At(0).Type())
		}
		s := make(tuple, t.Len())
		for i := range s {
			s[i] = zero(t.At(i).Type())
		}
		return s
	case *types.Chan:
		return (*chanVal)(nil)
	case *types.Map:
		return (*mapVal)(nil)
	case *types.Signature:
		return (*ssa.Function)(nil)
	case *types.TypeParam:
		panic("zero of type parameter")
	}
	panic(fmt.Sprint("zero: unexpected ", t))
}

// copyVal returns a deep copy of aggregates (struct/array), as load/store do in Go.
func copyVal(v value) value {
	switch v := v.(type) {
	case structure:
		c := make(structure, len(v))
		for i := range v {
			c[i] = copyVal(v[i])
		}
		return c
	case array:
		c := make(array, len(v))
		for i := range v {
			c[i] = copyVal(v[i])
		}
		return c
	}
	return v
}

func load(addr *value) value { return copyVal(*addr) }

func store(addr *value, v value) {
	switch v := v.(type) {
	case structure:
		if lhs, ok := (*addr).(structure); ok && len(lhs) == len(v) {
			for i := range lhs {
				store(&lhs[i], v[i])
			}
			return
		}
		*addr = copyVal(v)
	case array:
		if lhs, ok := (*addr).(array); ok && len(lhs) == len(v) {
			for i := range lhs {
				store(&lhs[i], v[i])
			}
			return
		}
		*addr = copyVal(v)
	default:
		*addr = v
	}
}

// ---- strings ----

func strBytes(v value) []*Term {
	switch v := v.(type) {
	case string:
		b := make([]*Term, len(v))
		for i := 0; i < len(v); i++ {
			b[i] = CI(int64(v[i]))
		}
		return b
	case symStr:
		return v.b
	}
	panic(fmt.Sprintf("strBytes: %T", v))
}

func mkStr(b []*Term) value {
	all := true
	for _, t := range b {
		if t.Op != OpConst {
			all = false
			break
		}
	}
	if all {
		bs := make([]byte, len(b))
		for i, t := range b {
			bs[i] = byte(t.Val.Int64())
		}
		return string(bs)
	}
	return symStr{b}
}

func strLen(v value) int {
	switch v := v.(type) {
	case string:
		return len(v)
	case symStr:
		return len(v.b)
	}
	panic(fmt.Sprintf("strLen: %T", v))
}

// ---- helpers ----

func asTerm(v value) *Term {
	if t, ok := v.(*Term); ok {
		return t
	}
	if _, ok := v.(poison); ok {
		panic(pathAbort{"unsupported", "use of poison (uninitialised global) value"})
	}
	panic(fmt.Sprintf("asTerm: %T", v))
}

// concreteInt returns the constant value of an Int term, if constant.
func concreteInt(v value) (int64, bool) {
	t, ok := v.(*Term)
	if !ok || t.Op != OpConst || !t.Val.IsInt64() {
		return 0, false
	}
	return t.Val.Int64(), true
}

func isNilPtr(v value) bool {
	p, ok := v.(*value)
	return ok && p == nil
}

// toDebug renders a value for traces.
func toDebug(v value) string {
	var sb strings.Builder
	writeDebug(&sb, v, 0)
	return sb.String()
}

func writeDebug(sb *strings.Builder, v value, depth int) {
	if depth > 4 {
		sb.WriteString("…")
		return
	}
	switch v := v.(type) {
	case nil:
		sb.WriteString("<nil>")
	case *Term:
		if v.IsConst() {
			sb.WriteString(v.String())
		} else {
			s := v.String()
			if len(s) > 80 {
				s = s[:80] + "…"
			}
			sb.WriteString(s)
		}
	case string:
		fmt.Fprintf(sb, "%q", v)
	case symStr:
		fmt.Fprintf(sb, "symstr[%d]", len(v.b))
	case bigVal:
		sb.WriteString("big(")
		writeDebug(sb, v.t, depth+1)
		sb.WriteString(")")
	case u256Val:
		sb.WriteString("u256(")
		writeDebug(sb, v.t, depth+1)
		sb.WriteString(")")
	case structure:
		sb.WriteString("{")
		for i, e := range v {
			if i > 0 {
				sb.WriteString(", ")
			}
			writeDebug(sb, e, depth+1)
		}
		sb.WriteString("}")
	case array:
		sb.WriteString("[")
		for i, e := range v {
			if i > 0 {
				sb.WriteString(", ")
			}
			if i > 40 {
				sb.WriteString("…")
				break
			}
			writeDebug(sb, e, depth+1)
		}
		sb.WriteString("]")
	case []value:
		if v == nil {
			sb.WriteString("nil-slice")
			return
		}
		sb.WriteString("[]{")
		for i, e := range v {
			if i > 0 {
				sb.WriteString(", ")
			}
			if i > 40 {
				sb.WriteString("…")
				break
			}
			writeDebug(sb, e, depth+1)
		}
		sb.WriteString("}")
	case *value:
		if v == nil {
			sb.WriteString("nil-ptr")
		} else {
			sb.WriteString("&")
			writeDebug(sb, *v, depth+1)
		}
	case iface:
		if v.t == nil {
			sb.WriteString("nil-iface")
		} else {
			fmt.Fprintf(sb, "iface(%s: ", v.t)
			writeDebug(sb, v.v, depth+1)
			sb.WriteString(")")
		}
	case tuple:
		sb.WriteString("(")
		for i, e := range v {
			if i > 0 {
				sb.WriteString(", ")
			}
			writeDebug(sb, e, depth+1)
		}
		sb.WriteString(")")
	case *mapVal:
		if v == nil {
			sb.WriteString("nil-map")
		} else {
			fmt.Fprintf(sb, "map[%d]", len(v.entries))
		}
	case *ssa.Function:
		if v == nil {
			sb.WriteString("nil-func")
		} else {
			sb.WriteString(v.String())
		}
	case *closure:
		sb.WriteString("closure " + v.Fn.String())
	default:
		fmt.Fprintf(sb, "%T(%v)", v, v)
	}
}
