package main

import (
	"bufio"
	"fmt"
	"io"
	"math/big"
	"os"
	"os/exec"
	"strings"
	"time"
)

type SatResult int

const (
	Unsat SatResult = iota
	Sat
	Unknown
)

func (r SatResult) String() string { return [...]string{"unsat", "sat", "unknown"}[r] }

// Solver wraps one long-lived SMT solver process speaking SMT-LIB2 on stdin/stdout.
type Solver struct {
	kind    string // z3 | z3-new | cvc5
	cmd     *exec.Cmd
	in      io.WriteCloser
	out     *bufio.Reader
	printer *Printer
	timeout time.Duration
	log     io.Writer
	// stats
	Queries   int
	NSat      int
	NUnsat    int
	NUnknown  int
	SolveTime time.Duration
	errors    int
	dead      bool
	pathLog   strings.Builder // everything sent at path level since BeginPath (for one-shot fallback)
	fast      time.Duration   // incremental attempt budget
	NFallback int
	NFallbackSolved int
}

func NewSolver(kind string, timeout time.Duration) (*Solver, error) {
	var cmd *exec.Cmd
	ms := fmt.Sprintf("%d", timeout.Milliseconds())
	switch kind {
	case "z3":
		cmd = exec.Command("/usr/bin/z3", "-in", "-smt2", "-t:"+ms)
	case "z3-new":
		cmd = exec.Command("z3-new", "-in", "-smt2", "-t:"+ms)
	case "cvc5":
		cmd = exec.Command("cvc5", "--incremental", "--lang=smt2", "--produce-models", "--tlimit-per="+ms, "--arrays-exp")
	default:
		return nil, fmt.Errorf("unknown solver %s", kind)
	}
	in, err := cmd.StdinPipe()
	if err != nil {
		return nil, err
	}
	out, err := cmd.StdoutPipe()
	if err != nil {
		return nil, err
	}
	cmd.Stderr = cmd.Stdout
	if err := cmd.Start(); err != nil {
		return nil, err
	}
	s := &Solver{kind: kind, cmd: cmd, in: in, out: bufio.NewReaderSize(out, 1<<16), timeout: timeout, fast: 3 * time.Second}
	if s.fast > timeout {
		s.fast = timeout
	}
	if f := os.Getenv("GOSYM_SMTLOG"); f != "" {
		s.log, _ = os.OpenFile(fmt.Sprintf("%s.%d", f, cmd.Process.Pid), os.O_CREATE|os.O_WRONLY|os.O_TRUNC, 0644)
	}
	s.send("(set-option :produce-models true)\n")
	if kind == "cvc5" {
		s.send("(set-logic ALL)\n")
	}
	s.printer = NewPrinter()
	return s, nil
}

func (s *Solver) send(txt string) {
	if s.log != nil {
		io.WriteString(s.log, txt)
	}
	if _, err := io.WriteString(s.in, txt); err != nil {
		s.dead = true
	}
}

func (s *Solver) Close() {
	if s.cmd != nil {
		s.send("(exit)\n")
		s.in.Close()
		done := make(chan struct{})
		go func() { s.cmd.Wait(); close(done) }()
		select {
		case <-done:
		case <-time.After(2 * time.Second):
			s.cmd.Process.Kill()
		}
	}
}

// sync sends an echo marker and reads lines until it appears.
func (s *Solver) readUntilMarker() []string {
	s.send("(echo \"@@done\")\n")
	var lines []string
	for {
		line, err := s.out.ReadString('\n')
		line = strings.TrimRight(line, "\r\n")
		if strings.Contains(line, "@@done") {
			return lines
		}
		if line != "" {
			lines = append(lines, line)
		}
		if err != nil {
			s.dead = true
			return append(lines, "(error \"solver died: "+err.Error()+"\")")
		}
	}
}

// BeginPath opens a fresh scope for a new path.
func (s *Solver) BeginPath() {
	s.send("(push 1)\n")
	s.printer = NewPrinter()
	s.pathLog.Reset()
}

func (s *Solver) sendPath(txt string) {
	s.pathLog.WriteString(txt)
	s.send(txt)
}

func (s *Solver) EndPath() {
	s.send("(pop 1)\n")
	s.printer = NewPrinter()
}

func (s *Solver) flushDefs() {
	if s.printer.out.Len() > 0 {
		s.sendPath(s.printer.out.String())
		s.printer.out.Reset()
	}
}

// Assert adds t permanently to the current path scope.
func (s *Solver) Assert(t *Term) {
	if t.Op == OpBConst && t.B {
		return
	}
	txt := s.printer.Emit(t)
	s.flushDefs()
	s.sendPath("(assert " + txt + ")\n")
}

// Declare makes sure the variables are declared (so get-value works).
func (s *Solver) Declare(v *Term) {
	s.printer.declVar(v)
	s.flushDefs()
}

// Check decides satisfiability of (asserted path) ∧ extra. If wantModel, a model over vars is returned when sat.
func (s *Solver) Check(extra *Term, vars []*Term, wantModel bool) (SatResult, *Model) {
	s.Queries++
	start := time.Now()
	defer func() { s.SolveTime += time.Since(start) }()
	if s.dead {
		s.NUnknown++
		return Unknown, nil
	}
	pushed := false
	extraTxt := ""
	if extra != nil && !(extra.Op == OpBConst && extra.B) {
		extraTxt = s.printer.Emit(extra)
		s.flushDefs()
		s.send("(push 1)\n(assert " + extraTxt + ")\n")
		pushed = true
	}
	if s.kind != "cvc5" {
		s.send(fmt.Sprintf("(set-option :timeout %d)\n", s.fast.Milliseconds()))
	}
	s.send("(check-sat)\n")
	lines := s.readUntilMarker()
	res := Unknown
	bad := false
	for _, l := range lines {
		switch {
		case l == "sat":
			res = Sat
		case l == "unsat":
			res = Unsat
		case l == "unknown" || l == "timeout":
			res = Unknown
		case strings.Contains(l, "(error"):
			bad = true
			s.errors++
			fmt.Fprintf(os.Stderr, "solver error line: %s\n", l)
		}
	}
	if bad {
		res = Unknown
	}
	var model *Model
	if res == Sat && wantModel && len(vars) > 0 {
		model = s.getModel(vars)
		if model == nil {
			res = Unknown
		}
	}
	if pushed {
		s.send("(pop 1)\n")
	}
	if res == Unknown && !s.dead {
		// the incremental engine is weak on nonlinear/div-mod goals; retry one-shot (fresh process,
		// full preprocessing) on a small portfolio
		s.NFallback++
		r2, m2 := s.oneShot(extraTxt, vars, wantModel)
		if r2 != Unknown {
			s.NFallbackSolved++
			res, model = r2, m2
		}
	}
	switch res {
	case Sat:
		s.NSat++
	case Unsat:
		s.NUnsat++
	default:
		s.NUnknown++
	}
	return res, model
}

func (s *Solver) getModel(vars []*Term) *Model {
	var sb strings.Builder
	sb.WriteString("(get-value (")
	for _, v := range vars {
		s.printer.declVar(v)
		sb.WriteString(v.Name)
		sb.WriteByte(' ')
	}
	sb.WriteString("))\n")
	s.flushDefs()
	s.send(sb.String())
	lines := s.readUntilMarker()
	txt := strings.Join(lines, " ")
	if strings.Contains(txt, "(error") {
		fmt.Fprintf(os.Stderr, "get-value error: %s\n", txt)
		return nil
	}
	return parseModel(txt)
}

func parseModel(txt string) *Model {
	m := &Model{Ints: map[string]*big.Int{}, Bools: map[string]bool{}}
	toks := tokenize(txt)
	// expected: ( ( name value ) ( name value ) ... ) where value may be (- n)
	i := 0
	if len(toks) == 0 || toks[0] != "(" {
		return nil
	}
	i = 1
	for i < len(toks) && toks[i] == "(" {
		name := toks[i+1]
		i += 2
		var val string
		neg := false
		if toks[i] == "(" { // (- n)
			if toks[i+1] != "-" {
				return nil
			}
			neg = true
			val = toks[i+2]
			i += 4
		} else {
			val = toks[i]
			i++
		}
		if toks[i] != ")" {
			return nil
		}
		i++
		switch val {
		case "true":
			m.Bools[name] = true
		case "false":
			m.Bools[name] = false
		default:
			b, ok := new(big.Int).SetString(val, 10)
			if !ok {
				return nil
			}
			if neg {
				b.Neg(b)
			}
			m.Ints[name] = b
		}
	}
	return m
}

func tokenize(s string) []string {
	var toks []string
	cur := strings.Builder{}
	flush := func() {
		if cur.Len() > 0 {
			toks = append(toks, cur.String())
			cur.Reset()
		}
	}
	inBar := false
	for _, r := range s {
		if inBar {
			cur.WriteRune(r)
			if r == '|' {
				inBar = false
			}
			continue
		}
		switch r {
		case '|':
			inBar = true
			cur.WriteRune(r)
		case '(', ')':
			flush()
			toks = append(toks, string(r))
		case ' ', '\t', '\n':
			flush()
		default:
			cur.WriteRune(r)
		}
	}
	flush()
	return toks
}

// oneShot decides the current path condition plus extra in fresh solver processes.
func (s *Solver) oneShot(extraTxt string, vars []*Term, wantModel bool) (SatResult, *Model) {
	var sb strings.Builder
	sb.WriteString("(set-option :produce-models true)\n")
	sb.WriteString(s.pathLog.String())
	if extraTxt != "" {
		sb.WriteString("(assert " + extraTxt + ")\n")
	}
	sb.WriteString("(check-sat)\n")
	script := sb.String()
	secs := int(s.timeout.Seconds())
	if secs < 1 {
		secs = 1
	}
	type cfg struct {
		name string
		args []string
		pre  string
	}
	cfgs := []cfg{
		{"/usr/bin/z3", []string{"-in", "-smt2", fmt.Sprintf("-T:%d", secs)}, ""},
		{"z3-new", []string{"-in", "-smt2", fmt.Sprintf("-T:%d", secs)}, ""},
		{"cvc5", []string{"--lang=smt2", "--produce-models", fmt.Sprintf("--tlimit=%d", secs*1000)}, "(set-logic ALL)\n"},
	}
	for _, c := range cfgs {
		cmd := exec.Command(c.name, c.args...)
		full := c.pre + script
		getv := ""
		if wantModel && len(vars) > 0 {
			var gv strings.Builder
			gv.WriteString("(get-value (")
			for _, v := range vars {
				if s.printer.declared[v.Name] {
					gv.WriteString(v.Name)
					gv.WriteByte(' ')
				}
			}
			gv.WriteString("))\n")
			getv = gv.String()
		}
		cmd.Stdin = strings.NewReader(full + getv)
		out, _ := cmd.CombinedOutput()
		txt := string(out)
		first := ""
		for _, l := range strings.Split(txt, "\n") {
			l = strings.TrimSpace(l)
			if l == "sat" || l == "unsat" || l == "unknown" || l == "timeout" {
				first = l
				break
			}
		}
		switch first {
		case "unsat":
			if strings.Contains(txt, "(error") && !strings.Contains(txt, "model is not available") {
				continue
			}
			return Unsat, nil
		case "sat":
			if !wantModel || len(vars) == 0 {
				return Sat, nil
			}
			i := strings.Index(txt, "sat")
			rest := txt[i+3:]
			if strings.Contains(rest, "(error") {
				continue
			}
			m := parseModel(rest)
			if m != nil {
				return Sat, m
			}
		}
	}
	return Unknown, nil
}
