package main

import (
	"encoding/json"
	"fmt"
	"go/token"
	"os"
	"runtime/debug"
	"sort"
	"strings"
	"sync"
	"time"

	"golang.org/x/tools/go/ssa"
)

type PathResult struct {
	harness *Harness
	status  string // done | infeasible | panic | inconclusive
	reason  string
	alts    [][]int
	results []AssertResult
	reached map[string]bool
	cover   map[*ssa.Function]bool
	notes   []string
	steps   int
	decs    []int
	model   *Model // a model of the full path condition, when known
	assumes int
}

func (e *Engine) newCtx(h *Harness, prefix []int, solver *Solver, concrete *Model) *Ctx {
	return &Ctx{
		eng: e, h: h, solver: solver, prefix: prefix, concrete: concrete,
		varNames: map[string]int{}, maxSteps: h.maxSteps,
		globals: map[*ssa.Global]*value{}, pkgInit: map[*ssa.Package]bool{}, onceDone: map[*value]bool{},
		reached: map[string]bool{}, ufApps: map[string][]ufApp{}, injective: map[string]bool{}, hashBuf: map[*value][]*Term{}, frozen: map[*value]bool{},
		cover: map[*ssa.Function]bool{},
		trace: os.Getenv("GOSYM_TRACE") != "", trace2: os.Getenv("GOSYM_TRACE") == "2",
		noMerge: os.Getenv("GOSYM_NOMERGE") != "",
	}
}

func (e *Engine) runPath(h *Harness, prefix []int, solver *Solver, concrete *Model) (pr *PathResult) {
	c := e.newCtx(h, prefix, solver, concrete)
	pr = &PathResult{harness: h}
	if solver != nil {
		solver.BeginPath()
		defer solver.EndPath()
	}
	defer func() {
		pr.alts = c.alts
		pr.results = c.results
		pr.reached = c.reached
		pr.cover = c.cover
		pr.notes = c.notes
		pr.steps = c.steps
		pr.decs = c.taken
		pr.model = c.model
		pr.assumes = c.assumes
	}()
	func() {
		defer func() {
			r := recover()
			if r == nil {
				pr.status = "done"
				return
			}
			switch x := r.(type) {
			case pathAbort:
				switch x.kind {
				case "infeasible":
					pr.status = "infeasible"
				default:
					pr.status = "inconclusive"
				}
				pr.reason = x.kind + ": " + x.msg
			case targetPanic:
				pr.status = "panic"
				pr.reason = x.msg
				func() {
					defer func() {
						if r2 := recover(); r2 != nil {
							pr.status = "inconclusive"
							pr.reason = fmt.Sprintf("while recording panic: %v", r2)
						}
					}()
					c.recordPanic(x.msg)
				}()
			default:
				pr.status = "inconclusive"
				st := string(debug.Stack())
				if len(st) > 3000 {
					st = st[:3000]
				}
				pr.reason = fmt.Sprintf("engine error: %v\n%s", r, st)
			}
		}()
		c.callSSA(nil, token.NoPos, h.fn, nil, nil)
		c.runPendingGo()
	}()
	return pr
}

type Violation struct {
	Harness  string
	Property string
	Label    string
	Facts    []string
	Pos      string
	Detail   string
	Model    *Model
	Decs     []int
	Confirmed string // interp | native | unconfirmed:<why>
	Known    string // non-empty: description of the known finding it matches
	ReplayFile string
}

type HarnessReport struct {
	H           *Harness
	Paths       int
	Done        int
	Infeasible  int
	Panics      int
	Inconclusive int
	InconclusiveReasons map[string]int
	AssertHeld  map[string]int
	AssertTriv  map[string]int
	AssertViol  map[string]int
	AssertUnk   map[string]int
	Violations  []*Violation
	Reached     map[string]bool
	Witness     map[string]*Model // per reach label: a model reaching it
	Cover       map[string]bool
	Notes       map[string]int
	Steps       int
	Wall        time.Duration
	Truncated   bool
	Assumes     int
}

type workItem struct {
	h      *Harness
	prefix []int
}

type Explorer struct {
	e        *Engine
	workers  int
	qtimeout time.Duration
	mu       sync.Mutex
	cond     *sync.Cond
	stacks   map[string][]workItem
	order    []string
	activeBy map[string]int
	active   int
	reports  map[string]*HarnessReport
	started  map[string]time.Time
	solverStats struct {
		queries, sat, unsat, unknown, errors int
		fallback, fallbackSolved int
		time time.Duration
	}
	seed int64
}

func NewExplorer(e *Engine, workers int, qtimeout time.Duration) *Explorer {
	x := &Explorer{e: e, workers: workers, qtimeout: qtimeout, reports: map[string]*HarnessReport{}, started: map[string]time.Time{},
		stacks: map[string][]workItem{}, activeBy: map[string]int{}}
	x.cond = sync.NewCond(&x.mu)
	return x
}

func (x *Explorer) Run(hs []*Harness) {
	for _, h := range hs {
		x.reports[h.name] = &HarnessReport{H: h, InconclusiveReasons: map[string]int{}, AssertHeld: map[string]int{},
			AssertTriv: map[string]int{}, AssertViol: map[string]int{}, AssertUnk: map[string]int{},
			Reached: map[string]bool{}, Witness: map[string]*Model{}, Cover: map[string]bool{}, Notes: map[string]int{}}
		x.stacks[h.name] = append(x.stacks[h.name], workItem{h, nil})
		x.order = append(x.order, h.name)
	}
	var wg sync.WaitGroup
	for i := 0; i < x.workers; i++ {
		wg.Add(1)
		go func() {
			defer wg.Done()
			x.worker()
		}()
	}
	wg.Wait()
}

func (x *Explorer) worker() {
	var solver *Solver
	defer func() {
		if solver != nil {
			x.mu.Lock()
			x.solverStats.queries += solver.Queries
			x.solverStats.sat += solver.NSat
			x.solverStats.unsat += solver.NUnsat
			x.solverStats.unknown += solver.NUnknown
			x.solverStats.errors += solver.errors
			x.solverStats.fallback += solver.NFallback
			x.solverStats.fallbackSolved += solver.NFallbackSolved
			x.solverStats.time += solver.SolveTime
			x.mu.Unlock()
			solver.Close()
		}
	}()
	for {
		x.mu.Lock()
		pick := func() string {
			best, bestN := "", 1<<30
			for _, n := range x.order {
				if len(x.stacks[n]) > 0 && x.activeBy[n] < bestN {
					best, bestN = n, x.activeBy[n]
				}
			}
			return best
		}
		name := pick()
		for name == "" && x.active > 0 {
			x.cond.Wait()
			name = pick()
		}
		if name == "" {
			x.mu.Unlock()
			x.cond.Broadcast()
			return
		}
		st := x.stacks[name]
		it := st[len(st)-1]
		x.stacks[name] = st[:len(st)-1]
		rep := x.reports[it.h.name]
		if _, ok := x.started[name]; !ok {
			x.started[name] = time.Now()
		}
		if rep.Paths >= it.h.maxPaths || time.Since(x.started[it.h.name]) > it.h.budget {
			rep.Truncated = true
			x.stacks[name] = nil
			x.mu.Unlock()
			continue
		}
		rep.Paths++
		x.active++
		x.activeBy[name]++
		x.mu.Unlock()

		if solver == nil || solver.dead {
			if solver != nil {
				solver.Close()
			}
			var err error
			solver, err = NewSolver("z3", x.qtimeout)
			if err != nil {
				fmt.Fprintln(os.Stderr, "cannot start solver:", err)
				os.Exit(3)
			}
		}
		pr := x.e.runPath(it.h, it.prefix, solver, nil)

		x.mu.Lock()
		x.active--
		x.activeBy[name]--
		x.merge(rep, pr)
		for _, a := range pr.alts {
			x.stacks[name] = append(x.stacks[name], workItem{it.h, a})
		}
		rep.Wall = time.Since(x.started[it.h.name])
		x.mu.Unlock()
		x.cond.Broadcast()
	}
}

func factsKey(f []string) string {
	s := append([]string{}, f...)
	sort.Strings(s)
	return strings.Join(s, ",")
}

func (x *Explorer) merge(rep *HarnessReport, pr *PathResult) {
	switch pr.status {
	case "done":
		rep.Done++
	case "infeasible":
		rep.Infeasible++
	case "panic":
		rep.Panics++
	default:
		rep.Inconclusive++
		r := pr.reason
		if i := strings.Index(r, "\n"); i > 0 && !strings.HasPrefix(r, "engine error") {
			r = r[:i]
		}
		rep.InconclusiveReasons[r]++
	}
	rep.Steps += pr.steps
	rep.Assumes += pr.assumes
	for _, n := range pr.notes {
		rep.Notes[n]++
	}
	for f := range pr.cover {
		rep.Cover[f.String()] = true
	}
	for l := range pr.reached {
		if !rep.Reached[l] {
			rep.Reached[l] = true
			if pr.model != nil {
				rep.Witness[l] = pr.model
			}
		} else if rep.Witness[l] == nil && pr.model != nil {
			rep.Witness[l] = pr.model
		}
	}
	for _, ar := range pr.results {
		switch ar.Status {
		case "held":
			rep.AssertHeld[ar.Label]++
		case "trivially-held":
			rep.AssertTriv[ar.Label]++
		case "unknown":
			rep.AssertUnk[ar.Label]++
		case "violated":
			rep.AssertViol[ar.Label]++
			key := ar.Label + "|" + factsKey(ar.Facts)
			dup := false
			for _, v := range rep.Violations {
				if v.Label+"|"+factsKey(v.Facts) == key {
					dup = true
					break
				}
			}
			if !dup {
				rep.Violations = append(rep.Violations, &Violation{Harness: rep.H.name, Property: rep.H.property,
					Label: ar.Label, Facts: ar.Facts, Pos: ar.Pos, Detail: ar.Detail, Model: ar.Model, Decs: ar.Decs})
			}
		}
	}
}

// ConfirmInterp re-runs the harness concretely on the model; the same assertion must fail.
func (e *Engine) ConfirmInterp(h *Harness, v *Violation) (bool, string) {
	if v.Model == nil {
		return false, "no model"
	}
	pr := e.runPath(h, nil, nil, v.Model)
	for _, ar := range pr.results {
		if ar.Label == v.Label && ar.Status == "violated" {
			return true, ""
		}
	}
	detail := ""
	for _, ar := range pr.results {
		if ar.Status != "trivially-held" && ar.Status != "held" {
			detail += " " + ar.Label + "=" + ar.Status + "@" + ar.Pos
		}
	}
	if os.Getenv("GOSYM_DEBUG") != "" {
		b, _ := json.Marshal(modelJSON(v.Model))
		os.WriteFile("/tmp/unconfirmed_"+nameSan.ReplaceAllString(v.Label, "_")+".json", b, 0644)
	}
	return false, fmt.Sprintf("concrete re-execution ended with status=%s reason=%s results=%d%s", pr.status, firstLine(pr.reason), len(pr.results), detail)
}

func firstLine(s string) string {
	if i := strings.Index(s, "\n"); i >= 0 {
		return s[:i]
	}
	return s
}
