package main

import (
	"fmt"
	"go/ast"
	"go/types"
	"os"
	"path/filepath"
	"sort"
	"strconv"
	"strings"
	"time"

	"golang.org/x/tools/go/packages"
	"golang.org/x/tools/go/ssa"
	"golang.org/x/tools/go/ssa/ssautil"
)

type Engine struct {
	prog     *ssa.Program
	pkgs     []*packages.Package
	errStrT  types.Type // errors.errorString
	wrapErrT types.Type // fmt.wrapError
	harness  map[string]*Harness
	repo     string
	hdir     string
	loadTime time.Duration
	overlay  map[string][]byte
}

type Harness struct {
	name     string
	property string
	fn       *ssa.Function
	pkgPath  string
	file     string
	tier     string
	replay   string
	stubs    map[string]*ssa.Function
	stubList []string
	reachLabels []string
	doc      string

	maxDecisions int
	maxSteps     int
	maxMake      int
	maxSplit     int
	maxBigBits   int
	maxPaths     int
	qtimeout     time.Duration
	budget       time.Duration
	mergeMaps, permuteMaps, trustExhaustive, allowPanic, deferGo bool
}

const primsSrc = `//go:build verif

package %s

import (
	"encoding/json"
	"fmt"
	"math/big"
	"os"

	"github.com/holiman/uint256"
)

// Harness primitives. The symbolic engine intercepts these by name; the bodies below are the
// native implementations used when a counterexample is replayed against the real build
// (values come from the JSON model named by $VERIF_MODEL).

type verifModel struct {
	Ints  map[string]string
	Bools map[string]bool
}

var (
	vModel  *verifModel
	vCounts = map[string]int{}
	vFacts  []string
)

func vLoad() {
	if vModel != nil {
		return
	}
	vModel = &verifModel{Ints: map[string]string{}, Bools: map[string]bool{}}
	if p := os.Getenv("VERIF_MODEL"); p != "" {
		b, err := os.ReadFile(p)
		if err != nil {
			panic(err)
		}
		if err := json.Unmarshal(b, vModel); err != nil {
			panic(err)
		}
	}
}

func vSan(tag string) string {
	b := []byte(tag)
	for i, c := range b {
		if !(c >= 'A' && c <= 'Z' || c >= 'a' && c <= 'z' || c >= '0' && c <= '9' || c == '_' || c == '.') {
			b[i] = '_'
		}
	}
	if len(b) == 0 {
		return "v"
	}
	return string(b)
}

func vName(tag string) string {
	tag = vSan(tag)
	n := vCounts[tag]
	vCounts[tag] = n + 1
	if n == 0 {
		return tag
	}
	return fmt.Sprintf("%%s.%%d", tag, n)
}

func vIntVal(tag string) *big.Int {
	vLoad()
	name := vName(tag)
	if s, ok := vModel.Ints[name]; ok {
		v, _ := new(big.Int).SetString(s, 10)
		return v
	}
	return new(big.Int)
}

func vU8(tag string) uint8   { return uint8(vIntVal(tag).Uint64()) }
func vU16(tag string) uint16 { return uint16(vIntVal(tag).Uint64()) }
func vU32(tag string) uint32 { return uint32(vIntVal(tag).Uint64()) }
func vU64(tag string) uint64 { return vIntVal(tag).Uint64() }
func vI64(tag string) int64  { return vIntVal(tag).Int64() }
func vInt(tag string) int    { return int(vIntVal(tag).Int64()) }
func vBool(tag string) bool {
	vLoad()
	return vModel.Bools[vName(tag)]
}
func vBig(tag string) *big.Int            { return vIntVal(tag) }
func vBigN(tag string, bits int) *big.Int { return vIntVal(tag) }
func vU256(tag string) *uint256.Int {
	u, _ := uint256.FromBig(vIntVal(tag))
	return u
}
func vBytes(tag string, n int) []byte {
	r := make([]byte, n)
	for i := range r {
		r[i] = byte(vIntVal(fmt.Sprintf("%%s_%%d", tag, i)).Uint64())
	}
	return r
}
func vLen(tag string, max int) int { return int(vIntVal(tag).Int64()) }
func vAssume(b bool) {
	if !b {
		panic("VERIF-ASSUME-FAILED")
	}
}
func vAssert(label string, b bool) {
	if !b {
		panic("VERIF-ASSERT-FAILED " + label)
	}
}
func vReach(label string)               {}
func vFact(key, val string)             { vFacts = append(vFacts, key+"="+val) }
func vConcrete(x uint64, max uint64) uint64 { return x }
func vIsSym() bool                      { return false }
func vDebug(tag string, x interface{})  {}
func vSameValue(a, b interface{}) bool {
	panic("VERIF-NO-NATIVE: structural comparison")
}
func vProtoFaultSites(msg interface{}) int {
	panic("VERIF-NO-NATIVE: proto fault injection")
}
func vProtoFault(msg interface{}, site int) string {
	panic("VERIF-NO-NATIVE: proto fault injection")
}
func vUF(name string, outLen int, in ...[]byte) []byte {
	panic("VERIF-NO-NATIVE: uninterpreted function " + name)
}
func vUFInjective(name string) {}
func vUF64(name string, args ...uint64) uint64 {
	panic("VERIF-NO-NATIVE: uninterpreted function " + name)
}
func vUF32(name string, args ...*big.Int) [32]byte {
	panic("VERIF-NO-NATIVE: uninterpreted function " + name)
}
func vUFBig(name string, args ...*big.Int) *big.Int {
	panic("VERIF-NO-NATIVE: uninterpreted function " + name)
}

var _ = uint256.NewInt
`

// harnessDirs lists <hdir>/<relpkg>/ directories containing harness files.
func harnessFiles(hdir string) (map[string][]string, error) {
	res := map[string][]string{}
	err := filepath.Walk(hdir, func(p string, info os.FileInfo, err error) error {
		if err != nil {
			return err
		}
		if info.IsDir() || !strings.HasSuffix(p, ".go") {
			return nil
		}
		rel, _ := filepath.Rel(hdir, filepath.Dir(p))
		res[rel] = append(res[rel], p)
		return nil
	})
	return res, err
}

func pkgNameOf(file string) (string, error) {
	b, err := os.ReadFile(file)
	if err != nil {
		return "", err
	}
	for _, line := range strings.Split(string(b), "\n") {
		line = strings.TrimSpace(line)
		if strings.HasPrefix(line, "package ") {
			return strings.Fields(line)[1], nil
		}
	}
	return "", fmt.Errorf("no package clause in %s", file)
}

// BuildOverlay computes the overlay (virtual path -> real file) for engine and native replay.
func BuildOverlay(repo, hdir string, only map[string]bool) (map[string]string, map[string][]byte, []string, error) {
	files, err := harnessFiles(hdir)
	if err != nil {
		return nil, nil, nil, err
	}
	paths := map[string]string{}
	content := map[string][]byte{}
	var pkgs []string
	for rel, fs := range files {
		if only != nil && !only[rel] {
			continue
		}
		sort.Strings(fs)
		pn, err := pkgNameOf(fs[0])
		if err != nil {
			return nil, nil, nil, err
		}
		for _, f := range fs {
			virt := filepath.Join(repo, rel, "zz_verif_"+filepath.Base(f))
			paths[virt] = f
			b, err := os.ReadFile(f)
			if err != nil {
				return nil, nil, nil, err
			}
			content[virt] = b
		}
		virt := filepath.Join(repo, rel, "zz_verif_prims.go")
		content[virt] = []byte(fmt.Sprintf(primsSrc, pn))
		pkgs = append(pkgs, "./"+rel)
	}
	sort.Strings(pkgs)
	return paths, content, pkgs, nil
}

func LoadEngine(repo, hdir string, only map[string]bool) (*Engine, error) {
	start := time.Now()
	_, content, pkgPatterns, err := BuildOverlay(repo, hdir, only)
	if err != nil {
		return nil, err
	}
	if len(pkgPatterns) == 0 {
		return nil, fmt.Errorf("no harness packages under %s", hdir)
	}
	cfg := &packages.Config{
		Mode:       packages.LoadAllSyntax,
		Dir:        repo,
		Overlay:    content,
		BuildFlags: []string{"-tags=verif"},
		Env:        append(os.Environ(), "GOFLAGS=-mod=mod", "GOPROXY=off", "GOSUMDB=off", "GOTOOLCHAIN=local"),
	}
	initial, err := packages.Load(cfg, pkgPatterns...)
	if err != nil {
		return nil, err
	}
	nerr := 0
	packages.Visit(initial, nil, func(p *packages.Package) {
		for _, e := range p.Errors {
			if nerr < 20 {
				fmt.Fprintf(os.Stderr, "load error: %s: %v\n", p.PkgPath, e)
			}
			nerr++
		}
	})
	if nerr > 0 {
		return nil, fmt.Errorf("%d package load errors", nerr)
	}
	prog, _ := ssautil.AllPackages(initial, ssa.InstantiateGenerics|ssa.SanityCheckFunctions*0)
	prog.Build()
	e := &Engine{prog: prog, pkgs: initial, harness: map[string]*Harness{}, repo: repo, hdir: hdir, overlay: content}
	if p := prog.ImportedPackage("errors"); p != nil {
		e.errStrT = p.Type("errorString").Type()
	} else {
		return nil, fmt.Errorf("errors package not loaded")
	}
	if p := prog.ImportedPackage("fmt"); p != nil {
		if t := p.Type("wrapError"); t != nil {
			e.wrapErrT = t.Type()
		}
	}
	// discover harnesses
	for _, ip := range initial {
		sp := prog.Package(ip.Types)
		if sp == nil {
			continue
		}
		docs := map[string]string{}
		fileOf := map[string]string{}
		for _, f := range ip.Syntax {
			fname := prog.Fset.Position(f.Pos()).Filename
			if !strings.HasPrefix(filepath.Base(fname), "zz_verif_") {
				continue
			}
			for _, d := range f.Decls {
				if fd, ok := d.(*ast.FuncDecl); ok && fd.Recv == nil && strings.HasPrefix(fd.Name.Name, "VerifH_") {
					if fd.Doc != nil {
						var sb strings.Builder
						for _, cm := range fd.Doc.List {
							sb.WriteString(cm.Text)
							sb.WriteByte('\n')
						}
						docs[fd.Name.Name] = sb.String()
					}
					fileOf[fd.Name.Name] = fname
				}
			}
		}
		for name, m := range sp.Members {
			fn, ok := m.(*ssa.Function)
			if !ok || !strings.HasPrefix(name, "VerifH_") {
				continue
			}
			h, err := e.newHarness(sp, fn, docs[name])
			if err != nil {
				return nil, fmt.Errorf("harness %s: %v", name, err)
			}
			h.file = fileOf[name]
			e.harness[h.name] = h
		}
	}
	e.loadTime = time.Since(start)
	return e, nil
}

func (e *Engine) newHarness(sp *ssa.Package, fn *ssa.Function, doc string) (*Harness, error) {
	parts := strings.Split(strings.TrimPrefix(fn.Name(), "VerifH_"), "_")
	if len(parts) < 2 {
		return nil, fmt.Errorf("harness name must be VerifH_<prop>_<id>")
	}
	h := &Harness{
		name:     "H-" + strings.Join(parts, "-"),
		property: parts[0],
		fn:       fn,
		pkgPath:  sp.Pkg.Path(),
		tier:     "quick",
		replay:   "interp",
		stubs:    map[string]*ssa.Function{},
		doc:      doc,

		maxDecisions: 400,
		maxSteps:     20_000_000,
		maxMake:      1 << 16,
		maxSplit:     64,
		maxBigBits:   264,
		maxPaths:     200000,
		qtimeout:     20 * time.Second,
		budget:       10 * time.Minute,
		mergeMaps:    true,
		trustExhaustive: true,
	}
	for _, line := range strings.Split(doc, "\n") {
		line = strings.TrimSpace(strings.TrimPrefix(strings.TrimSpace(line), "//"))
		switch {
		case strings.HasPrefix(line, "verif:stub "):
			f := strings.Split(strings.TrimPrefix(line, "verif:stub "), "=>")
			if len(f) != 2 {
				return nil, fmt.Errorf("bad stub directive %q", line)
			}
			target, repl := strings.TrimSpace(f[0]), strings.TrimSpace(f[1])
			rf := sp.Func(repl)
			if rf == nil {
				return nil, fmt.Errorf("stub replacement %s not found in %s", repl, sp.Pkg.Path())
			}
			h.stubs[target] = rf
			h.stubList = append(h.stubList, target+" => "+repl)
		case strings.HasPrefix(line, "verif:tier "):
			h.tier = strings.TrimSpace(strings.TrimPrefix(line, "verif:tier "))
		case strings.HasPrefix(line, "verif:replay "):
			h.replay = strings.TrimSpace(strings.TrimPrefix(line, "verif:replay "))
		case strings.HasPrefix(line, "verif:opts "):
			for _, o := range strings.Fields(strings.TrimPrefix(line, "verif:opts ")) {
				switch o {
				case "nomergemaps":
					h.mergeMaps = false
				case "permutemaps":
					h.permuteMaps = true
				case "allowpanic":
					h.allowPanic = true
				case "defergo":
					h.deferGo = true
				default:
					return nil, fmt.Errorf("unknown option %q", o)
				}
			}
		case strings.HasPrefix(line, "verif:bounds "):
			for _, kv := range strings.Fields(strings.TrimPrefix(line, "verif:bounds ")) {
				p := strings.SplitN(kv, "=", 2)
				if len(p) != 2 {
					return nil, fmt.Errorf("bad bound %q", kv)
				}
				if p[0] == "qtimeout" || p[0] == "budget" {
					d, err := time.ParseDuration(p[1])
					if err != nil {
						return nil, err
					}
					if p[0] == "qtimeout" {
						h.qtimeout = d
					} else {
						h.budget = d
					}
					continue
				}
				n, err := strconv.Atoi(p[1])
				if err != nil {
					return nil, err
				}
				switch p[0] {
				case "decisions":
					h.maxDecisions = n
				case "steps":
					h.maxSteps = n
				case "make":
					h.maxMake = n
				case "split":
					h.maxSplit = n
				case "bigbits":
					h.maxBigBits = n
				case "paths":
					h.maxPaths = n
				default:
					return nil, fmt.Errorf("unknown bound %q", p[0])
				}
			}
		}
	}
	// the stub targets must exist in the program (a renamed function must not silently un-stub)
	for target := range h.stubs {
		if !e.funcExists(target) {
			return nil, fmt.Errorf("stub target %q does not exist in the program", target)
		}
	}
	// static scan for vReach labels
	seen := map[string]bool{}
	var scan func(f *ssa.Function)
	visited := map[*ssa.Function]bool{}
	scan = func(f *ssa.Function) {
		if visited[f] {
			return
		}
		visited[f] = true
		for _, b := range f.Blocks {
			for _, in := range b.Instrs {
				if call, ok := in.(*ssa.Call); ok {
					if callee := call.Call.StaticCallee(); callee != nil {
						if callee.Name() == "vReach" && len(call.Call.Args) == 1 {
							if k, ok := call.Call.Args[0].(*ssa.Const); ok {
								l := constantString(k)
								if !seen[l] {
									seen[l] = true
									h.reachLabels = append(h.reachLabels, l)
								}
							}
						}
					}
				}
			}
		}
		for _, af := range f.AnonFuncs {
			scan(af)
		}
	}
	scan(fn)
	sort.Strings(h.reachLabels)
	return h, nil
}

var funcIndex map[string]bool

func (e *Engine) funcExists(target string) bool {
	if funcIndex == nil {
		funcIndex = map[string]bool{}
		for fn := range ssautil.AllFunctions(e.prog) {
			funcIndex[normName(fn.String())] = true
		}
	}
	return funcIndex[target]
}

// findMethod returns the method named name in t's method set, or nil.
func (e *Engine) findMethod(t types.Type, name string) *ssa.Function {
	ms := e.prog.MethodSets.MethodSet(t)
	for i := 0; i < ms.Len(); i++ {
		if ms.At(i).Obj().Name() == name {
			return e.prog.MethodValue(ms.At(i))
		}
	}
	return nil
}
