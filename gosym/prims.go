package main

import (
	"fmt"
	"os"
	"go/token"
	"go/types"
	"math/big"

	"golang.org/x/tools/go/ssa"
)

var prims map[string]intrinsic

func tagOf(c *Ctx, v value) string {
	s, ok := v.(string)
	if !ok {
		c.unsupported("harness primitive tag must be a constant string")
	}
	return s
}

func init() {
	nd := func(w int, signed bool) intrinsic {
		k := intKind{w, signed}
		return func(c *Ctx, fr *frame, fn *ssa.Function, a []value, pos token.Pos) value {
			return c.newIntVar(tagOf(c, a[0]), k.lo(), k.hi())
		}
	}
	prims = map[string]intrinsic{
		"vU8":  nd(8, false),
		"vU16": nd(16, false),
		"vU32": nd(32, false),
		"vU64": nd(64, false),
		"vI64": nd(64, true),
		"vInt": nd(64, true),
		"vBool": func(c *Ctx, fr *frame, fn *ssa.Function, a []value, pos token.Pos) value {
			return c.newBoolVar(tagOf(c, a[0]))
		},
		"vBig": func(c *Ctx, fr *frame, fn *ssa.Function, a []value, pos token.Pos) value {
			return newBigPtr(c.newIntVar(tagOf(c, a[0]), nil, nil))
		},
		"vBigN": func(c *Ctx, fr *frame, fn *ssa.Function, a []value, pos token.Pos) value {
			// non-negative integer below 2^bits
			bits, ok := concreteInt(a[1])
			if !ok {
				c.unsupported("vBigN bits must be concrete")
			}
			return newBigPtr(c.newIntVar(tagOf(c, a[0]), bigZero, new(big.Int).Sub(Pow2(int(bits)), bigOne)))
		},
		"vU256": func(c *Ctx, fr *frame, fn *ssa.Function, a []value, pos token.Pos) value {
			var box value = u256Val{c.newIntVar(tagOf(c, a[0]), bigZero, u256Max)}
			return &box
		},
		"vBytes": func(c *Ctx, fr *frame, fn *ssa.Function, a []value, pos token.Pos) value {
			n, ok := concreteInt(a[1])
			if !ok {
				c.unsupported("vBytes length must be concrete (use vLen first)")
			}
			tag := tagOf(c, a[0])
			r := make([]value, n)
			for i := range r {
				r[i] = c.newIntVar(fmt.Sprintf("%s_%d", tag, i), bigZero, big.NewInt(255))
			}
			return r
		},
		"vLen": func(c *Ctx, fr *frame, fn *ssa.Function, a []value, pos token.Pos) value {
			max, ok := concreteInt(a[1])
			if !ok {
				c.unsupported("vLen max must be concrete")
			}
			v := c.newIntVar(tagOf(c, a[0]), bigZero, big.NewInt(max))
			return CI(c.concretize(v, "vLen", pos, 0, max))
		},
		"vAssume": func(c *Ctx, fr *frame, fn *ssa.Function, a []value, pos token.Pos) value {
			c.assume(asTerm(a[0]), pos)
			return nil
		},
		"vAssert": func(c *Ctx, fr *frame, fn *ssa.Function, a []value, pos token.Pos) value {
			c.assert(tagOf(c, a[0]), asTerm(a[1]), pos)
			return nil
		},
		"vReach": func(c *Ctx, fr *frame, fn *ssa.Function, a []value, pos token.Pos) value {
			l := tagOf(c, a[0])
			if !c.reached[l] {
				// make sure the path condition is really satisfiable here
				if c.concrete == nil && c.model == nil && c.dpos >= len(c.prefix) {
					r, m := c.check(TTrue)
					if r == Unsat {
						panic(pathAbort{"infeasible", "unreachable"})
					}
					if r == Sat {
						c.model = m
					}
				}
				c.reached[l] = true
			}
			return nil
		},
		"vFact": func(c *Ctx, fr *frame, fn *ssa.Function, a []value, pos token.Pos) value {
			c.facts = append(c.facts, tagOf(c, a[0])+"="+tagOf(c, a[1]))
			return nil
		},
		"vConcrete": func(c *Ctx, fr *frame, fn *ssa.Function, a []value, pos token.Pos) value {
			// vConcrete(x uint64, max uint64) uint64: case-split x over 0..max
			max, _ := concreteInt(a[1])
			return CI(c.concretize(a[0], "vConcrete", pos, 0, max))
		},
		"vDebug": func(c *Ctx, fr *frame, fn *ssa.Function, a []value, pos token.Pos) value {
			if os.Getenv("GOSYM_VDEBUG") != "" {
				fmt.Fprintf(os.Stderr, "vDebug %s = %s\n", toDebug(a[0]), toDebug(a[1]))
			}
			return nil
		},
		"vIsSym": func(c *Ctx, fr *frame, fn *ssa.Function, a []value, pos token.Pos) value {
			return CB(c.concrete == nil)
		},
		"vUF": func(c *Ctx, fr *frame, fn *ssa.Function, a []value, pos token.Pos) value {
			// vUF(name string, outLen int, in ...[]byte) []byte : uninterpreted function on byte strings
			name := tagOf(c, a[0])
			n, _ := concreteInt(a[1])
			var in []*Term
			for _, s := range a[2].([]value) {
				in = append(in, CI(int64(len(s.([]value)))))
				in = append(in, sliceTerms(s)...)
			}
			return termsSlice(c.applyUF(name, in, int(n), 255))
		},
		"vUFInjective": func(c *Ctx, fr *frame, fn *ssa.Function, a []value, pos token.Pos) value {
			c.injective[tagOf(c, a[0])] = true
			return nil
		},
		"vUF64": func(c *Ctx, fr *frame, fn *ssa.Function, a []value, pos token.Pos) value {
			// vUF64(name string, args ...uint64) uint64
			name := tagOf(c, a[0])
			in := sliceTerms(a[1])
			return c.applyUF(name, in, 1, -1)[0]
		},
		"vUF32": func(c *Ctx, fr *frame, fn *ssa.Function, a []value, pos token.Pos) value {
			// vUF32(name string, args ...*big.Int) [32]byte
			name := tagOf(c, a[0])
			var in []*Term
			for _, p := range a[1].([]value) {
				in = append(in, c.bigOf(p, pos))
			}
			return array(termsSlice(c.applyUF(name, in, 32, 255)))
		},
		"vUFBig": func(c *Ctx, fr *frame, fn *ssa.Function, a []value, pos token.Pos) value {
			// vUFBig(name string, args ...*big.Int) *big.Int   (non-negative result)
			name := tagOf(c, a[0])
			var in []*Term
			for _, p := range a[1].([]value) {
				in = append(in, c.bigOf(p, pos))
			}
			return newBigPtr(c.applyUF(name, in, 1, -2)[0])
		},
	}
}

// applyUF models an uninterpreted function by Ackermann expansion: a fresh result per application
// plus functional-consistency constraints against earlier applications (and injectivity on request).
// outMax: 255 => bytes; -1 => uint64; -2 => unbounded non-negative.
func (c *Ctx) applyUF(name string, in []*Term, nOut int, outMax int) []*Term {
	apps := c.ufApps[name]
	// identical arguments (syntactically) => same result
	for _, ap := range apps {
		if len(ap.args) == len(in) {
			same := true
			for i := range in {
				if ap.args[i] != in[i] && !(ap.args[i].Op == OpConst && in[i].Op == OpConst && ap.args[i].Val.Cmp(in[i].Val) == 0) {
					same = false
					break
				}
			}
			if same {
				return ap.res
			}
		}
	}
	res := make([]*Term, nOut)
	for i := range res {
		var hi *big.Int
		switch outMax {
		case 255:
			hi = big.NewInt(255)
		case -1:
			hi = new(big.Int).Sub(Pow2(64), bigOne)
		}
		res[i] = c.newIntVar(fmt.Sprintf("uf_%s_%d_%d", name, len(apps), i), bigZero, hi)
	}
	if c.concrete == nil {
		for _, ap := range apps {
			if len(ap.args) != len(in) {
				if c.injective[name] && len(ap.res) == len(res) {
					eqOut := TTrue
					for i := injTail(name, len(res)); i < len(res); i++ {
						eqOut = And(eqOut, Eq(ap.res[i], res[i]))
					}
					c.addPC(Not(eqOut))
				}
				continue
			}
			eqIn := TTrue
			for i := range in {
				eqIn = And(eqIn, Eq(ap.args[i], in[i]))
			}
			eqOut := TTrue
			for i := range res {
				eqOut = And(eqOut, Eq(ap.res[i], res[i]))
			}
			if eqIn != TFalse {
				c.addPC(Or(Not(eqIn), eqOut))
			}
			if c.injective[name] {
				eqTail := TTrue
				for i := injTail(name, len(res)); i < len(res); i++ {
					eqTail = And(eqTail, Eq(ap.res[i], res[i]))
				}
				c.addPC(Or(Not(eqTail), eqIn))
			}
		}
		c.model = nil
	}
	c.ufApps[name] = append(apps, ufApp{args: in, res: res})
	return res
}

// injTail: cryptographic digests are assumed collision free even when their first four bytes are
// ignored (the protocol overwrites bytes 0..3 of transaction and block hashes with location and
// ledger tags, so identity rests on the remaining 28 bytes).
func injTail(name string, n int) int {
	switch name {
	case "keccak256", "keccak512", "blake3", "sha256":
		if n >= 8 {
			return 4
		}
	}
	return 0
}

var _ = types.Typ

// recordUF remembers a concrete application (real input/output) of an otherwise uninterpreted function.
func (c *Ctx) recordUF(name string, in []*Term, res []*Term) {
	for _, ap := range c.ufApps[name] {
		if len(ap.args) == len(in) {
			same := true
			for i := range in {
				if !(ap.args[i].Op == OpConst && in[i].Op == OpConst && ap.args[i].Val.Cmp(in[i].Val) == 0) {
					same = false
					break
				}
			}
			if same {
				return
			}
		}
	}
	c.ufApps[name] = append(c.ufApps[name], ufApp{args: in, res: res})
}

// applyUFRange: single-result uninterpreted function with an explicit result range.
func (c *Ctx) applyUFRange(name string, in []*Term, lo, hi *big.Int) *Term {
	apps := c.ufApps[name]
	for _, ap := range apps {
		if len(ap.args) == len(in) {
			same := true
			for i := range in {
				if ap.args[i] != in[i] && !(ap.args[i].Op == OpConst && in[i].Op == OpConst && ap.args[i].Val.Cmp(in[i].Val) == 0) {
					same = false
					break
				}
			}
			if same {
				return ap.res[0]
			}
		}
	}
	res := c.newIntVar(fmt.Sprintf("uf_%s_%d", name, len(apps)), lo, hi)
	if c.concrete == nil {
		for _, ap := range apps {
			if len(ap.args) != len(in) {
				continue
			}
			eqIn := TTrue
			for i := range in {
				eqIn = And(eqIn, Eq(ap.args[i], in[i]))
			}
			if eqIn != TFalse {
				c.addPC(Or(Not(eqIn), Eq(ap.res[0], res)))
			}
		}
		c.model = nil
	}
	c.ufApps[name] = append(apps, ufApp{args: in, res: []*Term{res}})
	return res
}
