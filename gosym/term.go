package main

// SMT term DAG with constant folding, interval tracking and SMT-LIB2 printing.
// Integer-first encoding: Go machine integers are SMT Ints kept inside their
// range by explicit mod (see DESIGN.md 2.2).

import (
	"fmt"
	"math/big"
	"sort"
	"strings"
)

type Op uint8

const (
	OpConst Op = iota // Int const
	OpBConst
	OpVar  // Int var
	OpBVar // Bool var
	OpAdd
	OpSub
	OpMul
	OpDiv // SMT div (euclidean)
	OpMod // SMT mod (euclidean)
	OpNeg
	OpIte  // Int ite
	OpBIte // Bool ite
	OpNot
	OpAnd
	OpOr
	OpEq  // Int =
	OpBEq // Bool =
	OpLt
	OpLe
	OpBvAnd // width in W, on non-negative ints < 2^W
	OpBvOr
	OpBvXor
	OpBvShl // arg1 shift amount (Int)
	OpBvLshr
	OpUF  // uninterpreted Int function application, Name
	OpPow2 // 2^x for symbolic x (rare) -> encoded as UF-free ite chain up to W
)

type Term struct {
	Op   Op
	Args []*Term
	Val  *big.Int // OpConst
	B    bool     // OpBConst
	Name string   // vars, UF
	W    int      // bv width
	Lo   *big.Int // interval (Int sort); nil = unbounded
	Hi   *big.Int
	id   int
	hasUF bool
	ExtOf *Term // this term is byte ExtK (little-endian index) of ExtOf
	ExtK  int
}

var termCounter int

func (t *Term) IsBool() bool {
	switch t.Op {
	case OpBConst, OpBVar, OpBIte, OpNot, OpAnd, OpOr, OpEq, OpBEq, OpLt, OpLe:
		return true
	}
	return false
}

func (t *Term) IsConst() bool { return t.Op == OpConst || t.Op == OpBConst }

func mk(op Op, args ...*Term) *Term {
	termCounter++
	t := &Term{Op: op, Args: args, id: termCounter}
	for _, a := range args {
		if a.hasUF {
			t.hasUF = true
		}
	}
	return t
}

var (
	bigZero = big.NewInt(0)
	bigOne  = big.NewInt(1)
	TTrue   = &Term{Op: OpBConst, B: true, id: -1}
	TFalse  = &Term{Op: OpBConst, B: false, id: -2}
)

var smallConsts [260]*Term

func init() {
	for i := range smallConsts {
		v := big.NewInt(int64(i - 2))
		smallConsts[i] = &Term{Op: OpConst, Val: v, Lo: v, Hi: v, id: -10 - i}
	}
}

func Pow2(n int) *big.Int { return new(big.Int).Lsh(bigOne, uint(n)) }

func CInt(v *big.Int) *Term {
	if v.IsInt64() {
		i := v.Int64()
		if i >= -2 && i < 258 {
			return smallConsts[i+2]
		}
	}
	termCounter++
	c := new(big.Int).Set(v)
	return &Term{Op: OpConst, Val: c, Lo: c, Hi: c, id: termCounter}
}
func CI(v int64) *Term {
	if v >= -2 && v < 258 {
		return smallConsts[v+2]
	}
	return CInt(big.NewInt(v))
}
func CU(v uint64) *Term { return CInt(new(big.Int).SetUint64(v)) }
func CB(b bool) *Term {
	if b {
		return TTrue
	}
	return TFalse
}

func NewVar(name string, lo, hi *big.Int) *Term {
	t := mk(OpVar)
	t.Name = name
	t.Lo, t.Hi = lo, hi
	return t
}
func NewBVar(name string) *Term {
	t := mk(OpBVar)
	t.Name = name
	return t
}

// interval helpers (nil = infinite)
func addB(a, b *big.Int) *big.Int {
	if a == nil || b == nil {
		return nil
	}
	return new(big.Int).Add(a, b)
}
func subB(a, b *big.Int) *big.Int {
	if a == nil || b == nil {
		return nil
	}
	return new(big.Int).Sub(a, b)
}
func minB(a, b *big.Int) *big.Int {
	if a == nil || b == nil {
		return nil
	}
	if a.Cmp(b) < 0 {
		return a
	}
	return b
}
func maxB(a, b *big.Int) *big.Int {
	if a == nil || b == nil {
		return nil
	}
	if a.Cmp(b) > 0 {
		return a
	}
	return b
}

func (t *Term) nonNeg() bool { return t.Lo != nil && t.Lo.Sign() >= 0 }

func Add(a, b *Term) *Term {
	if a.Op == OpConst && b.Op == OpConst {
		return CInt(new(big.Int).Add(a.Val, b.Val))
	}
	if a.Op == OpConst && a.Val.Sign() == 0 {
		return b
	}
	if b.Op == OpConst && b.Val.Sign() == 0 {
		return a
	}
	// (x + c1) + c2
	if b.Op == OpConst && a.Op == OpAdd && a.Args[1].Op == OpConst {
		return Add(a.Args[0], CInt(new(big.Int).Add(a.Args[1].Val, b.Val)))
	}
	if a.Op == OpConst {
		a, b = b, a
	}
	t := mk(OpAdd, a, b)
	t.Lo, t.Hi = addB(a.Lo, b.Lo), addB(a.Hi, b.Hi)
	return t
}

func Sub(a, b *Term) *Term {
	if a.Op == OpConst && b.Op == OpConst {
		return CInt(new(big.Int).Sub(a.Val, b.Val))
	}
	if b.Op == OpConst {
		return Add(a, CInt(new(big.Int).Neg(b.Val)))
	}
	if a == b {
		return CI(0)
	}
	t := mk(OpSub, a, b)
	t.Lo, t.Hi = subB(a.Lo, b.Hi), subB(a.Hi, b.Lo)
	return t
}

func Neg(a *Term) *Term {
	if a.Op == OpConst {
		return CInt(new(big.Int).Neg(a.Val))
	}
	return Sub(CI(0), a)
}

func Mul(a, b *Term) *Term {
	if a.Op == OpConst && b.Op == OpConst {
		return CInt(new(big.Int).Mul(a.Val, b.Val))
	}
	if a.Op == OpConst {
		a, b = b, a
	}
	if b.Op == OpConst {
		if b.Val.Sign() == 0 {
			return CI(0)
		}
		if b.Val.Cmp(bigOne) == 0 {
			return a
		}
	}
	t := mk(OpMul, a, b)
	if a.Lo != nil && a.Hi != nil && b.Lo != nil && b.Hi != nil {
		c := []*big.Int{
			new(big.Int).Mul(a.Lo, b.Lo), new(big.Int).Mul(a.Lo, b.Hi),
			new(big.Int).Mul(a.Hi, b.Lo), new(big.Int).Mul(a.Hi, b.Hi)}
		lo, hi := c[0], c[0]
		for _, x := range c[1:] {
			lo, hi = minB(lo, x), maxB(hi, x)
		}
		t.Lo, t.Hi = lo, hi
	} else if a.nonNeg() && b.nonNeg() {
		t.Lo = new(big.Int).Mul(a.Lo, b.Lo)
	}
	return t
}

func euclidDivMod(a, b *big.Int) (*big.Int, *big.Int) {
	q, m := new(big.Int), new(big.Int)
	q.DivMod(a, b, m) // Euclidean
	return q, m
}

// Div is SMT-LIB euclidean div; b must be known non-zero by the caller.
func Div(a, b *Term) *Term {
	if a.Op == OpConst && b.Op == OpConst && b.Val.Sign() != 0 {
		q, _ := euclidDivMod(a.Val, b.Val)
		return CInt(q)
	}
	if b.Op == OpConst && b.Val.Cmp(bigOne) == 0 {
		return a
	}
	t := mk(OpDiv, a, b)
	if a.nonNeg() && b.Lo != nil && b.Lo.Sign() > 0 {
		t.Lo = bigZero
		if a.Hi != nil {
			t.Hi = new(big.Int).Div(a.Hi, b.Lo)
		}
		if b.Hi != nil {
			t.Lo = new(big.Int).Div(a.Lo, b.Hi)
		}
	}
	return t
}

func Mod(a, b *Term) *Term {
	if a.Op == OpConst && b.Op == OpConst && b.Val.Sign() != 0 {
		_, m := euclidDivMod(a.Val, b.Val)
		return CInt(m)
	}
	// already in range?
	if b.Op == OpConst && b.Val.Sign() > 0 && a.nonNeg() && a.Hi != nil && a.Hi.Cmp(b.Val) < 0 {
		return a
	}
	t := mk(OpMod, a, b)
	if b.Lo != nil && b.Lo.Sign() > 0 {
		t.Lo = bigZero
		if b.Hi != nil {
			t.Hi = new(big.Int).Sub(b.Hi, bigOne)
			if a.nonNeg() && a.Hi != nil && a.Hi.Cmp(t.Hi) < 0 {
				t.Hi = a.Hi
			}
		}
	}
	return t
}

func Ite(c, a, b *Term) *Term {
	if c.Op == OpBConst {
		if c.B {
			return a
		}
		return b
	}
	if a == b {
		return a
	}
	if a.IsBool() {
		if a.Op == OpBConst && b.Op == OpBConst {
			if a.B == b.B {
				return a
			}
			if a.B {
				return c
			}
			return Not(c)
		}
		return mk(OpBIte, c, a, b)
	}
	if a.Op == OpConst && b.Op == OpConst && a.Val.Cmp(b.Val) == 0 {
		return a
	}
	t := mk(OpIte, c, a, b)
	t.Lo, t.Hi = minB(a.Lo, b.Lo), maxB(a.Hi, b.Hi)
	return t
}

func Not(a *Term) *Term {
	if a.Op == OpBConst {
		return CB(!a.B)
	}
	if a.Op == OpNot {
		return a.Args[0]
	}
	return mk(OpNot, a)
}

func And(a, b *Term) *Term {
	if a.Op == OpBConst {
		if a.B {
			return b
		}
		return TFalse
	}
	if b.Op == OpBConst {
		if b.B {
			return a
		}
		return TFalse
	}
	if a == b {
		return a
	}
	return mk(OpAnd, a, b)
}

func Or(a, b *Term) *Term {
	if a.Op == OpBConst {
		if a.B {
			return TTrue
		}
		return b
	}
	if b.Op == OpBConst {
		if b.B {
			return TTrue
		}
		return a
	}
	if a == b {
		return a
	}
	return mk(OpOr, a, b)
}

func AndAll(ts []*Term) *Term {
	r := TTrue
	for _, t := range ts {
		r = And(r, t)
	}
	return r
}

func Eq(a, b *Term) *Term {
	if a.IsBool() != b.IsBool() {
		panic("Eq: sort mismatch")
	}
	if a.IsBool() {
		if a.Op == OpBConst && b.Op == OpBConst {
			return CB(a.B == b.B)
		}
		if a.Op == OpBConst {
			a, b = b, a
		}
		if b.Op == OpBConst {
			if b.B {
				return a
			}
			return Not(a)
		}
		if a == b {
			return TTrue
		}
		return mk(OpBEq, a, b)
	}
	if a.Op == OpConst && b.Op == OpConst {
		return CB(a.Val.Cmp(b.Val) == 0)
	}
	if a == b {
		return TTrue
	}
	// disjoint intervals
	if a.Hi != nil && b.Lo != nil && a.Hi.Cmp(b.Lo) < 0 {
		return TFalse
	}
	if b.Hi != nil && a.Lo != nil && b.Hi.Cmp(a.Lo) < 0 {
		return TFalse
	}
	// ite(c, k1, k2) == k
	if b.Op == OpConst && a.Op == OpIte && a.Args[1].Op == OpConst && a.Args[2].Op == OpConst {
		return Ite(a.Args[0], Eq(a.Args[1], b), Eq(a.Args[2], b))
	}
	return mk(OpEq, a, b)
}

func Lt(a, b *Term) *Term {
	if a.Op == OpConst && b.Op == OpConst {
		return CB(a.Val.Cmp(b.Val) < 0)
	}
	if a == b {
		return TFalse
	}
	if a.Hi != nil && b.Lo != nil && a.Hi.Cmp(b.Lo) < 0 {
		return TTrue
	}
	if a.Lo != nil && b.Hi != nil && a.Lo.Cmp(b.Hi) >= 0 {
		return TFalse
	}
	return mk(OpLt, a, b)
}

func Le(a, b *Term) *Term {
	if a.Op == OpConst && b.Op == OpConst {
		return CB(a.Val.Cmp(b.Val) <= 0)
	}
	if a == b {
		return TTrue
	}
	if a.Hi != nil && b.Lo != nil && a.Hi.Cmp(b.Lo) <= 0 {
		return TTrue
	}
	if a.Lo != nil && b.Hi != nil && a.Lo.Cmp(b.Hi) > 0 {
		return TFalse
	}
	return mk(OpLe, a, b)
}
func Gt(a, b *Term) *Term { return Lt(b, a) }
func Ge(a, b *Term) *Term { return Le(b, a) }

// Bitwise on non-negative ints below 2^w.
func bvop(op Op, w int, a, b *Term) *Term {
	if a.Op == OpConst && b.Op == OpConst {
		r := new(big.Int)
		switch op {
		case OpBvAnd:
			r.And(a.Val, b.Val)
		case OpBvOr:
			r.Or(a.Val, b.Val)
		case OpBvXor:
			r.Xor(a.Val, b.Val)
		}
		return CInt(r)
	}
	if a.Op == OpConst {
		a, b = b, a
	}
	if b.Op == OpConst {
		m := b.Val
		switch op {
		case OpBvAnd:
			if m.Sign() == 0 {
				return CI(0)
			}
			// mask 2^k-1
			m1 := new(big.Int).Add(m, bigOne)
			if m1.BitLen()-1 == m.BitLen() && new(big.Int).And(m1, m).Sign() == 0 {
				return Mod(a, CInt(m1))
			}
			// contiguous mask ((2^k-1) << s): (a div 2^s mod 2^k) * 2^s
			s := int(m.TrailingZeroBits())
			sh := new(big.Int).Rsh(m, uint(s))
			sh1 := new(big.Int).Add(sh, bigOne)
			if new(big.Int).And(sh1, sh).Sign() == 0 {
				return Mul(Mod(Div(a, CInt(Pow2(s))), CInt(sh1)), CInt(Pow2(s)))
			}
		case OpBvOr, OpBvXor:
			if m.Sign() == 0 {
				return a
			}
		}
	}
	if op == OpBvOr || op == OpBvXor {
		// disjoint bit ranges: one operand is a multiple of 2^k and the other is below 2^k, so
		// the operation is an addition (byte recombination: hi<<8 | lo)
		if a.nonNeg() && b.nonNeg() {
			if k := trailingZeros(a); k > 0 && b.Hi != nil && b.Hi.Cmp(Pow2(k)) < 0 {
				return Add(a, b)
			}
			if k := trailingZeros(b); k > 0 && a.Hi != nil && a.Hi.Cmp(Pow2(k)) < 0 {
				return Add(a, b)
			}
		}
	}
	t := mk(op, a, b)
	t.W = w
	t.Lo = bigZero
	t.Hi = new(big.Int).Sub(Pow2(w), bigOne)
	if op == OpBvAnd {
		t.Hi = minB(t.Hi, minB(a.Hi, b.Hi))
		if t.Hi == nil {
			t.Hi = new(big.Int).Sub(Pow2(w), bigOne)
		}
	}
	return t
}

// trailingZeros: a lower bound on the number of low zero bits of a non-negative term (structural).
func trailingZeros(t *Term) int {
	switch t.Op {
	case OpConst:
		if t.Val.Sign() == 0 {
			return 4096
		}
		if t.Val.Sign() < 0 {
			return 0
		}
		return int(t.Val.TrailingZeroBits())
	case OpMul:
		n := 0
		for _, a := range t.Args {
			if !a.nonNeg() {
				return 0
			}
			n += trailingZeros(a)
			if n > 4096 {
				n = 4096
			}
		}
		return n
	case OpAdd, OpIte:
		args := t.Args
		if t.Op == OpIte {
			args = t.Args[1:]
		}
		n := 4096
		for _, a := range args {
			if !a.nonNeg() {
				return 0
			}
			if k := trailingZeros(a); k < n {
				n = k
			}
		}
		return n
	case OpMod:
		if t.Args[1].Op == OpConst && t.Args[1].Val.Sign() > 0 && new(big.Int).And(t.Args[1].Val, new(big.Int).Sub(t.Args[1].Val, bigOne)).Sign() == 0 && t.Args[0].nonNeg() {
			k := trailingZeros(t.Args[0])
			if m := t.Args[1].Val.BitLen() - 1; k > m {
				k = m
			}
			return k
		}
	}
	return 0
}

// UF application (used only through Ackermann-free path; rarely)
func UFApp(name string, lo, hi *big.Int, args ...*Term) *Term {
	t := mk(OpUF, args...)
	t.Name = name
	t.Lo, t.Hi = lo, hi
	t.hasUF = true
	return t
}

// ---- evaluation under a model ----

type Model struct {
	Ints  map[string]*big.Int
	Bools map[string]bool
}

type evalErr struct{ msg string }

func (m *Model) EvalInt(t *Term) *big.Int {
	switch t.Op {
	case OpConst:
		return t.Val
	case OpVar:
		if v, ok := m.Ints[t.Name]; ok {
			return v
		}
		// unconstrained var: pick something in range
		if t.Lo != nil {
			return t.Lo
		}
		if t.Hi != nil {
			return t.Hi
		}
		return bigZero
	case OpAdd:
		return new(big.Int).Add(m.EvalInt(t.Args[0]), m.EvalInt(t.Args[1]))
	case OpSub:
		return new(big.Int).Sub(m.EvalInt(t.Args[0]), m.EvalInt(t.Args[1]))
	case OpMul:
		return new(big.Int).Mul(m.EvalInt(t.Args[0]), m.EvalInt(t.Args[1]))
	case OpDiv, OpMod:
		b := m.EvalInt(t.Args[1])
		if b.Sign() == 0 {
			panic(evalErr{"div by zero in model eval"})
		}
		q, r := euclidDivMod(m.EvalInt(t.Args[0]), b)
		if t.Op == OpDiv {
			return q
		}
		return r
	case OpIte:
		if m.EvalBool(t.Args[0]) {
			return m.EvalInt(t.Args[1])
		}
		return m.EvalInt(t.Args[2])
	case OpBvAnd, OpBvOr, OpBvXor:
		a, b := m.EvalInt(t.Args[0]), m.EvalInt(t.Args[1])
		r := new(big.Int)
		switch t.Op {
		case OpBvAnd:
			r.And(a, b)
		case OpBvOr:
			r.Or(a, b)
		case OpBvXor:
			r.Xor(a, b)
		}
		return r
	}
	panic(evalErr{fmt.Sprintf("cannot eval op %d", t.Op)})
}

func (m *Model) EvalBool(t *Term) bool {
	switch t.Op {
	case OpBConst:
		return t.B
	case OpBVar:
		return m.Bools[t.Name]
	case OpNot:
		return !m.EvalBool(t.Args[0])
	case OpAnd:
		return m.EvalBool(t.Args[0]) && m.EvalBool(t.Args[1])
	case OpOr:
		return m.EvalBool(t.Args[0]) || m.EvalBool(t.Args[1])
	case OpEq:
		return m.EvalInt(t.Args[0]).Cmp(m.EvalInt(t.Args[1])) == 0
	case OpBEq:
		return m.EvalBool(t.Args[0]) == m.EvalBool(t.Args[1])
	case OpLt:
		return m.EvalInt(t.Args[0]).Cmp(m.EvalInt(t.Args[1])) < 0
	case OpLe:
		return m.EvalInt(t.Args[0]).Cmp(m.EvalInt(t.Args[1])) <= 0
	case OpBIte:
		if m.EvalBool(t.Args[0]) {
			return m.EvalBool(t.Args[1])
		}
		return m.EvalBool(t.Args[2])
	}
	panic(evalErr{fmt.Sprintf("cannot eval bool op %d", t.Op)})
}

// TryEvalBool evaluates t under m; ok=false if not evaluable.
func (m *Model) TryEvalBool(t *Term) (res bool, ok bool) {
	if m == nil || t.hasUF {
		return false, false
	}
	defer func() {
		if r := recover(); r != nil {
			if _, is := r.(evalErr); is {
				ok = false
				return
			}
			panic(r)
		}
	}()
	return m.EvalBool(t), true
}

// ---- printing ----

func fmtInt(v *big.Int) string {
	if v.Sign() < 0 {
		return "(- " + new(big.Int).Neg(v).String() + ")"
	}
	return v.String()
}

// Printer emits terms with shared sub-DAGs bound via define-fun.
type Printer struct {
	names    map[*Term]string // already-defined shared nodes
	declared map[string]bool
	out      *strings.Builder
	n        int
}

func NewPrinter() *Printer {
	return &Printer{names: map[*Term]string{}, declared: map[string]bool{}, out: &strings.Builder{}}
}

func (p *Printer) countRefs(t *Term, refs map[*Term]int) {
	if _, ok := p.names[t]; ok {
		return
	}
	refs[t]++
	if refs[t] > 1 {
		return
	}
	for _, a := range t.Args {
		p.countRefs(a, refs)
	}
}

// Emit returns the SMT text for t, writing any needed declarations/definitions to p.out first.
func (p *Printer) Emit(t *Term) string {
	refs := map[*Term]int{}
	p.countRefs(t, refs)
	return p.emit(t, refs, true)
}

func (p *Printer) declVar(t *Term) {
	if p.declared[t.Name] {
		return
	}
	p.declared[t.Name] = true
	if t.Op == OpBVar {
		fmt.Fprintf(p.out, "(declare-const %s Bool)\n", t.Name)
		return
	}
	fmt.Fprintf(p.out, "(declare-const %s Int)\n", t.Name)
	if t.Lo != nil {
		fmt.Fprintf(p.out, "(assert (>= %s %s))\n", t.Name, fmtInt(t.Lo))
	}
	if t.Hi != nil {
		fmt.Fprintf(p.out, "(assert (<= %s %s))\n", t.Name, fmtInt(t.Hi))
	}
}

func (p *Printer) emit(t *Term, refs map[*Term]int, top bool) string {
	if n, ok := p.names[t]; ok {
		return n
	}
	var s string
	switch t.Op {
	case OpConst:
		return fmtInt(t.Val)
	case OpBConst:
		if t.B {
			return "true"
		}
		return "false"
	case OpVar, OpBVar:
		p.declVar(t)
		return t.Name
	}
	args := make([]string, len(t.Args))
	for i, a := range t.Args {
		args[i] = p.emit(a, refs, false)
	}
	bin := func(o string) string { return "(" + o + " " + strings.Join(args, " ") + ")" }
	switch t.Op {
	case OpAdd:
		s = bin("+")
	case OpSub:
		s = bin("-")
	case OpMul:
		s = bin("*")
	case OpDiv:
		s = bin("div")
	case OpMod:
		s = bin("mod")
	case OpIte, OpBIte:
		s = bin("ite")
	case OpNot:
		s = bin("not")
	case OpAnd:
		s = bin("and")
	case OpOr:
		s = bin("or")
	case OpEq, OpBEq:
		s = bin("=")
	case OpLt:
		s = bin("<")
	case OpLe:
		s = bin("<=")
	case OpBvAnd, OpBvOr, OpBvXor:
		o := map[Op]string{OpBvAnd: "bvand", OpBvOr: "bvor", OpBvXor: "bvxor"}[t.Op]
		s = fmt.Sprintf("(bv2nat (%s ((_ int2bv %d) %s) ((_ int2bv %d) %s)))", o, t.W, args[0], t.W, args[1])
	case OpUF:
		key := fmt.Sprintf("%s/%d", t.Name, len(args))
		if !p.declared[key] {
			p.declared[key] = true
			fmt.Fprintf(p.out, "(declare-fun %s (%s) Int)\n", t.Name, strings.TrimSpace(strings.Repeat("Int ", len(args))))
		}
		s = "(" + t.Name + " " + strings.Join(args, " ") + ")"
	default:
		panic(fmt.Sprintf("emit: op %d", t.Op))
	}
	if refs[t] > 1 && !top {
		p.n++
		name := fmt.Sprintf("|t!%d|", p.n)
		srt := "Int"
		if t.IsBool() {
			srt = "Bool"
		}
		fmt.Fprintf(p.out, "(define-fun %s () %s %s)\n", name, srt, s)
		p.names[t] = name
		return name
	}
	return s
}

// Vars collects variable terms reachable from t.
func CollectVars(t *Term, seen map[*Term]bool, out map[string]*Term) {
	if seen[t] {
		return
	}
	seen[t] = true
	if t.Op == OpVar || t.Op == OpBVar {
		out[t.Name] = t
	}
	for _, a := range t.Args {
		CollectVars(a, seen, out)
	}
}

func sortedKeys[V any](m map[string]V) []string {
	ks := make([]string, 0, len(m))
	for k := range m {
		ks = append(ks, k)
	}
	sort.Strings(ks)
	return ks
}

// String for debugging (tree form, may be large).
func (t *Term) String() string {
	p := NewPrinter()
	s := p.Emit(t)
	if p.out.Len() > 0 {
		return s
	}
	return s
}

// ExtractByte returns byte k (k=0 least significant) of the non-negative integer x.
func ExtractByte(x *Term, k int) *Term {
	t := Mod(Div(x, CInt(Pow2(8*k))), CI(256))
	if t.Op != OpConst && t != x && t.ExtOf == nil {
		t.ExtOf, t.ExtK = x, k
	}
	return t
}

// Recombine builds the integer whose big-endian bytes are ms (most significant first). When the
// bytes are exactly the bytes of one integer x (as produced by ExtractByte), x itself is returned.
func Recombine(ms []*Term) *Term {
	n := len(ms)
	i := 0
	for i < n && ms[i].Op == OpConst && ms[i].Val.Sign() == 0 {
		i++
	}
	rest := ms[i:]
	m := len(rest)
	if m == 0 {
		return CI(0)
	}
	if m == 1 {
		return rest[0]
	}
	if x := rest[m-1].ExtOf; x != nil && rest[m-1].ExtK == 0 && x.nonNeg() && x.Hi != nil && x.Hi.Cmp(Pow2(8*m)) < 0 {
		ok := true
		for j := 0; j < m; j++ {
			b := rest[m-1-j]
			if b.ExtOf != x || b.ExtK != j {
				ok = false
				break
			}
		}
		if ok {
			return x
		}
	}
	var r *Term = CI(0)
	for j := 0; j < m; j++ {
		r = Add(r, Mul(rest[j], CInt(Pow2(8*(m-1-j)))))
	}
	return r
}

// Refine returns a term equal to x that carries the tighter interval [lo,hi]; the caller guarantees
// that the path condition implies lo <= x <= hi (terms are per-path, so this is sound).
func Refine(x *Term, lo, hi *big.Int) *Term {
	if x.Op == OpConst {
		return x
	}
	nlo, nhi := x.Lo, x.Hi
	if lo != nil && (nlo == nil || lo.Cmp(nlo) > 0) {
		nlo = lo
	}
	if hi != nil && (nhi == nil || hi.Cmp(nhi) < 0) {
		nhi = hi
	}
	if nlo == x.Lo && nhi == x.Hi {
		return x
	}
	t := mk(OpAdd, x, CI(0))
	t.Lo, t.Hi = nlo, nhi
	return t
}

// Collapse reports whether the big-endian byte terms ms are exactly the bytes of a single integer
// (a constant, or the ExtractByte pattern of one term) and returns that integer.
func Collapse(ms []*Term) (*Term, bool) {
	if len(ms) == 0 {
		return nil, false
	}
	allConst := true
	for _, b := range ms {
		if b.Op != OpConst {
			allConst = false
			break
		}
	}
	r := Recombine(ms)
	if allConst {
		return r, true
	}
	if r.Op == OpAdd || r.Op == OpMul {
		// fallback sum (or a Refine alias, which is fine)
		if !(r.Op == OpAdd && len(r.Args) == 2 && r.Args[1].Op == OpConst && r.Args[1].Val.Sign() == 0) {
			return nil, false
		}
	}
	// single symbolic byte with only leading zeros also collapses (Recombine returned that byte)
	return r, true
}
