package main

// Intrinsic models of math/big.Int (exact: SMT Int) and holiman/uint256.Int (Int in [0,2^256)).

import (
	"fmt"
	"go/token"
	"math/big"

	"modernc.org/mathutil"

	"golang.org/x/tools/go/ssa"
)

func (c *Ctx) bigOf(v value, pos token.Pos) *Term {
	p, ok := v.(*value)
	if !ok {
		panic(fmt.Sprintf("bigOf: %T", v))
	}
	if p == nil {
		panic(tpanic("nil pointer dereference (*big.Int) at " + c.posStr(pos)))
	}
	switch b := (*p).(type) {
	case bigVal:
		return b.t
	case poison:
		c.unsupported("poison big.Int")
	}
	panic(fmt.Sprintf("bigOf: pointee %T", *p))
}

func (c *Ctx) setBig(z value, t *Term, pos token.Pos) value {
	p := z.(*value)
	if p == nil {
		panic(tpanic("nil pointer dereference (*big.Int receiver) at " + c.posStr(pos)))
	}
	if len(c.frozen) > 0 && c.frozen[p] {
		c.unsupported("write through a merged (frozen) *big.Int obtained from a symbolic map lookup at %s", c.posStr(pos))
	}
	*p = bigVal{t}
	return p
}

func newBigPtr(t *Term) *value {
	var box value = bigVal{t}
	return &box
}

func absT(x *Term) *Term {
	if x.nonNeg() {
		return x
	}
	return Ite(Ge(x, CI(0)), x, Neg(x))
}

func signT(x *Term) *Term {
	return Ite(Lt(x, CI(0)), CI(-1), Ite(Eq(x, CI(0)), CI(0), CI(1)))
}

func cmpT(x, y *Term) *Term {
	return Ite(Lt(x, y), CI(-1), Ite(Eq(x, y), CI(0), CI(1)))
}

// byteLenSplit case-splits the minimal big-endian byte length of |x| (0..max).
func (c *Ctx) byteLenSplit(x *Term, max int, pos token.Pos) int {
	if x.Op == OpConst {
		return (new(big.Int).Abs(x.Val).BitLen() + 7) / 8
	}
	a := absT(x)
	conds := make([]*Term, 0, max+2)
	for n := 0; n <= max; n++ {
		var cd *Term
		if n == 0 {
			cd = Eq(a, CI(0))
		} else {
			cd = And(Ge(a, CInt(Pow2(8*(n-1)))), Lt(a, CInt(Pow2(8*n))))
		}
		conds = append(conds, cd)
	}
	conds = append(conds, Ge(a, CInt(Pow2(8*max))))
	k := c.decide(conds, pos)
	if k > max {
		c.unsupported("big.Int byte length exceeds bound %d at %s", max, c.posStr(pos))
	}
	return k
}

func beBytes(x *Term, n int) []value {
	r := make([]value, n)
	for i := 0; i < n; i++ {
		r[i] = ExtractByte(x, n-1-i)
	}
	return r
}

func fromBE(b []value) *Term {
	ms := make([]*Term, len(b))
	for i := range b {
		ms[i] = asTerm(b[i])
	}
	return Recombine(ms)
}

// pow2Sym returns 2^n for a symbolic n with a small known range (ite chain), or nil.
func pow2Sym(n *Term) *Term {
	if n.Op == OpConst {
		if n.Val.IsInt64() && n.Val.Int64() >= 0 && n.Val.Int64() <= 4096 {
			return CInt(Pow2(int(n.Val.Int64())))
		}
		return nil
	}
	if n.Lo == nil || n.Hi == nil || n.Lo.Sign() < 0 || !n.Hi.IsInt64() || n.Hi.Int64() > 1024 {
		return nil
	}
	hi := n.Hi.Int64()
	var r *Term = CInt(Pow2(int(hi)))
	for k := hi - 1; k >= n.Lo.Int64(); k-- {
		r = Ite(Eq(n, CI(k)), CInt(Pow2(int(k))), r)
	}
	return r
}

func init() {
	type I = intrinsic
	bin := func(f func(c *Ctx, x, y *Term, pos token.Pos) *Term) I {
		return func(c *Ctx, fr *frame, fn *ssa.Function, a []value, pos token.Pos) value {
			return c.setBig(a[0], f(c, c.bigOf(a[1], pos), c.bigOf(a[2], pos), pos), pos)
		}
	}
	B := "(*math/big.Int)."
	intrinsics["math/big.NewInt"] = func(c *Ctx, fr *frame, fn *ssa.Function, a []value, pos token.Pos) value {
		return newBigPtr(asTerm(a[0]))
	}
	intrinsics[B+"Add"] = bin(func(c *Ctx, x, y *Term, pos token.Pos) *Term { return Add(x, y) })
	intrinsics[B+"Sub"] = bin(func(c *Ctx, x, y *Term, pos token.Pos) *Term { return Sub(x, y) })
	intrinsics[B+"Mul"] = bin(func(c *Ctx, x, y *Term, pos token.Pos) *Term { return Mul(x, y) })
	divz := func(c *Ctx, y *Term, pos token.Pos) {
		if !c.decideBool(Not(Eq(y, CI(0))), pos) {
			panic(tpanic("division by zero (big.Int) at " + c.posStr(pos)))
		}
	}
	intrinsics[B+"Div"] = bin(func(c *Ctx, x, y *Term, pos token.Pos) *Term { divz(c, y, pos); return Div(x, y) })
	intrinsics[B+"Mod"] = bin(func(c *Ctx, x, y *Term, pos token.Pos) *Term { divz(c, y, pos); return Mod(x, y) })
	intrinsics[B+"Quo"] = bin(func(c *Ctx, x, y *Term, pos token.Pos) *Term { divz(c, y, pos); return c.truncDiv(x, y) })
	intrinsics[B+"Rem"] = bin(func(c *Ctx, x, y *Term, pos token.Pos) *Term {
		divz(c, y, pos)
		return Sub(x, Mul(y, c.truncDiv(x, y)))
	})
	intrinsics[B+"DivMod"] = func(c *Ctx, fr *frame, fn *ssa.Function, a []value, pos token.Pos) value {
		x, y := c.bigOf(a[1], pos), c.bigOf(a[2], pos)
		divz(c, y, pos)
		c.setBig(a[0], Div(x, y), pos)
		c.setBig(a[3], Mod(x, y), pos)
		return tuple{a[0], a[3]}
	}
	intrinsics[B+"QuoRem"] = func(c *Ctx, fr *frame, fn *ssa.Function, a []value, pos token.Pos) value {
		x, y := c.bigOf(a[1], pos), c.bigOf(a[2], pos)
		divz(c, y, pos)
		q := c.truncDiv(x, y)
		c.setBig(a[0], q, pos)
		c.setBig(a[3], Sub(x, Mul(y, q)), pos)
		return tuple{a[0], a[3]}
	}
	un := func(f func(x *Term) *Term) I {
		return func(c *Ctx, fr *frame, fn *ssa.Function, a []value, pos token.Pos) value {
			return c.setBig(a[0], f(c.bigOf(a[1], pos)), pos)
		}
	}
	intrinsics[B+"Set"] = un(func(x *Term) *Term { return x })
	intrinsics[B+"Neg"] = un(Neg)
	intrinsics[B+"Abs"] = un(absT)
	intrinsics[B+"SetInt64"] = func(c *Ctx, fr *frame, fn *ssa.Function, a []value, pos token.Pos) value {
		return c.setBig(a[0], asTerm(a[1]), pos)
	}
	intrinsics[B+"SetUint64"] = intrinsics[B+"SetInt64"]
	intrinsics[B+"Cmp"] = func(c *Ctx, fr *frame, fn *ssa.Function, a []value, pos token.Pos) value {
		return cmpT(c.bigOf(a[0], pos), c.bigOf(a[1], pos))
	}
	intrinsics[B+"CmpAbs"] = func(c *Ctx, fr *frame, fn *ssa.Function, a []value, pos token.Pos) value {
		return cmpT(absT(c.bigOf(a[0], pos)), absT(c.bigOf(a[1], pos)))
	}
	intrinsics[B+"Sign"] = func(c *Ctx, fr *frame, fn *ssa.Function, a []value, pos token.Pos) value {
		return signT(c.bigOf(a[0], pos))
	}
	intrinsics[B+"IsUint64"] = func(c *Ctx, fr *frame, fn *ssa.Function, a []value, pos token.Pos) value {
		x := c.bigOf(a[0], pos)
		return And(Ge(x, CI(0)), Lt(x, CInt(Pow2(64))))
	}
	intrinsics[B+"IsInt64"] = func(c *Ctx, fr *frame, fn *ssa.Function, a []value, pos token.Pos) value {
		x := c.bigOf(a[0], pos)
		return And(Ge(x, CInt(new(big.Int).Neg(Pow2(63)))), Lt(x, CInt(Pow2(63))))
	}
	intrinsics[B+"Uint64"] = func(c *Ctx, fr *frame, fn *ssa.Function, a []value, pos token.Pos) value {
		return Mod(absT(c.bigOf(a[0], pos)), CInt(Pow2(64)))
	}
	intrinsics[B+"Int64"] = func(c *Ctx, fr *frame, fn *ssa.Function, a []value, pos token.Pos) value {
		x := c.bigOf(a[0], pos)
		lo := Mod(absT(x), CInt(Pow2(64)))
		v := wrap(lo, intKind{64, true})
		return Ite(Lt(x, CI(0)), wrap(Neg(v), intKind{64, true}), v)
	}
	intrinsics[B+"BitLen"] = func(c *Ctx, fr *frame, fn *ssa.Function, a []value, pos token.Pos) value {
		return bitLenTerm(absT(c.bigOf(a[0], pos)), c.h.maxBigBits)
	}
	intrinsics[B+"Bytes"] = func(c *Ctx, fr *frame, fn *ssa.Function, a []value, pos token.Pos) value {
		x := c.bigOf(a[0], pos)
		n := c.byteLenSplit(x, c.h.maxBigBits/8, pos)
		ax := absT(x)
		if n > 0 {
			ax = Refine(ax, Pow2(8*(n-1)), new(big.Int).Sub(Pow2(8*n), bigOne))
		}
		return beBytes(ax, n)
	}
	intrinsics[B+"FillBytes"] = func(c *Ctx, fr *frame, fn *ssa.Function, a []value, pos token.Pos) value {
		x := absT(c.bigOf(a[0], pos))
		buf := a[1].([]value)
		if !c.decideBool(Lt(x, CInt(Pow2(8*len(buf)))), pos) {
			panic(tpanic("math/big: buffer too small to fit value at " + c.posStr(pos)))
		}
		bs := beBytes(x, len(buf))
		for i := range buf {
			buf[i] = bs[i]
		}
		return buf
	}
	intrinsics[B+"SetBytes"] = func(c *Ctx, fr *frame, fn *ssa.Function, a []value, pos token.Pos) value {
		return c.setBig(a[0], fromBE(a[1].([]value)), pos)
	}
	intrinsics[B+"Lsh"] = func(c *Ctx, fr *frame, fn *ssa.Function, a []value, pos token.Pos) value {
		p := pow2Sym(asTerm(a[2]))
		if p == nil {
			c.unsupported("big.Int.Lsh by unbounded symbolic amount")
		}
		return c.setBig(a[0], Mul(c.bigOf(a[1], pos), p), pos)
	}
	intrinsics[B+"Rsh"] = func(c *Ctx, fr *frame, fn *ssa.Function, a []value, pos token.Pos) value {
		p := pow2Sym(asTerm(a[2]))
		if p == nil {
			c.unsupported("big.Int.Rsh by unbounded symbolic amount")
		}
		return c.setBig(a[0], Div(c.bigOf(a[1], pos), p), pos)
	}
	intrinsics[B+"Exp"] = func(c *Ctx, fr *frame, fn *ssa.Function, a []value, pos token.Pos) value {
		x, y := c.bigOf(a[1], pos), c.bigOf(a[2], pos)
		var m *Term
		if mp := a[3].(*value); mp != nil {
			m = c.bigOf(a[3], pos)
			if m.Op == OpConst && m.Val.Sign() == 0 {
				m = nil
			}
		}
		if y.Op != OpConst && x.Op == OpConst && y.Lo != nil && y.Hi != nil && y.Lo.Sign() >= 0 && y.Hi.IsInt64() && y.Hi.Int64() <= 1024 && m == nil {
			// constant base, small symbolic exponent: ite chain
			hi := y.Hi.Int64()
			var r *Term = CInt(new(big.Int).Exp(x.Val, y.Hi, nil))
			for k := hi - 1; k >= y.Lo.Int64(); k-- {
				r = Ite(Eq(y, CI(k)), CInt(new(big.Int).Exp(x.Val, big.NewInt(k), nil)), r)
			}
			return c.setBig(a[0], r, pos)
		}
		if y.Op != OpConst || !y.Val.IsInt64() || y.Val.Int64() > 4096 {
			c.unsupported("big.Int.Exp with symbolic or huge exponent at %s", c.posStr(pos))
		}
		e := y.Val.Int64()
		var r *Term = CI(1)
		if e > 0 {
			if x.Op == OpConst {
				r = CInt(new(big.Int).Exp(x.Val, y.Val, nil))
			} else {
				if e > 8 {
					c.unsupported("big.Int.Exp symbolic base with exponent %d", e)
				}
				for i := int64(0); i < e; i++ {
					r = Mul(r, x)
				}
			}
		}
		if m != nil {
			if !c.decideBool(Not(Eq(m, CI(0))), pos) {
				// m == 0 means no modulus
			} else {
				r = Mod(r, absT(m))
			}
		}
		return c.setBig(a[0], r, pos)
	}
	intrinsics[B+"String"] = func(c *Ctx, fr *frame, fn *ssa.Function, a []value, pos token.Pos) value {
		p := a[0].(*value)
		if p == nil {
			return "<nil>"
		}
		x := c.bigOf(a[0], pos)
		if x.Op == OpConst {
			return x.Val.String()
		}
		return "<symbig>"
	}
	intrinsics[B+"Text"] = func(c *Ctx, fr *frame, fn *ssa.Function, a []value, pos token.Pos) value {
		x := c.bigOf(a[0], pos)
		b, ok := concreteInt(a[1])
		if x.Op == OpConst && ok {
			return x.Val.Text(int(b))
		}
		return "<symbig>"
	}
	intrinsics[B+"SetString"] = func(c *Ctx, fr *frame, fn *ssa.Function, a []value, pos token.Pos) value {
		s, ok := a[1].(string)
		b, ok2 := concreteInt(a[2])
		if !ok || !ok2 {
			c.unsupported("big.Int.SetString on symbolic string")
		}
		v, good := new(big.Int).SetString(s, int(b))
		if !good {
			return tuple{(*value)(nil), TFalse}
		}
		return tuple{c.setBig(a[0], CInt(v), pos), TTrue}
	}
	intrinsics[B+"Bit"] = func(c *Ctx, fr *frame, fn *ssa.Function, a []value, pos token.Pos) value {
		i, ok := concreteInt(a[1])
		if !ok {
			c.unsupported("big.Int.Bit symbolic index")
		}
		return Mod(Div(absT(c.bigOf(a[0], pos)), CInt(Pow2(int(i)))), CI(2))
	}
	bw := func(op Op) I {
		return func(c *Ctx, fr *frame, fn *ssa.Function, a []value, pos token.Pos) value {
			x, y := c.bigOf(a[1], pos), c.bigOf(a[2], pos)
			if !(x.nonNeg() && y.nonNeg()) {
				if !c.decideBool(And(Ge(x, CI(0)), Ge(y, CI(0))), pos) {
					c.unsupported("bitwise big.Int op on negative operands")
				}
			}
			return c.setBig(a[0], bvop(op, c.h.maxBigBits, x, y), pos)
		}
	}
	intrinsics[B+"And"] = bw(OpBvAnd)
	intrinsics[B+"Or"] = bw(OpBvOr)
	intrinsics[B+"Xor"] = bw(OpBvXor)

	// modernc.org/mathutil.BinaryLog(n, mantissaBits): characteristic = floor(log2 n) exactly
	// (ite chain over the bit length); the mantissa is the real value for a concrete n and an
	// uninterpreted function of n in [0, 2^mantissaBits) otherwise (DESIGN App. C).
	intrinsics["modernc.org/mathutil.BinaryLog"] = func(c *Ctx, fr *frame, fn *ssa.Function, a []value, pos token.Pos) value {
		n := c.bigOf(a[0], pos)
		bits, ok := concreteInt(a[1])
		if !ok || bits < 0 || bits > 256 {
			c.unsupported("BinaryLog with symbolic precision")
		}
		if !c.decideBool(Gt(n, CI(0)), pos) {
			panic(tpanic("invalid argument of BinaryLog at " + c.posStr(pos)))
		}
		// the real function works in place on its argument (it is the mantissa computation's
		// scratch register): after the call the caller's big.Int holds that scratch value
		if n.Op == OpConst {
			scratch := new(big.Int).Set(n.Val)
			ch, m := mathutil.BinaryLog(scratch, int(bits))
			c.setBig(a[0], CInt(scratch), pos)
			return tuple{CI(int64(ch)), newBigPtr(CInt(m))}
		}
		ch := Sub(bitLenTerm(n, c.h.maxBigBits), CI(1))
		m := c.applyUFRange("binlog_mantissa", []*Term{n, CI(bits)}, bigZero, new(big.Int).Sub(Pow2(int(bits)), bigOne))
		// true facts about the real function that keep models realistic: the mantissa of a power
		// of two (stated for n <= 2^32) is zero; for n < 2^32 that is not a power of two the fractional part of log2 n is
		// at least log2(1+2^-32) > 2^-33
		isPow := TFalse
		for k := 0; k <= 32; k++ {
			isPow = Or(isPow, Eq(n, CInt(Pow2(k))))
		}
		c.addPC(Or(Not(isPow), Eq(m, CI(0))))
		if bits >= 34 {
			c.addPC(Or(Or(isPow, Not(Lt(n, CInt(Pow2(32))))), Ge(m, CInt(Pow2(int(bits)-33)))))
		}
		if bits > 0 {
			c.setBig(a[0], c.newIntVar("binlog_clobbered_argument", bigZero, nil), pos)
		}
		return tuple{ch, newBigPtr(m)}
	}

	// ---- uint256 ----
	U := "(*github.com/holiman/uint256.Int)."
	m256 := CInt(Pow2(256))
	uOf := func(c *Ctx, v value, pos token.Pos) *Term {
		p := v.(*value)
		if p == nil {
			panic(tpanic("nil pointer dereference (*uint256.Int) at " + c.posStr(pos)))
		}
		switch u := (*p).(type) {
		case u256Val:
			return u.t
		case array:
			// raw [4]uint64 produced by composite literal
			var r *Term = CI(0)
			for i := 0; i < 4; i++ {
				r = Add(r, Mul(asTerm(u[i]), CInt(Pow2(64*i))))
			}
			return r
		}
		panic(fmt.Sprintf("uOf: %T", *p))
	}
	uSet := func(c *Ctx, z value, t *Term, pos token.Pos) value {
		p := z.(*value)
		if p == nil {
			panic(tpanic("nil pointer dereference (*uint256.Int receiver) at " + c.posStr(pos)))
		}
		*p = u256Val{t}
		return p
	}
	newU := func(t *Term) *value {
		var box value = u256Val{t}
		return &box
	}
	ubin := func(f func(c *Ctx, x, y *Term, pos token.Pos) *Term) I {
		return func(c *Ctx, fr *frame, fn *ssa.Function, a []value, pos token.Pos) value {
			return uSet(c, a[0], f(c, uOf(c, a[1], pos), uOf(c, a[2], pos), pos), pos)
		}
	}
	intrinsics["github.com/holiman/uint256.NewInt"] = func(c *Ctx, fr *frame, fn *ssa.Function, a []value, pos token.Pos) value {
		return newU(asTerm(a[0]))
	}
	intrinsics["github.com/holiman/uint256.FromBig"] = func(c *Ctx, fr *frame, fn *ssa.Function, a []value, pos token.Pos) value {
		x := c.bigOf(a[0], pos)
		// overflow = |x| needs more than 256 bits; value = two's complement low 256 bits
		ov := Ge(absT(x), m256)
		return tuple{newU(Mod(x, m256)), ov}
	}
	intrinsics["github.com/holiman/uint256.MustFromBig"] = func(c *Ctx, fr *frame, fn *ssa.Function, a []value, pos token.Pos) value {
		x := c.bigOf(a[0], pos)
		if !c.decideBool(Lt(absT(x), m256), pos) {
			panic(tpanic("uint256.MustFromBig overflow at " + c.posStr(pos)))
		}
		return newU(Mod(x, m256))
	}
	intrinsics[U+"SetFromBig"] = func(c *Ctx, fr *frame, fn *ssa.Function, a []value, pos token.Pos) value {
		x := c.bigOf(a[1], pos)
		uSet(c, a[0], Mod(x, m256), pos)
		return Ge(absT(x), m256)
	}
	intrinsics[U+"Add"] = ubin(func(c *Ctx, x, y *Term, pos token.Pos) *Term { return Mod(Add(x, y), m256) })
	intrinsics[U+"Sub"] = ubin(func(c *Ctx, x, y *Term, pos token.Pos) *Term { return Mod(Sub(x, y), m256) })
	intrinsics[U+"Mul"] = ubin(func(c *Ctx, x, y *Term, pos token.Pos) *Term { return Mod(Mul(x, y), m256) })
	intrinsics[U+"Div"] = ubin(func(c *Ctx, x, y *Term, pos token.Pos) *Term {
		return Ite(Eq(y, CI(0)), CI(0), Div(x, Ite(Eq(y, CI(0)), CI(1), y)))
	})
	intrinsics[U+"Mod"] = ubin(func(c *Ctx, x, y *Term, pos token.Pos) *Term {
		return Ite(Eq(y, CI(0)), CI(0), Mod(x, Ite(Eq(y, CI(0)), CI(1), y)))
	})
	ov := func(f func(x, y *Term) *Term) I {
		return func(c *Ctx, fr *frame, fn *ssa.Function, a []value, pos token.Pos) value {
			full := f(uOf(c, a[1], pos), uOf(c, a[2], pos))
			ovf := Or(Ge(full, m256), Lt(full, CI(0)))
			// ite form: under "no overflow" the result is literally the unwrapped term
			z := uSet(c, a[0], Ite(ovf, Mod(full, m256), full), pos)
			return tuple{z, ovf}
		}
	}
	intrinsics[U+"AddOverflow"] = ov(Add)
	intrinsics[U+"SubOverflow"] = ov(Sub)
	intrinsics[U+"MulOverflow"] = ov(Mul)
	ucmp := func(f func(x, y *Term) *Term) I {
		return func(c *Ctx, fr *frame, fn *ssa.Function, a []value, pos token.Pos) value {
			return f(uOf(c, a[0], pos), uOf(c, a[1], pos))
		}
	}
	intrinsics[U+"Lt"] = ucmp(Lt)
	intrinsics[U+"Gt"] = ucmp(Gt)
	intrinsics[U+"Eq"] = ucmp(Eq)
	intrinsics[U+"Cmp"] = ucmp(cmpT)
	intrinsics[U+"CmpUint64"] = func(c *Ctx, fr *frame, fn *ssa.Function, a []value, pos token.Pos) value {
		return cmpT(uOf(c, a[0], pos), asTerm(a[1]))
	}
	intrinsics[U+"LtUint64"] = func(c *Ctx, fr *frame, fn *ssa.Function, a []value, pos token.Pos) value {
		return Lt(uOf(c, a[0], pos), asTerm(a[1]))
	}
	intrinsics[U+"GtUint64"] = func(c *Ctx, fr *frame, fn *ssa.Function, a []value, pos token.Pos) value {
		return Gt(uOf(c, a[0], pos), asTerm(a[1]))
	}
	intrinsics[U+"IsZero"] = func(c *Ctx, fr *frame, fn *ssa.Function, a []value, pos token.Pos) value {
		return Eq(uOf(c, a[0], pos), CI(0))
	}
	intrinsics[U+"Sign"] = func(c *Ctx, fr *frame, fn *ssa.Function, a []value, pos token.Pos) value {
		x := uOf(c, a[0], pos)
		return Ite(Eq(x, CI(0)), CI(0), Ite(Lt(x, CInt(Pow2(255))), CI(1), CI(-1)))
	}
	intrinsics[U+"IsUint64"] = func(c *Ctx, fr *frame, fn *ssa.Function, a []value, pos token.Pos) value {
		return Lt(uOf(c, a[0], pos), CInt(Pow2(64)))
	}
	intrinsics[U+"Uint64"] = func(c *Ctx, fr *frame, fn *ssa.Function, a []value, pos token.Pos) value {
		return Mod(uOf(c, a[0], pos), CInt(Pow2(64)))
	}
	intrinsics[U+"Uint64WithOverflow"] = func(c *Ctx, fr *frame, fn *ssa.Function, a []value, pos token.Pos) value {
		x := uOf(c, a[0], pos)
		return tuple{Mod(x, CInt(Pow2(64))), Ge(x, CInt(Pow2(64)))}
	}
	intrinsics[U+"SetUint64"] = func(c *Ctx, fr *frame, fn *ssa.Function, a []value, pos token.Pos) value {
		return uSet(c, a[0], asTerm(a[1]), pos)
	}
	intrinsics[U+"Set"] = func(c *Ctx, fr *frame, fn *ssa.Function, a []value, pos token.Pos) value {
		return uSet(c, a[0], uOf(c, a[1], pos), pos)
	}
	intrinsics[U+"Clone"] = func(c *Ctx, fr *frame, fn *ssa.Function, a []value, pos token.Pos) value {
		return newU(uOf(c, a[0], pos))
	}
	intrinsics[U+"Clear"] = func(c *Ctx, fr *frame, fn *ssa.Function, a []value, pos token.Pos) value {
		return uSet(c, a[0], CI(0), pos)
	}
	intrinsics[U+"SetOne"] = func(c *Ctx, fr *frame, fn *ssa.Function, a []value, pos token.Pos) value {
		return uSet(c, a[0], CI(1), pos)
	}
	intrinsics[U+"SetAllOne"] = func(c *Ctx, fr *frame, fn *ssa.Function, a []value, pos token.Pos) value {
		return uSet(c, a[0], CInt(u256Max), pos)
	}
	intrinsics[U+"ToBig"] = func(c *Ctx, fr *frame, fn *ssa.Function, a []value, pos token.Pos) value {
		p := a[0].(*value)
		if p == nil {
			return (*value)(nil)
		}
		return newBigPtr(uOf(c, a[0], pos))
	}
	intrinsics[U+"SetBytes"] = func(c *Ctx, fr *frame, fn *ssa.Function, a []value, pos token.Pos) value {
		b := a[1].([]value)
		if len(b) > 32 {
			b = b[len(b)-32:]
		}
		return uSet(c, a[0], fromBE(b), pos)
	}
	intrinsics[U+"SetBytes32"] = intrinsics[U+"SetBytes"]
	intrinsics[U+"SetBytes20"] = intrinsics[U+"SetBytes"]
	intrinsics[U+"Bytes32"] = func(c *Ctx, fr *frame, fn *ssa.Function, a []value, pos token.Pos) value {
		return array(beBytes(uOf(c, a[0], pos), 32))
	}
	intrinsics[U+"WriteToSlice"] = func(c *Ctx, fr *frame, fn *ssa.Function, a []value, pos token.Pos) value {
		// fills dest with the big-endian bytes of z: the low-order len(dest) bytes when dest is
		// shorter than 32, the first 32 bytes of dest otherwise
		dest := a[1].([]value)
		be := beBytes(uOf(c, a[0], pos), 32)
		n := len(dest)
		if n > 32 {
			n = 32
		}
		for i := 0; i < n; i++ {
			dest[i] = be[32-n+i]
		}
		return nil
	}
	intrinsics[U+"WriteToArray32"] = func(c *Ctx, fr *frame, fn *ssa.Function, a []value, pos token.Pos) value {
		p := a[1].(*value)
		be := beBytes(uOf(c, a[0], pos), 32)
		arr := make(array, 32)
		for i := range arr {
			arr[i] = be[i]
		}
		store(p, arr)
		return nil
	}
	intrinsics[U+"Bytes20"] = func(c *Ctx, fr *frame, fn *ssa.Function, a []value, pos token.Pos) value {
		return array(beBytes(Mod(uOf(c, a[0], pos), CInt(Pow2(160))), 20))
	}
	intrinsics[U+"Bytes"] = func(c *Ctx, fr *frame, fn *ssa.Function, a []value, pos token.Pos) value {
		x := uOf(c, a[0], pos)
		n := c.byteLenSplit(x, 32, pos)
		if n > 0 {
			x = Refine(x, Pow2(8*(n-1)), new(big.Int).Sub(Pow2(8*n), bigOne))
		}
		return beBytes(x, n)
	}
	intrinsics[U+"BitLen"] = func(c *Ctx, fr *frame, fn *ssa.Function, a []value, pos token.Pos) value {
		return bitLenTerm(uOf(c, a[0], pos), 256)
	}
	intrinsics[U+"ByteLen"] = func(c *Ctx, fr *frame, fn *ssa.Function, a []value, pos token.Pos) value {
		return Div(Add(bitLenTerm(uOf(c, a[0], pos), 256), CI(7)), CI(8))
	}
	ubw := func(op Op) I {
		return func(c *Ctx, fr *frame, fn *ssa.Function, a []value, pos token.Pos) value {
			return uSet(c, a[0], bvop(op, 256, uOf(c, a[1], pos), uOf(c, a[2], pos)), pos)
		}
	}
	intrinsics[U+"And"] = ubw(OpBvAnd)
	intrinsics[U+"Or"] = ubw(OpBvOr)
	intrinsics[U+"Xor"] = ubw(OpBvXor)
	intrinsics[U+"Not"] = func(c *Ctx, fr *frame, fn *ssa.Function, a []value, pos token.Pos) value {
		return uSet(c, a[0], Sub(CInt(u256Max), uOf(c, a[1], pos)), pos)
	}
	intrinsics[U+"Lsh"] = func(c *Ctx, fr *frame, fn *ssa.Function, a []value, pos token.Pos) value {
		n, ok := concreteInt(a[2])
		if !ok {
			c.unsupported("uint256.Lsh symbolic amount")
		}
		if n >= 256 {
			return uSet(c, a[0], CI(0), pos)
		}
		return uSet(c, a[0], Mod(Mul(uOf(c, a[1], pos), CInt(Pow2(int(n)))), m256), pos)
	}
	intrinsics[U+"Rsh"] = func(c *Ctx, fr *frame, fn *ssa.Function, a []value, pos token.Pos) value {
		n, ok := concreteInt(a[2])
		if !ok {
			c.unsupported("uint256.Rsh symbolic amount")
		}
		if n >= 256 {
			return uSet(c, a[0], CI(0), pos)
		}
		return uSet(c, a[0], Div(uOf(c, a[1], pos), CInt(Pow2(int(n)))), pos)
	}
	intrinsics[U+"Hex"] = func(c *Ctx, fr *frame, fn *ssa.Function, a []value, pos token.Pos) value { return "<u256>" }
	intrinsics[U+"String"] = intrinsics[U+"Hex"]
	intrinsics[U+"Dec"] = intrinsics[U+"Hex"]
}
