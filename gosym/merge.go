package main

// If-conversion of side-effect-free regions (DESIGN 8, "ite merging of side-effect-free diamonds").
//
// At a branch on a symbolic condition the interpreter first tries to execute every path of the
// region between the branch and the first merge block speculatively. The attempt succeeds only if
// every path (a) executes nothing but pure instructions (no stores other than to locals of frames
// created during the speculation, no map updates, no defers, no panics), (b) needs no solver
// decision, and (c) ends at the same join block with mergeable phi values. On success the join's
// phis become ite terms and execution continues once, without forking. On any failure the
// speculation is discarded (it had no side effects) and the branch forks as usual.

import (
	"go/token"

	"golang.org/x/tools/go/ssa"
)

type specAbort struct{ why string }

const (
	maxSpecBlocks = 24
	maxSpecPaths  = 16
)

type specPath struct {
	cond *Term
	pred *ssa.BasicBlock // predecessor edge into the join
	vals []value         // value of each join phi along this path
}

// pureCallees: library methods with no side effects that may be called inside a speculated region.
var pureIntrinsic = map[string]bool{}

func init() {
	for _, n := range []string{
		"(*math/big.Int).Sign", "(*math/big.Int).Cmp", "(*math/big.Int).CmpAbs", "(*math/big.Int).IsUint64",
		"(*math/big.Int).IsInt64", "(*math/big.Int).Uint64", "(*math/big.Int).Int64", "(*math/big.Int).BitLen",
		"bytes.Equal", "bytes.Compare", "bytes.HasPrefix", "strings.HasPrefix",
		"(*github.com/holiman/uint256.Int).IsZero", "(*github.com/holiman/uint256.Int).Lt", "(*github.com/holiman/uint256.Int).Gt",
		"(*github.com/holiman/uint256.Int).Eq", "(*github.com/holiman/uint256.Int).Cmp", "(*github.com/holiman/uint256.Int).Sign",
		"(*github.com/holiman/uint256.Int).IsUint64", "(*github.com/holiman/uint256.Int).Uint64", "(*github.com/holiman/uint256.Int).CmpUint64",
		"(*github.com/holiman/uint256.Int).LtUint64", "(*github.com/holiman/uint256.Int).GtUint64", "(*github.com/holiman/uint256.Int).BitLen",
		"math/bits.Len64", "math/bits.Len", "math/bits.Len32", "math/bits.Len8",
	} {
		pureIntrinsic[n] = true
	}
}

// specCheck is called by visitInstr for every instruction while speculating.
func (c *Ctx) specCheck(fr *frame, instr ssa.Instruction) {
	switch in := instr.(type) {
	case *ssa.Store:
		// only stores to a local slot of a frame created inside the speculation
		if a, ok := in.Addr.(*ssa.Alloc); ok && !a.Heap && fr.spec {
			return
		}
		panic(specAbort{"store"})
	case *ssa.MapUpdate, *ssa.Send, *ssa.Go, *ssa.Defer, *ssa.RunDefers, *ssa.Panic, *ssa.Select, *ssa.MakeChan:
		panic(specAbort{"side effect"})
	case *ssa.Alloc:
		if in.Heap {
			panic(specAbort{"heap alloc"})
		}
		if !fr.spec {
			panic(specAbort{"alloc in outer frame"})
		}
	case *ssa.MakeSlice, *ssa.MakeMap, *ssa.MakeClosure:
		panic(specAbort{"allocation"})
	case *ssa.Range, *ssa.Next:
		panic(specAbort{"iteration"})
	}
}

func (c *Ctx) tryMerge(fr *frame, br *ssa.If, cond *Term) bool {
	if c.noMerge || c.concrete != nil || c.tolerant || c.dpos < len(c.prefix) && false {
		return false
	}
	if c.specDepth > 0 {
		// nested merging inside an ongoing speculation is allowed (it is itself pure)
	}
	start := fr.block
	var paths []specPath
	var join *ssa.BasicBlock
	blocks := 0
	ok := true
	savedPrev, savedBlock := fr.prevBlock, fr.block
	savedSteps := c.steps

	var walk func(b, from *ssa.BasicBlock, pc *Term)
	walk = func(b, from *ssa.BasicBlock, pc *Term) {
		if !ok {
			return
		}
		for {
			if len(b.Preds) >= 2 {
				// merge point: must be the common join
				if join == nil {
					join = b
				} else if join != b {
					ok = false
					return
				}
				if len(paths) >= maxSpecPaths {
					ok = false
					return
				}
				p := specPath{cond: pc, pred: from}
				predIndex := -1
				for i, pr := range b.Preds {
					if pr == from {
						predIndex = i
					}
				}
				for _, in := range b.Instrs {
					phi, isPhi := in.(*ssa.Phi)
					if !isPhi {
						break
					}
					p.vals = append(p.vals, fr.get(phi.Edges[predIndex]))
				}
				paths = append(paths, p)
				return
			}
			blocks++
			if blocks > maxSpecBlocks {
				ok = false
				return
			}
			fr.prevBlock, fr.block = from, b
			// single-predecessor blocks have no phis
			for _, in := range b.Instrs {
				switch t := in.(type) {
				case *ssa.Jump:
					from, b = b, b.Succs[0]
				case *ssa.If:
					cv, isT := fr.get(t.Cond).(*Term)
					if !isT {
						ok = false
						return
					}
					if cv.Op == OpBConst {
						if cv.B {
							from, b = b, b.Succs[0]
						} else {
							from, b = b, b.Succs[1]
						}
					} else {
						s0, s1 := b.Succs[0], b.Succs[1]
						walk(s0, b, And(pc, cv))
						walk(s1, b, And(pc, Not(cv)))
						return
					}
				case *ssa.Return:
					ok = false
					return
				default:
					if c.visitInstr(fr, in) {
						ok = false
						return
					}
				}
				if !ok {
					return
				}
			}
		}
	}

	c.specDepth++
	func() {
		defer func() {
			c.specDepth--
			if r := recover(); r != nil {
				switch r.(type) {
				case specAbort, targetPanic:
					ok = false
				case pathAbort:
					ok = false
				default:
					panic(r)
				}
			}
		}()
		walk(start.Succs[0], start, cond)
		walk(start.Succs[1], start, Not(cond))
	}()
	fr.prevBlock, fr.block = savedPrev, savedBlock
	if !ok || join == nil || len(paths) < 2 {
		c.steps = savedSteps
		c.mergeFail++
		return false
	}
	// merge phi values
	nphi := len(paths[0].vals)
	merged := make([]value, nphi)
	for k := 0; k < nphi; k++ {
		acc := paths[len(paths)-1].vals[k]
		for i := len(paths) - 2; i >= 0; i-- {
			m, good := mergeVals(paths[i].cond, paths[i].vals[k], acc)
			if !good {
				c.steps = savedSteps
				c.mergeFail++
				return false
			}
			acc = m
		}
		merged[k] = acc
	}
	k := 0
	for _, in := range join.Instrs {
		phi, isPhi := in.(*ssa.Phi)
		if !isPhi {
			break
		}
		fr.env[phi] = merged[k]
		k++
	}
	fr.prevBlock, fr.block = paths[0].pred, join
	fr.phisDone = join
	c.mergeOK++
	return true
}

var _ = token.NoPos
