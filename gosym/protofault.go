package main

// Fault injection into protobuf message values (harness primitives vProtoFaultSites / vProtoFault):
// starting from a message produced by a real encoder, exactly one "site" is damaged the way a
// hostile or truncated wire message would be: an optional/message field dropped (nil), a bytes
// field absent (nil) / emptied / shortened / lengthened by one byte, a repeated field shortened / lengthened by
// one element, or one of its elements nil. Sites are numbered in depth-first field order.

import (
	"go/token"
	"go/types"

	"golang.org/x/tools/go/ssa"
)

type faultWalker struct {
	c      *Ctx
	target int // site to damage (-1: count only)
	n      int
	done   string
}

func skipProtoField(name string) bool {
	return name == "state" || name == "sizeCache" || name == "unknownFields"
}

func isByteSlice(t types.Type) bool {
	s, ok := t.Underlying().(*types.Slice)
	if !ok {
		return false
	}
	b, ok := s.Elem().Underlying().(*types.Basic)
	return ok && b.Kind() == types.Uint8
}

func (w *faultWalker) site(desc string) bool {
	hit := w.n == w.target
	w.n++
	if hit {
		w.done = desc
	}
	return hit
}

func (w *faultWalker) walkStruct(p *value, t types.Type, path string, depth int) {
	if depth > 6 || p == nil {
		return
	}
	st, ok := t.Underlying().(*types.Struct)
	if !ok {
		return
	}
	sv, ok := (*p).(structure)
	if !ok {
		return
	}
	for i := 0; i < st.NumFields(); i++ {
		f := st.Field(i)
		if skipProtoField(f.Name()) {
			continue
		}
		w.walkField(&sv[i], f.Type(), path+"."+f.Name(), depth)
	}
}

func (w *faultWalker) walkField(slot *value, ft types.Type, path string, depth int) {
	switch u := ft.Underlying().(type) {
	case *types.Pointer:
		pv, ok := (*slot).(*value)
		if !ok || pv == nil {
			return
		}
		if w.site(path + " := nil") {
			*slot = (*value)(nil)
			return
		}
		if _, isStruct := u.Elem().Underlying().(*types.Struct); isStruct {
			w.walkStruct(pv, u.Elem(), path, depth+1)
		}
	case *types.Slice:
		sl, ok := (*slot).([]value)
		if !ok {
			return
		}
		if isByteSlice(ft) {
			if sl != nil {
				// an absent bytes field arrives as a nil slice (decoders tell "absent" from "empty" with != nil)
				if w.site(path + " absent (nil)") {
					*slot = []value(nil)
					return
				}
			}
			if len(sl) > 0 {
				if w.site(path + " emptied") {
					*slot = []value{}
					return
				}
				if w.site(path + " shortened by one byte") {
					*slot = append([]value{}, sl[:len(sl)-1]...)
					return
				}
			}
			if w.site(path + " lengthened by one byte") {
				*slot = append(append([]value{}, sl...), CI(0))
				return
			}
			return
		}
		if len(sl) > 0 {
			if w.site(path + " shortened by one element") {
				*slot = append([]value{}, sl[:len(sl)-1]...)
				return
			}
			if w.site(path + " lengthened by one element") {
				*slot = append(append([]value{}, sl...), deepCopy(sl[len(sl)-1], 0))
				return
			}
			if w.site(path + " emptied") {
				*slot = []value{}
				return
			}
		}
		// elements
		for i := range sl {
			ep := path + "[]"
			switch eu := u.Elem().Underlying().(type) {
			case *types.Pointer:
				pv, ok := sl[i].(*value)
				if !ok || pv == nil {
					continue
				}
				// (a nil element of a repeated message field cannot come from wire bytes: not a site)
				if _, isStruct := eu.Elem().Underlying().(*types.Struct); isStruct {
					w.walkStruct(pv, eu.Elem(), ep, depth+1)
				}
			case *types.Slice:
				w.walkField(&sl[i], u.Elem(), ep, depth+1)
			}
			if i >= 1 {
				break // the first two elements are representative
			}
		}
	case *types.Interface:
		// oneof wrappers: descend into the concrete wrapper struct
		iv, ok := (*slot).(iface)
		if !ok || iv.t == nil {
			return
		}
		if pt, ok := iv.t.Underlying().(*types.Pointer); ok {
			if pv, ok := iv.v.(*value); ok && pv != nil {
				w.walkStruct(pv, pt.Elem(), path, depth+1)
			}
		}
	}
}

func protoArg(c *Ctx, v value) (*value, types.Type) {
	iv, ok := v.(iface)
	if !ok || iv.t == nil {
		c.unsupported("vProtoFault: argument must be a non-nil pointer to a message")
	}
	pt, ok := iv.t.Underlying().(*types.Pointer)
	if !ok {
		c.unsupported("vProtoFault: argument must be a pointer to a message")
	}
	pv, ok := iv.v.(*value)
	if !ok || pv == nil {
		c.unsupported("vProtoFault: nil message")
	}
	return pv, pt.Elem()
}

func init() {
	prims["vProtoFaultSites"] = func(c *Ctx, fr *frame, fn *ssa.Function, a []value, pos token.Pos) value {
		pv, t := protoArg(c, a[0])
		w := &faultWalker{c: c, target: -1}
		w.walkStruct(pv, t, "", 0)
		return CI(int64(w.n))
	}
	prims["vProtoFault"] = func(c *Ctx, fr *frame, fn *ssa.Function, a []value, pos token.Pos) value {
		pv, t := protoArg(c, a[0])
		k, ok := concreteInt(a[1])
		if !ok {
			c.unsupported("vProtoFault: site must be concrete")
		}
		w := &faultWalker{c: c, target: int(k)}
		w.walkStruct(pv, t, "", 0)
		c.facts = append(c.facts, "fault="+w.done)
		return w.done
	}
}

func init() {
	// vSameValue(a, b interface{}) bool: structural equality of two values of the same type
	// (pointer graphs compared by content; nil and empty bytes/repeated fields are the same, as on the wire).
	prims["vSameValue"] = func(c *Ctx, fr *frame, fn *ssa.Function, a []value, pos token.Pos) value {
		x, y := a[0].(iface), a[1].(iface)
		if x.t == nil || y.t == nil {
			return CB(x.t == nil && y.t == nil)
		}
		if !types.Identical(x.t, y.t) {
			return TFalse
		}
		var fx, fy []*Term
		c.flatten(x.v, x.t, &fx, 0)
		c.flatten(y.v, y.t, &fy, 0)
		if len(fx) != len(fy) {
			return TFalse
		}
		r := TTrue
		for i := range fx {
			r = And(r, Eq(fx[i], fy[i]))
			if r == TFalse {
				return r
			}
		}
		return r
	}
}
