package main

import (
	"fmt"
	"go/token"
	"go/types"
	"strings"

	"golang.org/x/tools/go/ssa"
)

// mapVal: insertion-ordered association list; keys may be symbolic.
// Lookup of a key whose equality with a stored key is undecided forks (DESIGN 2.1 (ii)),
// except for mergeable values where an ite chain is built (DESIGN 2.1 (i)).
type mapEntry struct {
	key     value
	val     value
	ckey    string // canonical string when the key is fully concrete, else ""
	deleted bool
	tomb    bool // log mode: this entry records a deletion of key
}

type mapVal struct {
	t       *types.Map
	entries []*mapEntry
	idx     map[string]*mapEntry // concrete keys (only meaningful while !logMode)
	nsym    int                  // number of live entries with symbolic keys
	logMode bool                 // entries is a last-write-wins log that may contain aliasing keys / tombstones
}

func newMap(t *types.Map) *mapVal {
	return &mapVal{t: t, idx: map[string]*mapEntry{}}
}

func (m *mapVal) clear() {
	m.entries = nil
	m.idx = map[string]*mapEntry{}
	m.nsym = 0
}

// canonKey returns a canonical string for fully concrete keys.
func canonKey(v value) (string, bool) {
	var sb strings.Builder
	if !writeCanon(&sb, v) {
		return "", false
	}
	return sb.String(), true
}

func writeCanon(sb *strings.Builder, v value) bool {
	switch v := v.(type) {
	case *Term:
		if v.Op == OpConst {
			sb.WriteString(v.Val.String())
			sb.WriteByte(';')
			return true
		}
		if v.Op == OpBConst {
			if v.B {
				sb.WriteString("T;")
			} else {
				sb.WriteString("F;")
			}
			return true
		}
		return false
	case string:
		fmt.Fprintf(sb, "%d:%s;", len(v), v)
		return true
	case symStr:
		return false
	case float64:
		fmt.Fprintf(sb, "f%v;", v)
		return true
	case structure:
		sb.WriteByte('{')
		for _, e := range v {
			if !writeCanon(sb, e) {
				return false
			}
		}
		sb.WriteByte('}')
		return true
	case array:
		sb.WriteByte('[')
		for _, e := range v {
			if !writeCanon(sb, e) {
				return false
			}
		}
		sb.WriteByte(']')
		return true
	case *value:
		fmt.Fprintf(sb, "p%p;", v)
		return true
	case iface:
		if v.t == nil {
			sb.WriteString("nil;")
			return true
		}
		sb.WriteString(v.t.String())
		sb.WriteByte(':')
		return writeCanon(sb, v.v)
	case bigVal:
		return writeCanon(sb, v.t)
	case u256Val:
		return writeCanon(sb, v.t)
	case *ssa.Function:
		fmt.Fprintf(sb, "fn%p;", v)
		return true
	case *chanVal:
		fmt.Fprintf(sb, "ch%p;", v)
		return true
	}
	panic(fmt.Sprintf("writeCanon: unhandled key %T", v))
}

// find locates the entry for key, deciding (forking on) symbolic equalities. Returns nil if absent.
func (c *Ctx) mapFind(m *mapVal, key value) *mapEntry {
	ck, concrete := canonKey(key)
	if concrete {
		if e, ok := m.idx[ck]; ok {
			return e
		}
		if m.nsym == 0 {
			return nil
		}
	}
	kt := m.t.Key()
	for i := len(m.entries) - 1; i >= 0; i-- {
		e := m.entries[i]
		if e.deleted {
			continue
		}
		if concrete && e.ckey != "" {
			if e.ckey == ck {
				if e.tomb {
					return nil
				}
				return e
			}
			continue // both concrete and different
		}
		eq := c.equals(kt, key, e.key)
		if eq.Op == OpBConst {
			if eq.B {
				if e.tomb {
					return nil
				}
				return e
			}
			continue
		}
		if c.decideBool(eq, 0) {
			if e.tomb {
				return nil
			}
			return e
		}
	}
	return nil
}

func mergeableVal(v value) bool {
	switch v := v.(type) {
	case *Term, bigVal, u256Val:
		return true
	case structure:
		for _, e := range v {
			if !mergeableVal(e) {
				return false
			}
		}
		return true
	case array:
		for _, e := range v {
			if !mergeableVal(e) {
				return false
			}
		}
		return true
	}
	return false
}

func (c *Ctx) mapInsert(m *mapVal, key, val value) {
	ck, concrete := canonKey(key)
	if c.h.mergeMaps && (m.logMode || !concrete || m.nsym > 0) && mergeableVal(val) && c.allMergeable(m) {
		// log mode: record the write without deciding whether the key aliases an earlier one
		m.logMode = true
		e := &mapEntry{key: copyVal(key), val: copyVal(val)}
		if concrete {
			e.ckey = ck
		} else {
			m.nsym++
		}
		m.entries = append(m.entries, e)
		return
	}
	if m.logMode {
		c.mapNormalise(m)
	}
	if e := c.mapFind(m, key); e != nil {
		e.val = copyVal(val)
		return
	}
	e := &mapEntry{key: copyVal(key), val: copyVal(val)}
	if ck, ok := canonKey(key); ok {
		e.ckey = ck
		m.idx[ck] = e
	} else {
		m.nsym++
	}
	m.entries = append(m.entries, e)
}

func (c *Ctx) allMergeable(m *mapVal) bool {
	for _, e := range m.entries {
		if !e.tomb && !mergeableVal(e.val) {
			return false
		}
	}
	return true
}

// mapNormalise turns a last-write-wins log into a set of distinct live entries by deciding
// (forking on) key aliasing; needed for len() and range.
func (c *Ctx) mapNormalise(m *mapVal) {
	if !m.logMode {
		return
	}
	log := m.entries
	m.entries, m.idx, m.nsym, m.logMode = nil, map[string]*mapEntry{}, 0, false
	for _, e := range log {
		if e.tomb {
			c.mapDelete(m, e.key)
		} else {
			c.mapInsertDistinct(m, e.key, e.val)
		}
	}
}

func (c *Ctx) mapInsertDistinct(m *mapVal, key, val value) {
	if e := c.mapFind(m, key); e != nil {
		e.val = copyVal(val)
		return
	}
	e := &mapEntry{key: copyVal(key), val: copyVal(val)}
	if ck, ok := canonKey(key); ok {
		e.ckey = ck
		m.idx[ck] = e
	} else {
		m.nsym++
	}
	m.entries = append(m.entries, e)
}

func (c *Ctx) mapDelete(m *mapVal, key value) {
	if m.logMode {
		e := &mapEntry{key: copyVal(key), tomb: true}
		if ck, ok := canonKey(key); ok {
			e.ckey = ck
		} else {
			m.nsym++
		}
		m.entries = append(m.entries, e)
		return
	}
	e := c.mapFind(m, key)
	if e == nil {
		return
	}
	e.deleted = true
	if e.ckey != "" {
		delete(m.idx, e.ckey)
	} else {
		m.nsym--
	}
	// compact lazily
	live := m.entries[:0:0]
	for _, x := range m.entries {
		if !x.deleted {
			live = append(live, x)
		}
	}
	m.entries = live
}

func (c *Ctx) mapLen(m *mapVal) *Term {
	c.mapNormalise(m)
	// distinctness of symbolic keys has been decided (mapFind forks), so entries are distinct.
	return CI(int64(len(m.entries)))
}

// mergeableMapValue reports whether ite-merging lookups is possible for this map's value type.
func (c *Ctx) lookup(instr *ssa.Lookup, x, idx value) value {
	if p, ok := x.(poison); ok {
		return p
	}
	switch x := x.(type) {
	case *mapVal:
		vt := instr.X.Type().Underlying().(*types.Map).Elem()
		var v value
		found := TFalse
		if x != nil {
			if r, ok := c.mapLookupMerged(x, idx, vt); ok {
				v, found = r.v, r.found
			} else if pv, pf, ok := c.mapLookupBigPtr(x, idx, instr.Pos()); ok {
				v, found = pv, pf
			} else if e := c.mapFind(x, idx); e != nil {
				v, found = copyVal(e.val), TTrue
			}
		}
		if v == nil {
			v = zero(vt)
		}
		if instr.CommaOk {
			return tuple{v, found}
		}
		return v
	case string, symStr:
		b := strBytes(x)
		it := asTerm(idx)
		if i, ok := concreteInt(it); ok {
			if i < 0 || i >= int64(len(b)) {
				panic(tpanic(fmt.Sprintf("runtime error: index out of range [%d] with length %d", i, len(b))))
			}
			return b[i]
		}
		c.boundsCheck(it, len(b), "string index", instr.Pos())
		vals := make([]value, len(b))
		for i := range b {
			vals[i] = b[i]
		}
		return c.loadSymIdx(symIdxPtr{vals, it}, instr.Pos())
	}
	panic(fmt.Sprintf("lookup on %T", x))
}

type mergedLookup struct {
	v     value
	found *Term
}

// mapLookupMerged implements discipline (i): when the key is symbolic (or the map holds symbolic
// keys) and all live values are scalar trees, the result is an ite chain and no fork happens.
func (c *Ctx) mapLookupMerged(m *mapVal, key value, vt types.Type) (mergedLookup, bool) {
	if !c.h.mergeMaps {
		return mergedLookup{}, false
	}
	_, concrete := canonKey(key)
	if concrete && m.nsym == 0 && !m.logMode {
		return mergedLookup{}, false // plain path handles it
	}
	kt := m.t.Key()
	var res value = zero(vt)
	found := TFalse
	// oldest to newest, so that the newest write is the outermost ite (last write wins)
	for _, e := range m.entries {
		if e.deleted {
			continue
		}
		eq := c.equals(kt, key, e.key)
		if eq == TFalse {
			continue
		}
		if e.tomb {
			mv, ok := mergeVals(eq, zero(vt), res)
			if !ok {
				return mergedLookup{}, false
			}
			res = mv
			found = And(Not(eq), found)
			continue
		}
		mv, ok := mergeVals(eq, e.val, res)
		if !ok {
			return mergedLookup{}, false
		}
		res = mv
		found = Or(eq, found)
	}
	return mergedLookup{res, found}, true
}

type mapIter struct {
	ents []*mapEntry
	pos  int
}

func (c *Ctx) newMapIter(m *mapVal) iter {
	it := &mapIter{}
	if m == nil {
		return it
	}
	c.mapNormalise(m)
	ents := m.entries
	order := make([]int, len(ents))
	for i := range order {
		order[i] = i
	}
	if c.h.permuteMaps && len(ents) > 1 && len(ents) <= 4 {
		// choose a permutation: decision among n! alternatives (all feasible)
		perms := permutations(len(ents))
		k := c.decideFree(len(perms))
		order = perms[k]
	}
	for _, i := range order {
		it.ents = append(it.ents, ents[i])
	}
	return it
}

func permutations(n int) [][]int {
	if n == 1 {
		return [][]int{{0}}
	}
	var res [][]int
	for _, p := range permutations(n - 1) {
		for pos := 0; pos <= len(p); pos++ {
			q := make([]int, 0, n)
			q = append(q, p[:pos]...)
			q = append(q, n-1)
			q = append(q, p[pos:]...)
			res = append(res, q)
		}
	}
	return res
}

func (it *mapIter) next(c *Ctx) tuple {
	for it.pos < len(it.ents) && it.ents[it.pos].deleted {
		it.pos++
	}
	if it.pos >= len(it.ents) {
		return tuple{TFalse, nil, nil}
	}
	e := it.ents[it.pos]
	it.pos++
	return tuple{TTrue, copyVal(e.key), copyVal(e.val)}
}

// mapLookupBigPtr: lookup with a symbolic key in a map whose values are non-nil *big.Int (read-only
// tables such as types.Denominations): one decision on presence, then the result is a fresh frozen
// cell holding the ite of the pointees (writes through a frozen cell abort as unsupported).
func (c *Ctx) mapLookupBigPtr(m *mapVal, key value, pos token.Pos) (value, *Term, bool) {
	if !c.h.mergeMaps || m.logMode || len(m.entries) == 0 {
		return nil, nil, false
	}
	if _, concrete := canonKey(key); concrete && m.nsym == 0 {
		return nil, nil, false
	}
	for _, e := range m.entries {
		p, ok := e.val.(*value)
		if !ok || p == nil {
			return nil, nil, false
		}
		if _, isBig := (*p).(bigVal); !isBig {
			return nil, nil, false
		}
	}
	kt := m.t.Key()
	found := TFalse
	var res *Term = CI(0)
	for _, e := range m.entries {
		eq := c.equals(kt, key, e.key)
		if eq == TFalse {
			continue
		}
		found = Or(eq, found)
		res = Ite(eq, (*(e.val.(*value))).(bigVal).t, res)
	}
	if !c.decideBool(found, pos) {
		return (*value)(nil), TFalse, true
	}
	var box value = bigVal{res}
	c.frozen[&box] = true
	return &box, TTrue, true
}
