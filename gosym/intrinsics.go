package main

import (
	"fmt"
	"go/token"
	"go/types"
	"math"
	"math/big"
	"path/filepath"
	"strings"

	"golang.org/x/tools/go/ssa"
)

const modPrefix = "github.com/dominant-strategies/go-quai/"

// normName strips the module prefix so that directives can say core/types.Foo.
func normName(s string) string { return strings.ReplaceAll(s, modPrefix, "") }

type intrinsic func(c *Ctx, fr *frame, fn *ssa.Function, args []value, pos token.Pos) value

var intrinsics = map[string]intrinsic{}

func (c *Ctx) intercept(fr *frame, fn *ssa.Function, args []value, pos token.Pos) (value, bool) {
	name := fn.String()
	// 1. harness primitives
	if p, ok := prims[fn.Name()]; ok && fn.Pkg != nil && c.eng.isPrimFile(fn) {
		if c.specDepth > 0 {
			panic(specAbort{"harness primitive"})
		}
		return p(c, fr, fn, args, pos), true
	}
	// 2. stubs
	if c.h != nil && fn.Pkg != nil {
		if repl, ok := c.h.stubs[normName(name)]; ok && fr.caller != nil && fr.caller.fn != repl {
			return c.callSSA(fr.caller, pos, repl, args, nil), true
		}
	}
	// 3. intrinsics
	if in, ok := intrinsics[name]; ok {
		if c.specDepth > 0 && !pureIntrinsic[name] {
			panic(specAbort{"impure intrinsic " + name})
		}
		for _, a := range args {
			if p, isP := a.(poison); isP {
				return p, true
			}
		}
		return in(c, fr, fn, args, pos), true
	}
	if fn.Pkg == nil {
		// synthetic wrappers / bound methods / instantiations: origin's package policies
		if o := fn.Origin(); o != nil && o.Pkg != nil {
			if in, ok := intrinsics[o.String()]; ok {
				return in(c, fr, fn, args, pos), true
			}
			return c.pkgPolicy(fr, fn, o.Pkg.Pkg.Path(), args, pos)
		}
		return nil, false
	}
	return c.pkgPolicy(fr, fn, fn.Pkg.Pkg.Path(), args, pos)
}

func (c *Ctx) pkgPolicy(fr *frame, fn *ssa.Function, path string, args []value, pos token.Pos) (value, bool) {
	if strings.HasPrefix(path, "github.com/prometheus/") {
		return zeroResults(fn.Signature), true
	}
	switch path {
	case "github.com/sirupsen/logrus":
		n := fn.Name()
		if strings.HasPrefix(n, "Fatal") || strings.HasPrefix(n, "Panic") {
			panic(tpanic("logrus." + n + " at " + c.posStr(pos)))
		}
		return zeroResults(fn.Signature), true
	case "sync":
		return c.syncPolicy(fr, fn, args, pos)
	case "sync/atomic":
		return c.atomicPolicy(fr, fn, args, pos)
	case "runtime", "runtime/debug", "os/signal", "runtime/pprof":
		switch fn.Name() {
		case "KeepAlive", "GC", "Gosched", "SetFinalizer", "FreeOSMemory":
			return nil, true
		case "Stack":
			return []value{}, true
		case "NumCPU", "GOMAXPROCS", "NumGoroutine":
			return CI(16), true
		}
		return zeroResults(fn.Signature), true
	case "fmt":
		return c.fmtPolicy(fr, fn, args, pos)
	case "time":
		switch fn.Name() {
		case "Now":
			return zero(fn.Signature.Results().At(0).Type()), true
		case "Since", "Until":
			return CI(0), true
		case "Sleep":
			return nil, true
		}
		return nil, false
	case "log":
		if strings.HasPrefix(fn.Name(), "Fatal") || strings.HasPrefix(fn.Name(), "Panic") {
			panic(tpanic("log." + fn.Name()))
		}
		return zeroResults(fn.Signature), true
	case "os":
		switch fn.Name() {
		case "Exit":
			panic(tpanic("os.Exit at " + c.posStr(pos)))
		case "Getenv":
			return "", true
		}
		return nil, false
	case "github.com/dominant-strategies/go-quai/metrics_config":
		switch fn.Name() {
		case "MetricsEnabled":
			return TFalse, true
		}
		return nil, false
	case "math/big":
		// big.Float is never interpreted (floating point is outside the technique). A *big.Float that is only
		// built and passed on (log fields) is an opaque token: methods that return the receiver do so without
		// computing anything; whatever would turn a Float back into a decided value (Int, Cmp, Sign, Float64,
		// Text ...) stays unsupported and aborts the path as inconclusive.
		if r := fn.Signature.Recv(); r != nil && namedPath(derefOrSelf(r.Type())) == "math/big.Float" {
			res := fn.Signature.Results()
			if res.Len() == 1 && namedPath(derefOrSelf(res.At(0).Type())) == "math/big.Float" && len(args) > 0 {
				return args[0], true
			}
			c.unsupported("big.Float.%s at %s (floating point is not encoded)", fn.Name(), c.posStr(pos))
		}
		return nil, false
	case "unsafe", "reflect", "internal/reflectlite":
		c.unsupported("call into %s: %s at %s", path, fn.Name(), c.posStr(pos))
	}
	return nil, false
}

func (c *Ctx) syncPolicy(fr *frame, fn *ssa.Function, args []value, pos token.Pos) (value, bool) {
	recv := ""
	if r := fn.Signature.Recv(); r != nil {
		recv = namedPath(derefOrSelf(r.Type()))
	}
	switch recv {
	case "sync.Mutex", "sync.RWMutex", "sync.WaitGroup", "sync.Cond":
		if recv == "sync.WaitGroup" && fn.Name() == "Wait" {
			c.runPendingGo()
		}
		switch fn.Name() {
		case "TryLock", "TryRLock":
			return TTrue, true
		case "RLocker":
			c.unsupported("RLocker")
		}
		return zeroResults(fn.Signature), true
	case "sync.Once":
		if fn.Name() == "Do" {
			p := args[0].(*value)
			if !c.onceDone[p] {
				c.onceDone[p] = true
				c.call(fr, pos, args[1], nil)
			}
			return nil, true
		}
	case "sync.Pool":
		switch fn.Name() {
		case "Get":
			p := args[0].(*value)
			st := (*p).(structure)
			// field New is the last field of sync.Pool
			pt := derefOrSelf(fn.Signature.Recv().Type()).Underlying().(*types.Struct)
			for i := 0; i < pt.NumFields(); i++ {
				if pt.Field(i).Name() == "New" {
					f := st[i]
					if ff, ok := f.(*ssa.Function); ok && ff == nil {
						return iface{}, true
					}
					return c.call(fr, pos, f, nil), true
				}
			}
			return iface{}, true
		case "Put":
			return nil, true
		}
	case "sync.Map":
		return nil, false // run from SSA (uses atomics)
	}
	if recv == "" {
		switch fn.Name() {
		case "OnceFunc", "OnceValue":
			return nil, false
		}
	}
	return nil, false
}

func derefOrSelf(t types.Type) types.Type {
	if p, ok := t.Underlying().(*types.Pointer); ok {
		return p.Elem()
	}
	return t
}

func (c *Ctx) atomicPolicy(fr *frame, fn *ssa.Function, args []value, pos token.Pos) (value, bool) {
	name := fn.Name()
	recv := ""
	if r := fn.Signature.Recv(); r != nil {
		recv = namedPath(derefOrSelf(r.Type()))
	}
	if recv == "" {
		// function forms on *T
		switch {
		case strings.HasPrefix(name, "Load"):
			return load(args[0].(*value)), true
		case strings.HasPrefix(name, "Store"):
			store(args[0].(*value), args[1])
			return nil, true
		case strings.HasPrefix(name, "Add"):
			p := args[0].(*value)
			k, _ := intKindOf(fn.Signature.Results().At(0).Type())
			nv := wrap(Add(asTerm(*p), asTerm(args[1])), k)
			*p = nv
			return nv, true
		case strings.HasPrefix(name, "CompareAndSwap"):
			p := args[0].(*value)
			eq := c.equals(nil, *p, args[1])
			if c.decideBool(eq, pos) {
				store(p, args[2])
				return TTrue, true
			}
			return TFalse, true
		case strings.HasPrefix(name, "Swap"):
			p := args[0].(*value)
			old := load(p)
			store(p, args[1])
			return old, true
		}
		return nil, false
	}
	// typed atomics: atomic.Value, atomic.Int64, atomic.Bool, atomic.Pointer[T] ...
	p := args[0].(*value)
	st, ok := (*p).(structure)
	if !ok {
		return nil, false
	}
	// locate the payload field named v
	rt := derefOrSelf(fn.Signature.Recv().Type()).Underlying().(*types.Struct)
	vi := -1
	for i := 0; i < rt.NumFields(); i++ {
		if rt.Field(i).Name() == "v" {
			vi = i
		}
	}
	if vi < 0 {
		return nil, false
	}
	switch recv {
	case "sync/atomic.Value":
		switch name {
		case "Load":
			if _, isIface := st[vi].(iface); !isIface {
				return iface{}, true
			}
			return st[vi], true
		case "Store":
			st[vi] = args[1]
			return nil, true
		}
		return nil, false
	}
	if strings.HasPrefix(recv, "sync/atomic.Pointer") {
		switch name {
		case "Load":
			if st[vi] == nil {
				return (*value)(nil), true
			}
			if _, isPtr := st[vi].(*value); !isPtr {
				return (*value)(nil), true
			}
			return st[vi], true
		case "Store":
			st[vi] = args[1]
			return nil, true
		}
		return nil, false
	}
	switch name {
	case "Load":
		v := st[vi]
		if recv == "sync/atomic.Bool" {
			return Not(Eq(asTerm(v), CI(0))), true
		}
		return v, true
	case "Store":
		if recv == "sync/atomic.Bool" {
			st[vi] = Ite(asTerm(args[1]), CI(1), CI(0))
		} else {
			st[vi] = args[1]
		}
		return nil, true
	case "Add":
		k, _ := intKindOf(fn.Signature.Results().At(0).Type())
		nv := wrap(Add(asTerm(st[vi]), asTerm(args[1])), k)
		st[vi] = nv
		return nv, true
	}
	return nil, false
}

// ---- fmt ----

func (c *Ctx) renderArg(v value) string {
	switch v := v.(type) {
	case iface:
		if v.t == nil {
			return "<nil>"
		}
		switch x := v.v.(type) {
		case string:
			return x
		case *Term:
			if x.IsConst() {
				return x.String()
			}
			return "<sym>"
		}
		if m := c.eng.findMethod(v.t, "Error"); m != nil {
			return c.panicString(v)
		}
		return "<" + v.t.String() + ">"
	}
	return "<?>"
}

func (c *Ctx) sprintf(args []value, hasFormat bool) (string, value) {
	var sb strings.Builder
	var wrapped value
	var rest []value
	if hasFormat {
		switch f := args[0].(type) {
		case string:
			sb.WriteString(f)
		default:
			sb.WriteString("<symfmt>")
		}
		if len(args) > 1 {
			rest, _ = args[1].([]value)
		}
	} else if len(args) > 0 {
		rest, _ = args[0].([]value)
	}
	for _, a := range rest {
		if i, ok := a.(iface); ok && i.t != nil {
			if types.Implements(i.t, errorIface) && hasFormat && strings.Contains(sb.String(), "%w") && wrapped == nil {
				wrapped = i
			}
		}
		sb.WriteString(" | ")
		func() {
			defer func() {
				if r := recover(); r != nil {
					if pa, ok := r.(pathAbort); ok && pa.kind != "unsupported" {
						panic(r)
					}
					sb.WriteString("<?>")
				}
			}()
			sb.WriteString(c.renderArg(a))
		}()
	}
	return sb.String(), wrapped
}

var errorIface = types.Universe.Lookup("error").Type().Underlying().(*types.Interface)

func (c *Ctx) fmtPolicy(fr *frame, fn *ssa.Function, args []value, pos token.Pos) (value, bool) {
	switch fn.Name() {
	case "Sprintf":
		s, _ := c.sprintf(args, true)
		return s, true
	case "Sprint", "Sprintln":
		s, _ := c.sprintf(args, false)
		return s, true
	case "Errorf":
		s, w := c.sprintf(args, true)
		return c.eng.makeError(s, w), true
	case "Printf", "Println", "Print", "Fprintf", "Fprintln", "Fprint":
		return zeroResults(fn.Signature), true
	}
	c.unsupported("fmt.%s at %s", fn.Name(), c.posStr(pos))
	return nil, true
}

// makeError builds an error value: *errors.errorString, or *fmt.wrapError when wrapping.
func (e *Engine) makeError(msg string, wrapped value) value {
	if wrapped != nil && e.wrapErrT != nil {
		var box value = structure{msg, wrapped}
		return iface{t: types.NewPointer(e.wrapErrT), v: &box}
	}
	var box value = structure{msg}
	return iface{t: types.NewPointer(e.errStrT), v: &box}
}

func init() {
	intrinsics["errors.New"] = func(c *Ctx, fr *frame, fn *ssa.Function, args []value, pos token.Pos) value {
		// allocate like the real one so that identity (errors.Is on sentinels) works
		var box value = structure{args[0]}
		return iface{t: types.NewPointer(c.eng.errStrT), v: &box}
	}
	intrinsics["errors.Is"] = func(c *Ctx, fr *frame, fn *ssa.Function, args []value, pos token.Pos) value {
		err, target := args[0].(iface), args[1].(iface)
		for depth := 0; depth < 20; depth++ {
			if err.t == nil {
				return CB(target.t == nil)
			}
			if target.t != nil && types.Identical(err.t, target.t) && types.Comparable(err.t) {
				eq := c.equals(err.t, err.v, target.v)
				if c.decideBool(eq, pos) {
					return TTrue
				}
			}
			if m := c.eng.findMethod(err.t, "Is"); m != nil && m.Signature.Params().Len() == 1 {
				r := c.callSSA(fr, pos, m, []value{err.v, target}, nil)
				if c.decideBool(asTerm(r), pos) {
					return TTrue
				}
			}
			m := c.eng.findMethod(err.t, "Unwrap")
			if m == nil || m.Signature.Results().Len() != 1 {
				return TFalse
			}
			r := c.callSSA(fr, pos, m, []value{err.v}, nil)
			next, ok := r.(iface)
			if !ok {
				return TFalse
			}
			err = next
		}
		return TFalse
	}
	intrinsics["errors.Unwrap"] = func(c *Ctx, fr *frame, fn *ssa.Function, args []value, pos token.Pos) value {
		err := args[0].(iface)
		if err.t == nil {
			return iface{}
		}
		m := c.eng.findMethod(err.t, "Unwrap")
		if m == nil || m.Signature.Results().Len() != 1 {
			return iface{}
		}
		r := c.callSSA(fr, pos, m, []value{err.v}, nil)
		if i, ok := r.(iface); ok {
			return i
		}
		return iface{}
	}
	intrinsics["strings.Contains"] = func(c *Ctx, fr *frame, fn *ssa.Function, args []value, pos token.Pos) value {
		a, ok1 := args[0].(string)
		b, ok2 := args[1].(string)
		if !ok1 || !ok2 {
			c.unsupported("strings.Contains on symbolic strings")
		}
		return CB(strings.Contains(a, b))
	}
	intrinsics["strings.HasPrefix"] = func(c *Ctx, fr *frame, fn *ssa.Function, args []value, pos token.Pos) value {
		a, b := strBytes(args[0]), strBytes(args[1])
		if len(a) < len(b) {
			return TFalse
		}
		return bytesEq(a[:len(b)], b)
	}
	intrinsics["bytes.Equal"] = func(c *Ctx, fr *frame, fn *ssa.Function, args []value, pos token.Pos) value {
		return bytesEq(sliceTerms(args[0]), sliceTerms(args[1]))
	}
	intrinsics["bytes.Compare"] = func(c *Ctx, fr *frame, fn *ssa.Function, args []value, pos token.Pos) value {
		a, b := sliceTerms(args[0]), sliceTerms(args[1])
		return Ite(bytesLess(a, b), CI(-1), Ite(bytesEq(a, b), CI(0), CI(1)))
	}
	intrinsics["bytes.HasPrefix"] = func(c *Ctx, fr *frame, fn *ssa.Function, args []value, pos token.Pos) value {
		a, b := sliceTerms(args[0]), sliceTerms(args[1])
		if len(a) < len(b) {
			return TFalse
		}
		return bytesEq(a[:len(b)], b)
	}
	intrinsics["internal/bytealg.IndexByte"] = func(c *Ctx, fr *frame, fn *ssa.Function, args []value, pos token.Pos) value {
		a := sliceTerms(args[0])
		return indexByte(a, asTerm(args[1]))
	}
	intrinsics["internal/bytealg.IndexByteString"] = func(c *Ctx, fr *frame, fn *ssa.Function, args []value, pos token.Pos) value {
		return indexByte(strBytes(args[0]), asTerm(args[1]))
	}
	intrinsics["internal/bytealg.Equal"] = intrinsics["bytes.Equal"]
	intrinsics["internal/bytealg.Compare"] = intrinsics["bytes.Compare"]
	// sort.Slice / sort.SliceStable: a stable insertion sort driven by the caller's less closure
	// (any correct sort gives the same result for SliceStable; for Slice the order of equal
	// elements is unspecified and this picks the stable one)
	sortSlice := func(c *Ctx, fr *frame, fn *ssa.Function, args []value, pos token.Pos) value {
		ifc, ok := args[0].(iface)
		if !ok {
			c.unsupported("sort.Slice on %T", args[0])
		}
		sl, ok := ifc.v.([]value)
		if !ok {
			c.unsupported("sort.Slice on %T", ifc.v)
		}
		for i := 1; i < len(sl); i++ {
			for j := i; j > 0; j-- {
				r := c.call(fr, pos, args[1], []value{CI(int64(j)), CI(int64(j - 1))})
				if !c.decideBool(asTerm(r), pos) {
					break
				}
				sl[j], sl[j-1] = sl[j-1], sl[j]
			}
		}
		return nil
	}
	// sort.Sort / sort.Stable over a sort.Interface: stable insertion sort through the value's own
	// Len / Less / Swap methods
	sortIface := func(c *Ctx, fr *frame, fn *ssa.Function, args []value, pos token.Pos) value {
		ifc, ok := args[0].(iface)
		if !ok || ifc.t == nil {
			c.unsupported("sort.Sort on %T", args[0])
		}
		mLen, mLess, mSwap := c.eng.findMethod(ifc.t, "Len"), c.eng.findMethod(ifc.t, "Less"), c.eng.findMethod(ifc.t, "Swap")
		if mLen == nil || mLess == nil || mSwap == nil {
			c.unsupported("sort.Sort: methods not found")
		}
		n, ok := concreteInt(asTerm(c.callSSA(fr, pos, mLen, []value{ifc.v}, nil)))
		if !ok {
			c.unsupported("sort.Sort: symbolic length")
		}
		for i := int64(1); i < n; i++ {
			for j := i; j > 0; j-- {
				r := c.callSSA(fr, pos, mLess, []value{ifc.v, CI(j), CI(j - 1)}, nil)
				if !c.decideBool(asTerm(r), pos) {
					break
				}
				c.callSSA(fr, pos, mSwap, []value{ifc.v, CI(j), CI(j - 1)}, nil)
			}
		}
		return nil
	}
	intrinsics["sort.Sort"] = sortIface
	intrinsics["sort.Stable"] = sortIface
	intrinsics["sort.Slice"] = sortSlice
	intrinsics["sort.SliceStable"] = sortSlice
	// concrete floating point library calls (floats are never symbolic in this engine)
	for name, f := range map[string]func(float64) float64{"math.Log": math.Log, "math.Log2": math.Log2, "math.Log10": math.Log10, "math.Exp": math.Exp,
		"math.Sqrt": math.Sqrt, "math.Floor": math.Floor, "math.Ceil": math.Ceil, "math.Abs": math.Abs, "math.Round": math.Round, "math.Trunc": math.Trunc} {
		f := f
		intrinsics[name] = func(c *Ctx, fr *frame, fn *ssa.Function, args []value, pos token.Pos) value {
			x, ok := args[0].(float64)
			if !ok {
				c.unsupported("floating point library call on a non-concrete value")
			}
			return f(x)
		}
	}
	intrinsics["math.Pow"] = func(c *Ctx, fr *frame, fn *ssa.Function, args []value, pos token.Pos) value {
		x, ok := args[0].(float64)
		y, ok2 := args[1].(float64)
		if !ok || !ok2 {
			c.unsupported("floating point library call on a non-concrete value")
		}
		return math.Pow(x, y)
	}
	intrinsics["math/bits.Len64"] = func(c *Ctx, fr *frame, fn *ssa.Function, args []value, pos token.Pos) value {
		return bitLenTerm(asTerm(args[0]), 64)
	}
	intrinsics["math/bits.Len"] = intrinsics["math/bits.Len64"]
	intrinsics["math/bits.Len32"] = func(c *Ctx, fr *frame, fn *ssa.Function, args []value, pos token.Pos) value {
		return bitLenTerm(asTerm(args[0]), 32)
	}
	intrinsics["math/bits.Len8"] = func(c *Ctx, fr *frame, fn *ssa.Function, args []value, pos token.Pos) value {
		return bitLenTerm(asTerm(args[0]), 8)
	}
	intrinsics["math/bits.LeadingZeros64"] = func(c *Ctx, fr *frame, fn *ssa.Function, args []value, pos token.Pos) value {
		return Sub(CI(64), bitLenTerm(asTerm(args[0]), 64))
	}
	intrinsics["math/bits.Add64"] = func(c *Ctx, fr *frame, fn *ssa.Function, args []value, pos token.Pos) value {
		s := Add(Add(asTerm(args[0]), asTerm(args[1])), asTerm(args[2]))
		m := CInt(Pow2(64))
		return tuple{Mod(s, m), Div(s, m)}
	}
	intrinsics["math/bits.Sub64"] = func(c *Ctx, fr *frame, fn *ssa.Function, args []value, pos token.Pos) value {
		s := Sub(Sub(asTerm(args[0]), asTerm(args[1])), asTerm(args[2]))
		m := CInt(Pow2(64))
		return tuple{Mod(s, m), Ite(Lt(s, CI(0)), CI(1), CI(0))}
	}
	intrinsics["math/bits.Mul64"] = func(c *Ctx, fr *frame, fn *ssa.Function, args []value, pos token.Pos) value {
		p := Mul(asTerm(args[0]), asTerm(args[1]))
		m := CInt(Pow2(64))
		return tuple{Div(p, m), Mod(p, m)}
	}
	// encoding/binary fixed-width helpers
	for _, e := range []struct {
		name string
		big  bool
	}{{"bigEndian", true}, {"littleEndian", false}} {
		for _, w := range []int{2, 4, 8} {
			e, w := e, w
			intrinsics[fmt.Sprintf("(encoding/binary.%s).Uint%d", e.name, w*8)] = func(c *Ctx, fr *frame, fn *ssa.Function, args []value, pos token.Pos) value {
				b := args[1].([]value)
				if len(b) < w {
					panic(tpanic(fmt.Sprintf("runtime error: index out of range [%d] with length %d (binary.Uint%d)", w-1, len(b), w*8)))
				}
				ms := make([]*Term, w)
				for i := 0; i < w; i++ {
					if e.big {
						ms[i] = asTerm(b[i])
					} else {
						ms[w-1-i] = asTerm(b[i])
					}
				}
				return Recombine(ms)
			}
			put := func(c *Ctx, fr *frame, fn *ssa.Function, args []value, pos token.Pos) value {
				b := args[1].([]value)
				v := asTerm(args[2])
				if len(b) < w {
					panic(tpanic(fmt.Sprintf("runtime error: index out of range [%d] with length %d (binary.PutUint%d)", w-1, len(b), w*8)))
				}
				for i := 0; i < w; i++ {
					sh := i
					if e.big {
						sh = w - 1 - i
					}
					b[i] = ExtractByte(v, sh)
				}
				return nil
			}
			intrinsics[fmt.Sprintf("(encoding/binary.%s).PutUint%d", e.name, w*8)] = put
		}
	}
}

// Display-only renderings are opaque: checksum hex of an address runs keccak over the hex digits and
// branches per nibble (2^40 paths); no consensus decision depends on it.
func init() {
	opaqueHex := func(c *Ctx, fr *frame, fn *ssa.Function, args []value, pos token.Pos) value {
		b := []byte("0xXXXXXXXXXXXXXXXXXXXXXXXXXXXXXXXXXXXXXXXX")
		return termsSlice(bytesToTerms(b))
	}
	for _, n := range []string{
		"(github.com/dominant-strategies/go-quai/common.AddressBytes).checksumHex",
		"(*github.com/dominant-strategies/go-quai/common.InternalAddress).checksumHex",
		"(*github.com/dominant-strategies/go-quai/common.ExternalAddress).checksumHex",
	} {
		intrinsics[n] = opaqueHex
	}
}

func indexByte(a []*Term, b *Term) *Term {
	var r *Term = CI(-1)
	for i := len(a) - 1; i >= 0; i-- {
		r = Ite(Eq(a[i], b), CI(int64(i)), r)
	}
	return r
}

func bitLenTerm(x *Term, maxBits int) *Term {
	if x.Op == OpConst {
		return CI(int64(new(big.Int).Abs(x.Val).BitLen()))
	}
	var r *Term = CI(int64(maxBits))
	for n := maxBits - 1; n >= 0; n-- {
		r = Ite(Lt(x, CInt(Pow2(n))), CI(int64(n)), r)
	}
	return r
}

func sliceTerms(v value) []*Term {
	s := v.([]value)
	r := make([]*Term, len(s))
	for i := range s {
		r[i] = asTerm(s[i])
	}
	return r
}

func termsSlice(ts []*Term) []value {
	r := make([]value, len(ts))
	for i := range ts {
		r[i] = ts[i]
	}
	return r
}

func (e *Engine) isPrimFile(fn *ssa.Function) bool {
	if fn.Pos() == token.NoPos {
		return false
	}
	return filepath.Base(e.prog.Fset.Position(fn.Pos()).Filename) == "zz_verif_prims.go"
}
