package main

import (
	"bytes"
	"encoding/json"
	"flag"
	"fmt"
	"os"
	"os/exec"
	"path/filepath"
	"sort"
	"strings"
	"time"
)

type nativeJob struct {
	h          *Harness
	v          *Violation
	model      *Model
	expectFail string
	witness    string
}

type nativeResult struct {
	ok           bool
	failedAssert string
	panicked     bool
	summary      string
}

const replayTestSrc = `//go:build verif

package %s

import (
	"fmt"
	"os"
	"strings"
	"testing"
)

var verifHarnesses = map[string]func(){
%s}

func TestVerifReplay(t *testing.T) {
	jobs := strings.Split(os.Getenv("VERIF_JOBS"), ";")
	for i, j := range jobs {
		if j == "" {
			continue
		}
		kv := strings.SplitN(j, "=", 2)
		fn := verifHarnesses[kv[0]]
		if fn == nil {
			fmt.Printf("VERIF-RESULT %%d missing-harness %%s\n", i, kv[0])
			continue
		}
		func() {
			defer func() {
				if r := recover(); r != nil {
					s := fmt.Sprint(r)
					switch {
					case strings.HasPrefix(s, "VERIF-ASSERT-FAILED "):
						fmt.Printf("VERIF-RESULT %%d assert %%s\n", i, strings.TrimPrefix(s, "VERIF-ASSERT-FAILED "))
					case strings.HasPrefix(s, "VERIF-ASSUME-FAILED"):
						fmt.Printf("VERIF-RESULT %%d assume-failed\n", i)
					case strings.HasPrefix(s, "VERIF-NO-NATIVE"):
						fmt.Printf("VERIF-RESULT %%d no-native %%s\n", i, s)
					default:
						fmt.Printf("VERIF-RESULT %%d panic %%s\n", i, strings.ReplaceAll(s, "\n", " "))
					}
				}
			}()
			vModel = nil
			vCounts = map[string]int{}
			os.Setenv("VERIF_MODEL", kv[1])
			fn()
			fmt.Printf("VERIF-RESULT %%d ok\n", i)
		}()
	}
}
`

func runNative(eng *Engine, o checkOpts, jobs []nativeJob) []nativeResult {
	res := make([]nativeResult, len(jobs))
	tmp, err := os.MkdirTemp("", "gosym-native-")
	if err != nil {
		for i := range res {
			res[i].summary = err.Error()
		}
		return res
	}
	defer os.RemoveAll(tmp)
	// group by package
	byPkg := map[string][]int{}
	for i, j := range jobs {
		byPkg[j.h.pkgPath] = append(byPkg[j.h.pkgPath], i)
	}
	for pkgPath, idxs := range byPkg {
		rel := strings.TrimPrefix(pkgPath, strings.TrimSuffix(modPrefix, "/"))
		rel = strings.TrimPrefix(rel, "/")
		paths, content, _, err := BuildOverlay(o.repo, o.hdir, map[string]bool{rel: true})
		if err != nil {
			for _, i := range idxs {
				res[i].summary = err.Error()
			}
			continue
		}
		replace := map[string]string{}
		for virt, real := range paths {
			replace[virt] = real
		}
		pkgName := ""
		for virt, b := range content {
			if strings.HasSuffix(virt, "zz_verif_prims.go") {
				p := filepath.Join(tmp, strings.ReplaceAll(rel, "/", "_")+"_prims.go")
				os.WriteFile(p, b, 0644)
				replace[virt] = p
				for _, l := range strings.Split(string(b), "\n") {
					if strings.HasPrefix(l, "package ") {
						pkgName = strings.Fields(l)[1]
					}
				}
			}
		}
		var names []string
		for n, h := range eng.harness {
			if h.pkgPath == pkgPath {
				names = append(names, n)
			}
		}
		sort.Strings(names)
		var tbl strings.Builder
		for _, n := range names {
			fmt.Fprintf(&tbl, "\t%q: %s,\n", n, eng.harness[n].fn.Name())
		}
		tp := filepath.Join(tmp, strings.ReplaceAll(rel, "/", "_")+"_replay_test.go")
		os.WriteFile(tp, []byte(fmt.Sprintf(replayTestSrc, pkgName, tbl.String())), 0644)
		replace[filepath.Join(o.repo, rel, "zz_verif_replay_test.go")] = tp
		ob, _ := json.Marshal(map[string]interface{}{"Replace": replace})
		op := filepath.Join(tmp, strings.ReplaceAll(rel, "/", "_")+"_overlay.json")
		os.WriteFile(op, ob, 0644)
		var jobSpec []string
		for k, i := range idxs {
			mp := filepath.Join(tmp, fmt.Sprintf("%s_model_%d.json", strings.ReplaceAll(rel, "/", "_"), k))
			mb, _ := json.Marshal(modelJSON(jobs[i].model))
			os.WriteFile(mp, mb, 0644)
			jobSpec = append(jobSpec, jobs[i].h.name+"="+mp)
		}
		cmd := exec.Command("timeout", "900", "go", "test", "-tags", "verif", "-vet=off", "-count=1", "-overlay", op,
			"-run", "^TestVerifReplay$", "-v", "./"+rel)
		cmd.Dir = o.repo
		cmd.Env = append(os.Environ(), "GOFLAGS=-mod=mod", "GOPROXY=off", "GOSUMDB=off", "GOTOOLCHAIN=local",
			"VERIF_JOBS="+strings.Join(jobSpec, ";"))
		var out bytes.Buffer
		cmd.Stdout = &out
		cmd.Stderr = &out
		t0 := time.Now()
		runErr := cmd.Run()
		_ = t0
		got := map[int]string{}
		for _, l := range strings.Split(out.String(), "\n") {
			if strings.HasPrefix(l, "VERIF-RESULT ") {
				f := strings.SplitN(strings.TrimPrefix(l, "VERIF-RESULT "), " ", 2)
				var k int
				fmt.Sscanf(f[0], "%d", &k)
				if len(f) > 1 {
					got[k] = f[1]
				}
			}
		}
		for k, i := range idxs {
			r, ok := got[k]
			if !ok {
				tail := out.String()
				if len(tail) > 600 {
					tail = tail[len(tail)-600:]
				}
				res[i].summary = fmt.Sprintf("no result (go test: %v) %s", runErr, strings.ReplaceAll(tail, "\n", " | "))
				continue
			}
			res[i].summary = r
			switch {
			case r == "ok":
				res[i].ok = true
			case strings.HasPrefix(r, "assert "):
				res[i].failedAssert = strings.TrimPrefix(r, "assert ")
			case strings.HasPrefix(r, "panic "):
				res[i].panicked = true
			}
		}
	}
	return res
}

func cmdReplay(args []string) int {
	fs := flag.NewFlagSet("replay", flag.ExitOnError)
	var o checkOpts
	fs.StringVar(&o.repo, "repo", "/repo", "")
	fs.StringVar(&o.hdir, "harness-dir", "/verif/harness", "")
	file := fs.String("file", "", "replay file")
	fs.Parse(args)
	b, err := os.ReadFile(*file)
	if err != nil {
		fmt.Fprintln(os.Stderr, err)
		return 3
	}
	var rec struct {
		Property, Harness, Assert string
		Facts                     []string
		Model                     json.RawMessage
		ReplayClass               string `json:"replay_class"`
	}
	if err := json.Unmarshal(b, &rec); err != nil {
		fmt.Fprintln(os.Stderr, err)
		return 3
	}
	m, err := modelFromJSON(rec.Model)
	if err != nil {
		fmt.Fprintln(os.Stderr, err)
		return 3
	}
	eng, err := LoadEngine(o.repo, o.hdir, harnessPkgsFor(o.hdir, rec.Property))
	if err != nil {
		fmt.Fprintln(os.Stderr, err)
		return 3
	}
	h := eng.harness[rec.Harness]
	if h == nil {
		fmt.Fprintln(os.Stderr, "no such harness", rec.Harness)
		return 3
	}
	v := &Violation{Harness: rec.Harness, Property: rec.Property, Label: rec.Assert, Facts: rec.Facts, Model: m}
	ok, why := eng.ConfirmInterp(h, v)
	fmt.Printf("interpreter replay of %s / %s: reproduced=%v %s\n", rec.Harness, rec.Assert, ok, why)
	repro := ok
	if h.replay == "native" {
		res := runNative(eng, o, []nativeJob{{h: h, v: v, model: m, expectFail: rec.Assert}})
		nat := res[0].failedAssert == rec.Assert || (rec.Assert == "no-panic" && res[0].panicked)
		fmt.Printf("native replay: reproduced=%v (%s)\n", nat, res[0].summary)
		repro = repro && nat
	}
	if repro {
		fmt.Printf("VIOLATION property=%s replay=%s\n", rec.Property, *file)
		return 1
	}
	return 0
}
