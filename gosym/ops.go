package main

import (
	"fmt"
	"go/constant"
	"go/token"
	"go/types"
	"math"
	"math/big"
	"strings"
	"unicode/utf8"

	"golang.org/x/tools/go/ssa"
)

func constantBool(c *ssa.Const) bool { return constant.BoolVal(c.Value) }
func constantBig(c *ssa.Const) *big.Int {
	v := constant.ToInt(c.Value)
	if v.Kind() != constant.Int {
		panic("constantBig: not int: " + c.String())
	}
	if i, ok := constant.Int64Val(v); ok {
		return big.NewInt(i)
	}
	b, _ := new(big.Int).SetString(v.ExactString(), 10)
	return b
}
func constantString(c *ssa.Const) string {
	if c.Value.Kind() == constant.String {
		return constant.StringVal(c.Value)
	}
	// string(rune const)
	i, _ := constant.Int64Val(constant.ToInt(c.Value))
	return string(rune(i))
}

// symIdxPtr is a pointer to base[idx] with a symbolic idx already proven in range.
type symIdxPtr struct {
	base []value
	idx  *Term
}

func isScalarVal(v value) bool {
	_, ok := v.(*Term)
	return ok
}

// mergeVals builds ite(c, a, b) for structurally equal scalar trees; ok=false if not mergeable.
func mergeVals(c *Term, a, b value) (value, bool) {
	switch a := a.(type) {
	case *Term:
		bt, ok := b.(*Term)
		if !ok || a.IsBool() != bt.IsBool() {
			return nil, false
		}
		return Ite(c, a, bt), true
	case bigVal:
		bb, ok := b.(bigVal)
		if !ok {
			return nil, false
		}
		return bigVal{Ite(c, a.t, bb.t)}, true
	case u256Val:
		bb, ok := b.(u256Val)
		if !ok {
			return nil, false
		}
		return u256Val{Ite(c, a.t, bb.t)}, true
	case structure:
		bs, ok := b.(structure)
		if !ok || len(a) != len(bs) {
			return nil, false
		}
		r := make(structure, len(a))
		for i := range a {
			r[i], ok = mergeVals(c, a[i], bs[i])
			if !ok {
				return nil, false
			}
		}
		return r, true
	case array:
		bs, ok := b.(array)
		if !ok || len(a) != len(bs) {
			return nil, false
		}
		r := make(array, len(a))
		for i := range a {
			r[i], ok = mergeVals(c, a[i], bs[i])
			if !ok {
				return nil, false
			}
		}
		return r, true
	case string:
		if bs, ok := b.(string); ok && bs == a {
			return a, true
		}
		return nil, false
	case *value:
		if bp, ok := b.(*value); ok && bp == a {
			return a, true
		}
		return nil, false
	}
	return nil, false
}

func (c *Ctx) loadSymIdx(p symIdxPtr, pos token.Pos) value {
	// ite chain over the elements
	n := len(p.base)
	res := copyVal(p.base[n-1])
	for i := n - 2; i >= 0; i-- {
		m, ok := mergeVals(Eq(p.idx, CI(int64(i))), p.base[i], res)
		if !ok {
			cp := c.concretizeIdxPtr(p, pos)
			return load(cp)
		}
		res = m
	}
	return res
}

func (c *Ctx) concretizeIdxPtr(p symIdxPtr, pos token.Pos) *value {
	i := c.concretize(p.idx, "index", pos, 0, int64(len(p.base)-1))
	return &p.base[i]
}

func (c *Ctx) storeSymIdx(p symIdxPtr, v value, pos token.Pos) {
	// store as conditional update of every element when mergeable
	news := make([]value, len(p.base))
	for i := range p.base {
		m, ok := mergeVals(Eq(p.idx, CI(int64(i))), v, p.base[i])
		if !ok {
			cp := c.concretizeIdxPtr(p, pos)
			store(cp, v)
			return
		}
		news[i] = m
	}
	for i := range p.base {
		store(&p.base[i], news[i])
	}
}

// inRange checks 0 <= idx < n, forking a panic path when out of range is feasible.
func (c *Ctx) boundsCheck(idx *Term, n int, what string, pos token.Pos) {
	ok := And(Le(CI(0), idx), Lt(idx, CI(int64(n))))
	if !c.decideBool(ok, pos) {
		panic(tpanic(fmt.Sprintf("runtime error: %s out of range [%s] with length %d at %s", what, shortTerm(idx), n, c.posStr(pos))))
	}
}

func shortTerm(t *Term) string {
	s := t.String()
	if len(s) > 40 {
		return "sym"
	}
	return s
}

func (c *Ctx) indexAddr(fr *frame, instr *ssa.IndexAddr) value {
	x := fr.get(instr.X)
	idxv := fr.get(instr.Index)
	if p, ok := x.(poison); ok {
		return p
	}
	if p, ok := idxv.(poison); ok {
		return p
	}
	idx := asTerm(idxv)
	var base []value
	switch x := x.(type) {
	case []value:
		base = x
	case *value:
		if x == nil {
			panic(tpanic("nil pointer dereference (index) at " + c.posStr(instr.Pos())))
		}
		switch a := (*x).(type) {
		case array:
			base = a
		case u256Val:
			// materialise limbs: unsupported for writes; treat as unsupported
			c.unsupported("IndexAddr into uint256.Int limbs at %s", c.posStr(instr.Pos()))
		case poison:
			return a
		default:
			panic(fmt.Sprintf("IndexAddr: *%T", a))
		}
	case symIdxPtr:
		cp := c.concretizeIdxPtr(x, instr.Pos())
		base = (*cp).(array)
	default:
		panic(fmt.Sprintf("IndexAddr: %T", x))
	}
	if i, ok := concreteInt(idx); ok {
		if i < 0 || i >= int64(len(base)) {
			panic(tpanic(fmt.Sprintf("runtime error: index out of range [%d] with length %d at %s", i, len(base), c.posStr(instr.Pos()))))
		}
		return &base[i]
	}
	c.boundsCheck(idx, len(base), "index", instr.Pos())
	if len(base) == 1 {
		return &base[0]
	}
	return symIdxPtr{base, idx}
}

func (c *Ctx) index(fr *frame, instr *ssa.Index) value {
	x := fr.get(instr.X)
	idxv := fr.get(instr.Index)
	if p, ok := x.(poison); ok {
		return p
	}
	idx := asTerm(idxv)
	switch x := x.(type) {
	case array:
		if i, ok := concreteInt(idx); ok {
			if i < 0 || i >= int64(len(x)) {
				panic(tpanic(fmt.Sprintf("runtime error: index out of range [%d] with length %d", i, len(x))))
			}
			return copyVal(x[i])
		}
		c.boundsCheck(idx, len(x), "index", instr.Pos())
		return c.loadSymIdx(symIdxPtr{x, idx}, instr.Pos())
	case string, symStr:
		b := strBytes(x)
		if i, ok := concreteInt(idx); ok {
			if i < 0 || i >= int64(len(b)) {
				panic(tpanic(fmt.Sprintf("runtime error: index out of range [%d] with length %d", i, len(b))))
			}
			return b[i]
		}
		c.boundsCheck(idx, len(b), "index", instr.Pos())
		vals := make([]value, len(b))
		for i := range b {
			vals[i] = b[i]
		}
		return c.loadSymIdx(symIdxPtr{vals, idx}, instr.Pos())
	case u256Val:
		i, ok := concreteInt(idx)
		if !ok {
			c.unsupported("symbolic limb index of uint256")
		}
		return Mod(Div(x.t, CInt(Pow2(int(64*i)))), CInt(Pow2(64)))
	}
	panic(fmt.Sprintf("Index: %T", x))
}

func (c *Ctx) slice(fr *frame, instr *ssa.Slice, x, lo, hi, max value) value {
	if p, ok := x.(poison); ok {
		return p
	}
	var Len, Cap int
	switch x := x.(type) {
	case string:
		Len = len(x)
	case symStr:
		Len = len(x.b)
	case []value:
		Len, Cap = len(x), cap(x)
	case *value:
		if x == nil {
			panic(tpanic("nil pointer dereference (slice of array pointer) at " + c.posStr(instr.Pos())))
		}
		a := (*x).(array)
		Len, Cap = len(a), cap(a)
	default:
		panic(fmt.Sprintf("slice: %T", x))
	}
	_, isStr := x.(string)
	if _, ok := x.(symStr); ok {
		isStr = true
	}
	limit := Cap
	if isStr {
		limit = Len
	}
	l := int64(0)
	if lo != nil {
		l = c.concretize(lo, "slice low", instr.Pos(), 0, int64(limit))
	}
	h := int64(Len)
	if hi != nil {
		h = c.concretize(hi, "slice high", instr.Pos(), 0, int64(limit))
	}
	m := int64(Cap)
	if max != nil {
		m = c.concretize(max, "slice max", instr.Pos(), 0, int64(Cap))
	}
	if l < 0 || h < l || (isStr && h > int64(Len)) || (!isStr && (m < h || m > int64(Cap))) {
		panic(tpanic(fmt.Sprintf("runtime error: slice bounds out of range [%d:%d:%d] with length %d capacity %d at %s", l, h, m, Len, Cap, c.posStr(instr.Pos()))))
	}
	switch x := x.(type) {
	case string:
		return x[l:h]
	case symStr:
		return mkStr(x.b[l:h])
	case []value:
		return x[l:h:m]
	case *value:
		a := (*x).(array)
		return []value(a)[l:h:m]
	}
	panic("unreachable")
}

// concretize turns a (possibly symbolic) int into a concrete one by case-splitting over
// its feasible values in [lo,hi]; values outside are explored as one extra alternative each side.
func (c *Ctx) concretize(v value, what string, pos token.Pos, lo, hi int64) int64 {
	if _, ok := v.(poison); ok {
		c.unsupported("poison value used as %s", what)
	}
	t := asTerm(v)
	if i, ok := concreteInt(t); ok {
		return i
	}
	if t.Op == OpConst {
		// huge constant
		if t.Val.Sign() < 0 {
			return -1
		}
		return math.MaxInt64
	}
	narrowed := false
	fullHi := hi
	if hi-lo > int64(c.h.maxSplit) {
		// the interval is too wide to enumerate; enumerate the first maxSplit values and let the
		// solver say whether anything above them is feasible on this path (it often is not: the
		// code has just compared the value with a length)
		hi = lo + int64(c.h.maxSplit)
		narrowed = true
	}
	n := int(hi - lo + 1)
	conds := make([]*Term, 0, n+2)
	for i := 0; i < n; i++ {
		conds = append(conds, Eq(t, CI(lo+int64(i))))
	}
	conds = append(conds, Lt(t, CI(lo)), Gt(t, CI(hi)))
	k := c.decide(conds, pos)
	switch {
	case k < n:
		return lo + int64(k)
	case k == n:
		return lo - 1
	default:
		if narrowed {
			c.unsupported("case split of %s over %d values exceeds bound %d at %s", what, fullHi-lo+1, c.h.maxSplit, c.posStr(pos))
		}
		return hi + 1
	}
}

func (c *Ctx) unop(fr *frame, instr *ssa.UnOp, x value) value {
	if p, ok := x.(poison); ok {
		if instr.Op == token.MUL && !c.tolerant {
			c.unsupported("load through poison pointer at %s", c.posStr(instr.Pos()))
		}
		return p
	}
	switch instr.Op {
	case token.ARROW:
		ch := x.(*chanVal)
		if ch == nil || len(ch.q) == 0 {
			c.unsupported("receive on empty/nil channel at %s", c.posStr(instr.Pos()))
		}
		v := ch.q[0]
		ch.q = ch.q[1:]
		if instr.CommaOk {
			return tuple{v, TTrue}
		}
		return v
	case token.MUL:
		switch p := x.(type) {
		case *value:
			if p == nil {
				panic(tpanic("nil pointer dereference (load) at " + c.posStr(instr.Pos())))
			}
			return load(p)
		case symIdxPtr:
			return c.loadSymIdx(p, instr.Pos())
		}
		panic(fmt.Sprintf("load from %T", x))
	case token.SUB:
		switch x := x.(type) {
		case *Term:
			k, _ := intKindOf(instr.X.Type())
			return wrap(Neg(x), k)
		case float64:
			return -x
		}
	case token.NOT:
		return Not(asTerm(x))
	case token.XOR:
		k, _ := intKindOf(instr.X.Type())
		t := asTerm(x)
		if k.signed {
			return Sub(CI(-1), t) // ^x = -x-1
		}
		return Sub(CInt(k.hi()), t)
	}
	panic(fmt.Sprintf("invalid unary op %s %T", instr.Op, x))
}

func (c *Ctx) truncDiv(a, b *Term) *Term {
	if a.nonNeg() && b.nonNeg() {
		return Div(a, b)
	}
	na, nb := Neg(a), Neg(b)
	return Ite(Ge(a, CI(0)),
		Ite(Gt(b, CI(0)), Div(a, b), Neg(Div(a, nb))),
		Ite(Gt(b, CI(0)), Neg(Div(na, b)), Div(na, nb)))
}

func toUnsigned(t *Term, k intKind) *Term {
	if !k.signed {
		return t
	}
	return Mod(t, CInt(Pow2(k.w)))
}
func fromUnsigned(t *Term, k intKind) *Term {
	if !k.signed {
		return t
	}
	return wrap(t, k)
}

func (c *Ctx) shiftAmount(y value, yT types.Type) *Term {
	return asTerm(y)
}

func (c *Ctx) binop(op token.Token, t types.Type, x, y value, pos token.Pos) value {
	if p, ok := x.(poison); ok {
		return p
	}
	if p, ok := y.(poison); ok {
		return p
	}
	switch op {
	case token.EQL:
		return c.equals(t, x, y)
	case token.NEQ:
		return Not(c.equals(t, x, y))
	}
	switch xv := x.(type) {
	case *Term:
		yv := asTerm(y)
		if xv.IsBool() {
			switch op {
			case token.LAND, token.AND:
				return And(xv, yv)
			case token.LOR, token.OR:
				return Or(xv, yv)
			}
			panic("bool binop " + op.String())
		}
		k, ok := intKindOf(t)
		if !ok {
			panic(fmt.Sprintf("binop %s on non-int type %s", op, t))
		}
		switch op {
		case token.ADD:
			return wrap(Add(xv, yv), k)
		case token.SUB:
			return wrap(Sub(xv, yv), k)
		case token.MUL:
			return wrap(Mul(xv, yv), k)
		case token.QUO, token.REM:
			if !c.decideBool(Not(Eq(yv, CI(0))), pos) {
				panic(tpanic("runtime error: integer divide by zero at " + c.posStr(pos)))
			}
			if !k.signed {
				if op == token.QUO {
					return Div(xv, yv)
				}
				return Mod(xv, yv)
			}
			q := c.truncDiv(xv, yv)
			if op == token.QUO {
				return wrap(q, k)
			}
			return wrap(Sub(xv, Mul(yv, q)), k)
		case token.AND, token.OR, token.XOR:
			o := map[token.Token]Op{token.AND: OpBvAnd, token.OR: OpBvOr, token.XOR: OpBvXor}[op]
			return fromUnsigned(bvop(o, k.w, toUnsigned(xv, k), toUnsigned(yv, k)), k)
		case token.AND_NOT:
			ny := Sub(CInt(new(big.Int).Sub(Pow2(k.w), bigOne)), toUnsigned(yv, k))
			return fromUnsigned(bvop(OpBvAnd, k.w, toUnsigned(xv, k), ny), k)
		case token.SHL:
			if s, ok := concreteInt(yv); ok {
				if s < 0 {
					panic(tpanic("negative shift amount"))
				}
				if s >= int64(k.w) {
					return CI(0)
				}
				return wrap(Mul(xv, CInt(Pow2(int(s)))), k)
			}
			if yv.Op == OpConst {
				return CI(0)
			}
			// symbolic shift: ite chain
			res := value(CI(0))
			r := res.(*Term)
			for s := k.w - 1; s >= 0; s-- {
				r = Ite(Eq(yv, CI(int64(s))), wrap(Mul(xv, CInt(Pow2(s))), k), r)
			}
			return r
		case token.SHR:
			if s, ok := concreteInt(yv); ok {
				if s < 0 {
					panic(tpanic("negative shift amount"))
				}
				if s >= int64(k.w) {
					if k.signed {
						return Ite(Lt(xv, CI(0)), CI(-1), CI(0))
					}
					return CI(0)
				}
				return Div(xv, CInt(Pow2(int(s)))) // euclidean div by positive = floor = arithmetic shift
			}
			if yv.Op == OpConst {
				if k.signed {
					return Ite(Lt(xv, CI(0)), CI(-1), CI(0))
				}
				return CI(0)
			}
			var r *Term = CI(0)
			if k.signed {
				r = Ite(Lt(xv, CI(0)), CI(-1), CI(0))
			}
			for s := k.w - 1; s >= 0; s-- {
				r = Ite(Eq(yv, CI(int64(s))), Div(xv, CInt(Pow2(s))), r)
			}
			return r
		case token.LSS:
			return Lt(xv, yv)
		case token.LEQ:
			return Le(xv, yv)
		case token.GTR:
			return Gt(xv, yv)
		case token.GEQ:
			return Ge(xv, yv)
		}
	case float64:
		yv := y.(float64)
		switch op {
		case token.ADD:
			return xv + yv
		case token.SUB:
			return xv - yv
		case token.MUL:
			return xv * yv
		case token.QUO:
			return xv / yv
		case token.LSS:
			return CB(xv < yv)
		case token.LEQ:
			return CB(xv <= yv)
		case token.GTR:
			return CB(xv > yv)
		case token.GEQ:
			return CB(xv >= yv)
		}
	case string, symStr:
		switch op {
		case token.ADD:
			xs, ok1 := x.(string)
			ys, ok2 := y.(string)
			if ok1 && ok2 {
				return xs + ys
			}
			return mkStr(append(append([]*Term{}, strBytes(x)...), strBytes(y)...))
		case token.LSS, token.LEQ, token.GTR, token.GEQ:
			xs, ok1 := x.(string)
			ys, ok2 := y.(string)
			if ok1 && ok2 {
				switch op {
				case token.LSS:
					return CB(xs < ys)
				case token.LEQ:
					return CB(xs <= ys)
				case token.GTR:
					return CB(xs > ys)
				default:
					return CB(xs >= ys)
				}
			}
			lt := bytesLess(strBytes(x), strBytes(y))
			eq := bytesEq(strBytes(x), strBytes(y))
			switch op {
			case token.LSS:
				return lt
			case token.LEQ:
				return Or(lt, eq)
			case token.GTR:
				return Not(Or(lt, eq))
			default:
				return Not(lt)
			}
		}
	}
	panic(fmt.Sprintf("invalid binary op: %T %s %T (type %s)", x, op, y, t))
}

func bytesEq(a, b []*Term) *Term {
	if len(a) != len(b) {
		return TFalse
	}
	if len(a) > 1 {
		if x, ok := Collapse(a); ok {
			if y, ok2 := Collapse(b); ok2 && !(x.Op == OpConst && y.Op == OpConst) {
				return Eq(x, y)
			}
		}
	}
	r := TTrue
	for i := range a {
		r = And(r, Eq(a[i], b[i]))
		if r == TFalse {
			return r
		}
	}
	return r
}

// bytesLess: lexicographic a < b
func bytesLess(a, b []*Term) *Term {
	n := len(a)
	if len(b) < n {
		n = len(b)
	}
	var r *Term = CB(len(a) < len(b))
	for i := n - 1; i >= 0; i-- {
		r = Or(Lt(a[i], b[i]), And(Eq(a[i], b[i]), r))
	}
	return r
}

func (c *Ctx) equals(t types.Type, x, y value) *Term {
	switch xv := x.(type) {
	case *Term:
		yv, ok := y.(*Term)
		if !ok {
			panic(fmt.Sprintf("equals: *Term vs %T", y))
		}
		return Eq(xv, yv)
	case float64:
		return CB(xv == y.(float64))
	case string:
		if ys, ok := y.(string); ok {
			return CB(xv == ys)
		}
		return bytesEq(strBytes(x), strBytes(y))
	case symStr:
		return bytesEq(strBytes(x), strBytes(y))
	case bigVal:
		return Eq(xv.t, y.(bigVal).t)
	case u256Val:
		return Eq(xv.t, y.(u256Val).t)
	case structure:
		ys := y.(structure)
		r := TTrue
		st, _ := t.Underlying().(*types.Struct)
		for i := range xv {
			var ft types.Type
			if st != nil {
				if st.Field(i).Name() == "_" {
					continue
				}
				ft = st.Field(i).Type()
			}
			r = And(r, c.equals(ft, xv[i], ys[i]))
			if r == TFalse {
				return r
			}
		}
		return r
	case array:
		ys := y.(array)
		if len(xv) > 1 && len(xv) == len(ys) {
			if _, isT := xv[0].(*Term); isT && !xv[0].(*Term).IsBool() {
				allT := true
				for i := range xv {
					_, ok1 := xv[i].(*Term)
					_, ok2 := ys[i].(*Term)
					if !ok1 || !ok2 {
						allT = false
						break
					}
				}
				if allT && byteArrayType(t) {
					return bytesEq(valsTerms(xv), valsTerms(ys))
				}
			}
		}
		r := TTrue
		var et types.Type
		if at, ok := t.Underlying().(*types.Array); ok && t != nil {
			et = at.Elem()
		}
		for i := range xv {
			r = And(r, c.equals(et, xv[i], ys[i]))
			if r == TFalse {
				return r
			}
		}
		return r
	case *value:
		yp, ok := y.(*value)
		if !ok {
			panic(fmt.Sprintf("equals: ptr vs %T", y))
		}
		return CB(xv == yp)
	case symIdxPtr:
		c.unsupported("comparison of symbolic-index pointers")
	case iface:
		yi := y.(iface)
		if xv.t == nil || yi.t == nil {
			return CB(xv.t == nil && yi.t == nil)
		}
		if !types.Identical(xv.t, yi.t) {
			return TFalse
		}
		if !types.Comparable(xv.t) {
			panic(tpanic("runtime error: comparing uncomparable type " + xv.t.String()))
		}
		return c.equals(xv.t, xv.v, yi.v)
	case *mapVal:
		return CB(xv == nil && isNilLike(y) || isNilLike(x) && y.(*mapVal) == nil)
	case []value:
		// only comparable to nil
		ys := y.([]value)
		return CB(xv == nil && ys == nil)
	case *ssa.Function:
		if yf, ok := y.(*ssa.Function); ok {
			return CB(xv == yf)
		}
		return CB(false)
	case *closure:
		if yf, ok := y.(*ssa.Function); ok && yf == nil {
			return TFalse
		}
		return CB(x == y)
	case *chanVal:
		return CB(xv == y.(*chanVal))
	case nil:
		return CB(y == nil)
	}
	panic(fmt.Sprintf("equals: unhandled %T vs %T", x, y))
}

func isNilLike(v value) bool {
	switch v := v.(type) {
	case *mapVal:
		return v == nil
	case *value:
		return v == nil
	case []value:
		return v == nil
	case nil:
		return true
	}
	return false
}

func (c *Ctx) conv(tdst, tsrc types.Type, x value) value {
	if p, ok := x.(poison); ok {
		return p
	}
	ud, us := tdst.Underlying(), tsrc.Underlying()
	// named/unnamed structurally identical
	switch ud := ud.(type) {
	case *types.Pointer, *types.Struct, *types.Array, *types.Map, *types.Chan, *types.Signature, *types.Interface:
		return x
	case *types.Slice:
		switch xs := x.(type) {
		case string, symStr:
			// string -> []byte / []rune
			if e, ok := ud.Elem().Underlying().(*types.Basic); ok && e.Kind() == types.Uint8 {
				b := strBytes(xs)
				r := make([]value, len(b))
				for i := range b {
					r[i] = b[i]
				}
				return r
			}
			if s, ok := xs.(string); ok {
				var r []value
				for _, ru := range s {
					r = append(r, CI(int64(ru)))
				}
				if r == nil {
					r = []value{}
				}
				return r
			}
			c.unsupported("[]rune(symbolic string)")
		}
		return x
	case *types.Basic:
		if ud.Kind() == types.UnsafePointer {
			return x
		}
		if ud.Info()&types.IsString != 0 {
			switch xs := x.(type) {
			case string, symStr:
				return xs
			case []value:
				// []byte or []rune -> string
				if e, ok := us.(*types.Slice).Elem().Underlying().(*types.Basic); ok && e.Kind() == types.Uint8 {
					b := make([]*Term, len(xs))
					for i := range xs {
						b[i] = asTerm(xs[i])
					}
					return mkStr(b)
				}
				var sb strings.Builder
				for _, r := range xs {
					i, ok := concreteInt(r)
					if !ok {
						c.unsupported("string([]rune) symbolic")
					}
					sb.WriteRune(rune(i))
				}
				return sb.String()
			case *Term:
				i, ok := concreteInt(xs)
				if !ok {
					c.unsupported("string(symbolic int)")
				}
				return string(rune(i))
			}
		}
		if k, ok := intKindOf(tdst); ok {
			switch xs := x.(type) {
			case *Term:
				return wrap(xs, k)
			case float64:
				f := math.Trunc(xs)
				bf := new(big.Float).SetFloat64(f)
				bi, _ := bf.Int(nil)
				return wrap(CInt(bi), k)
			}
		}
		if ud.Info()&types.IsFloat != 0 {
			switch xs := x.(type) {
			case float64:
				if ud.Kind() == types.Float32 {
					return float64(float32(xs))
				}
				return xs
			case *Term:
				if xs.Op != OpConst {
					c.unsupported("float(symbolic int)")
				}
				f, _ := new(big.Float).SetInt(xs.Val).Float64()
				if ud.Kind() == types.Float32 {
					return float64(float32(f))
				}
				return f
			}
		}
		if ud.Info()&types.IsBoolean != 0 {
			return x
		}
	}
	panic(fmt.Sprintf("unsupported conversion: %s -> %s (%T)", tsrc, tdst, x))
}

func (c *Ctx) typeAssert(instr *ssa.TypeAssert, xv value) value {
	if p, ok := xv.(poison); ok {
		return p
	}
	itf := xv.(iface)
	var v value
	err := ""
	if idst, ok := instr.AssertedType.Underlying().(*types.Interface); ok {
		v = itf
		if itf.t == nil {
			err = fmt.Sprintf("interface conversion: interface is nil, not %s", instr.AssertedType)
		} else if meth, _ := types.MissingMethod(itf.t, idst, true); meth != nil {
			err = fmt.Sprintf("interface conversion: %v is not %v: missing method %s", itf.t, idst, meth.Name())
		}
	} else if itf.t != nil && types.Identical(itf.t, instr.AssertedType) {
		v = itf.v
	} else {
		err = fmt.Sprintf("interface conversion: interface is %s, not %s", itf.t, instr.AssertedType)
	}
	if err != "" {
		if !instr.CommaOk {
			panic(tpanic(err + " at " + c.posStr(instr.Pos())))
		}
		return tuple{zero(instr.AssertedType), TFalse}
	}
	if instr.CommaOk {
		return tuple{v, TTrue}
	}
	return v
}

func (c *Ctx) callBuiltin(caller *frame, callpos token.Pos, fn *ssa.Builtin, args []value) value {
	for _, a := range args {
		if p, ok := a.(poison); ok {
			return p
		}
	}
	switch fn.Name() {
	case "append":
		if len(args) == 1 {
			return args[0]
		}
		switch s := args[1].(type) {
		case string, symStr:
			b := strBytes(s)
			vs := make([]value, len(b))
			for i := range b {
				vs[i] = b[i]
			}
			return appendVals(args[0].([]value), vs)
		}
		return appendVals(args[0].([]value), args[1].([]value))

	case "copy":
		dst := args[0].([]value)
		var src []value
		switch s := args[1].(type) {
		case string, symStr:
			b := strBytes(s)
			src = make([]value, len(b))
			for i := range b {
				src[i] = b[i]
			}
		default:
			src = s.([]value)
		}
		n := len(dst)
		if len(src) < n {
			n = len(src)
		}
		// overlapping-safe
		tmp := make([]value, n)
		for i := 0; i < n; i++ {
			tmp[i] = copyVal(src[i])
		}
		for i := 0; i < n; i++ {
			store(&dst[i], tmp[i])
		}
		return CI(int64(n))

	case "close":
		return nil

	case "delete":
		m := args[0].(*mapVal)
		if m != nil {
			c.mapDelete(m, args[1])
		}
		return nil

	case "clear":
		switch x := args[0].(type) {
		case *mapVal:
			if x != nil {
				x.clear()
			}
		case []value:
			c.unsupported("clear(slice)")
		}
		return nil

	case "print", "println":
		return nil

	case "len":
		switch x := args[0].(type) {
		case string:
			return CI(int64(len(x)))
		case symStr:
			return CI(int64(len(x.b)))
		case array:
			return CI(int64(len(x)))
		case *value:
			if x == nil {
				// len of nil *array is the array length statically; SSA passes the pointer
				t := fn.Type().(*types.Signature).Params().At(0).Type()
				return CI(deref(t).Underlying().(*types.Array).Len())
			}
			return CI(int64(len((*x).(array))))
		case []value:
			return CI(int64(len(x)))
		case *mapVal:
			if x == nil {
				return CI(0)
			}
			return c.mapLen(x)
		case *chanVal:
			if x == nil {
				return CI(0)
			}
			return CI(int64(len(x.q)))
		}
		panic(fmt.Sprintf("len: %T", args[0]))

	case "cap":
		switch x := args[0].(type) {
		case array:
			return CI(int64(cap(x)))
		case *value:
			return CI(int64(cap((*x).(array))))
		case []value:
			return CI(int64(cap(x)))
		case *chanVal:
			if x == nil {
				return CI(0)
			}
			return CI(int64(x.cap))
		}
		panic(fmt.Sprintf("cap: %T", args[0]))

	case "min", "max":
		acc := args[0]
		for _, a := range args[1:] {
			switch x := acc.(type) {
			case *Term:
				y := asTerm(a)
				if fn.Name() == "min" {
					acc = Ite(Le(x, y), x, y)
				} else {
					acc = Ite(Ge(x, y), x, y)
				}
			case float64:
				if fn.Name() == "min" {
					acc = math.Min(x, a.(float64))
				} else {
					acc = math.Max(x, a.(float64))
				}
			default:
				c.unsupported("min/max on %T", acc)
			}
		}
		return acc

	case "real", "imag", "complex":
		c.unsupported("complex numbers")

	case "panic":
		panic(targetPanic{v: args[0], msg: "panic: " + c.panicString(args[0]) + " at " + c.posStr(callpos)})

	case "recover":
		return c.doRecover(caller)

	case "ssa:wrapnilchk":
		recv := args[0]
		if p, ok := recv.(*value); ok && p == nil {
			panic(tpanic(fmt.Sprintf("value method %s.%s called using nil pointer", toDebug(args[1]), toDebug(args[2]))))
		}
		return recv

	case "ssa:deferstack":
		return nil
	}
	panic("unknown built-in: " + fn.Name())
}

func appendVals(a, b []value) []value {
	if len(b) == 0 {
		return a
	}
	nb := make([]value, len(b))
	for i := range b {
		nb[i] = copyVal(b[i])
	}
	return append(a, nb...)
}

// ---- range ----

type iter interface {
	next(c *Ctx) tuple
}

type stringIter struct {
	s   string
	pos int
}

func (it *stringIter) next(c *Ctx) tuple {
	if it.pos >= len(it.s) {
		return tuple{TFalse, CI(0), CI(0)}
	}
	r, n := utf8.DecodeRuneInString(it.s[it.pos:])
	p := it.pos
	it.pos += n
	return tuple{TTrue, CI(int64(p)), CI(int64(r))}
}

func (c *Ctx) rangeIter(x value, t types.Type) iter {
	switch x := x.(type) {
	case *mapVal:
		return c.newMapIter(x)
	case string:
		return &stringIter{s: x}
	case symStr:
		c.unsupported("range over symbolic string")
	}
	panic(fmt.Sprintf("cannot range over %T", x))
}

func valsTerms(vs []value) []*Term {
	r := make([]*Term, len(vs))
	for i := range vs {
		r[i] = vs[i].(*Term)
	}
	return r
}

func byteArrayType(t types.Type) bool {
	if t == nil {
		return false
	}
	at, ok := t.Underlying().(*types.Array)
	if !ok {
		return false
	}
	b, ok := at.Elem().Underlying().(*types.Basic)
	return ok && b.Kind() == types.Uint8
}
