module gosym

go 1.23.4

toolchain go1.23.5

require (
	github.com/dominant-strategies/go-quai v0.0.0
	golang.org/x/crypto v0.38.0
	golang.org/x/tools v0.29.0
	lukechampine.com/blake3 v1.2.1
	modernc.org/mathutil v1.6.0
)

require (
	github.com/klauspost/cpuid/v2 v2.2.5 // indirect
	github.com/remyoudompheng/bigfft v0.0.0-20230129092748-24d4a6f8daec // indirect
	golang.org/x/mod v0.22.0 // indirect
	golang.org/x/sync v0.14.0 // indirect
	golang.org/x/sys v0.33.0 // indirect
)

replace github.com/dominant-strategies/go-quai => /repo
