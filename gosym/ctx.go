package main

import (
	"fmt"
	"go/token"
	"math/big"
	"os"
	"regexp"
	"runtime/debug"
	"strings"

	"golang.org/x/tools/go/ssa"
)

// Ctx is the state of one path execution (re-execution based exploration: every path is run
// from the harness entry with a decision prefix; see DESIGN 2.1 and explore.go).
type Ctx struct {
	eng    *Engine
	h      *Harness
	solver *Solver

	prefix   []int // decisions to replay
	dpos     int
	taken    []int    // decisions taken so far on this path
	alts     [][]int  // new work discovered: full decision vectors
	pc       []*Term  // path condition conjuncts
	model    *Model   // some model of pc (nil = unknown)
	vars     []*Term  // declared symbolic variables in creation order
	varNames map[string]int

	concrete *Model // replay mode: nondet values come from here
	tolerant bool   // inside package init
	trace    bool
	trace2   bool

	steps    int
	maxSteps int

	globals  map[*ssa.Global]*value
	pkgInit  map[*ssa.Package]bool
	onceDone map[*value]bool

	results  []AssertResult
	reached  map[string]bool
	facts    []string
	ufApps   map[string][]ufApp
	injective map[string]bool
	specDepth int
	noMerge   bool
	mergeOK, mergeFail int
	frozen   map[*value]bool
	pendingGo []pendingGo
	hashBuf  map[*value][]*Term
	protoTab []protoRec
	cover    map[*ssa.Function]bool
	notes    []string
	assumes  int
}

type ufApp struct {
	args []*Term
	res  []*Term
}

type AssertResult struct {
	Label   string
	Status  string // held | violated | unknown | trivially-held
	Model   *Model
	Facts   []string
	Pos     string
	Detail  string
	Decs    []int
}

var forkStats = os.Getenv("GOSYM_FORKSTATS") != ""

var nameSan = regexp.MustCompile(`[^A-Za-z0-9_.]`)

func (c *Ctx) freshName(tag string) string {
	tag = nameSan.ReplaceAllString(tag, "_")
	if tag == "" {
		tag = "v"
	}
	n := c.varNames[tag]
	c.varNames[tag] = n + 1
	if n == 0 {
		return tag
	}
	return fmt.Sprintf("%s.%d", tag, n)
}

func (c *Ctx) newIntVar(tag string, lo, hi *big.Int) *Term {
	name := c.freshName(tag)
	if c.concrete != nil {
		if v, ok := c.concrete.Ints[name]; ok {
			return CInt(v)
		}
		// not in model: unconstrained, choose lo or 0
		if lo != nil {
			return CInt(lo)
		}
		return CI(0)
	}
	v := NewVar(name, lo, hi)
	c.vars = append(c.vars, v)
	if c.solver != nil {
		c.solver.Declare(v)
	}
	return v
}

func (c *Ctx) newBoolVar(tag string) *Term {
	name := c.freshName(tag)
	if c.concrete != nil {
		return CB(c.concrete.Bools[name])
	}
	v := NewBVar(name)
	c.vars = append(c.vars, v)
	if c.solver != nil {
		c.solver.Declare(v)
	}
	return v
}

// refineFromCond narrows the static interval of variables constrained by a condition that has just
// become part of the path condition. Variables are per-path objects, so this is sound for every
// later use on this path (terms built earlier simply keep their looser derived intervals).
func refineFromCond(t *Term, positive bool) {
	switch t.Op {
	case OpNot:
		refineFromCond(t.Args[0], !positive)
	case OpAnd:
		if positive {
			refineFromCond(t.Args[0], true)
			refineFromCond(t.Args[1], true)
		}
	case OpOr:
		if !positive {
			refineFromCond(t.Args[0], false)
			refineFromCond(t.Args[1], false)
		}
	case OpLt, OpLe, OpEq:
		a, b := t.Args[0], t.Args[1]
		setHi := func(v *Term, h *big.Int) {
			if v.Hi == nil || h.Cmp(v.Hi) < 0 {
				v.Hi = h
			}
		}
		setLo := func(v *Term, l *big.Int) {
			if v.Lo == nil || l.Cmp(v.Lo) > 0 {
				v.Lo = l
			}
		}
		one := bigOne
		switch {
		case a.Op == OpVar && b.Op == OpConst:
			switch {
			case t.Op == OpEq && positive:
				setLo(a, b.Val)
				setHi(a, b.Val)
			case t.Op == OpEq && !positive:
				if a.Lo != nil && a.Lo.Cmp(b.Val) == 0 {
					a.Lo = new(big.Int).Add(b.Val, one)
				} else if a.Hi != nil && a.Hi.Cmp(b.Val) == 0 {
					a.Hi = new(big.Int).Sub(b.Val, one)
				}
			case t.Op == OpLt && positive:
				setHi(a, new(big.Int).Sub(b.Val, one))
			case t.Op == OpLt && !positive:
				setLo(a, b.Val)
			case t.Op == OpLe && positive:
				setHi(a, b.Val)
			case t.Op == OpLe && !positive:
				setLo(a, new(big.Int).Add(b.Val, one))
			}
		case b.Op == OpVar && a.Op == OpConst:
			switch {
			case t.Op == OpEq && positive:
				setLo(b, a.Val)
				setHi(b, a.Val)
			case t.Op == OpLt && positive: // a < b
				setLo(b, new(big.Int).Add(a.Val, one))
			case t.Op == OpLt && !positive: // a >= b
				setHi(b, a.Val)
			case t.Op == OpLe && positive: // a <= b
				setLo(b, a.Val)
			case t.Op == OpLe && !positive: // a > b
				setHi(b, new(big.Int).Sub(a.Val, one))
			}
		}
	}
}

func (c *Ctx) addPC(t *Term) {
	if t == TTrue {
		return
	}
	refineFromCond(t, true)
	c.pc = append(c.pc, t)
	if c.solver != nil {
		c.solver.Assert(t)
	}
}

// check asks whether pc ∧ extra is satisfiable.
func (c *Ctx) check(extra *Term) (SatResult, *Model) {
	if extra == TFalse {
		return Unsat, nil
	}
	if c.solver == nil {
		panic("check without solver")
	}
	return c.solver.Check(extra, c.vars, true)
}

// decide picks one of mutually exclusive, jointly exhaustive alternatives.
func (c *Ctx) decide(conds []*Term, pos token.Pos) int {
	// constant alternatives
	for i, cd := range conds {
		if cd == TTrue {
			return i
		}
	}
	if c.specDepth > 0 {
		panic(specAbort{"decision needed"})
	}
	if c.concrete != nil {
		for i, cd := range conds {
			if cd.IsConst() && cd.B {
				return i
			}
		}
		panic(pathAbort{"inconclusive", "concrete replay reached a symbolic decision at " + c.posStr(pos)})
	}
	if c.tolerant {
		c.unsupported("symbolic decision during package initialisation")
	}
	if c.dpos < len(c.prefix) {
		k := c.prefix[c.dpos]
		c.dpos++
		c.taken = append(c.taken, k)
		c.addPC(conds[k])
		c.model = nil
		return k
	}
	if len(c.taken) >= c.h.maxDecisions {
		panic(pathAbort{"bound", fmt.Sprintf("decision bound %d exceeded at %s", c.h.maxDecisions, c.posStr(pos))})
	}
	// explore: find feasible alternatives
	chosen := -1
	var chosenModel *Model
	nUnknown := 0
	// use cached model to identify one feasible alternative for free
	known := make([]int, len(conds)) // 0 unknown, 1 feasible, -1 infeasible
	if c.model != nil {
		for i, cd := range conds {
			if cd == TFalse {
				known[i] = -1
				continue
			}
			if b, ok := c.model.TryEvalBool(cd); ok && b {
				known[i] = 1
				break
			}
		}
	}
	var models = make([]*Model, len(conds))
	nInfeasible := 0
	if len(conds) > 6 {
		// many alternatives (case split of a length or index): instead of one query per
		// alternative, ask for a model of the disjunction of the undecided ones; every alternative
		// true under the model is feasible; when the disjunction is unsat all of them are infeasible.
		for round := 0; round <= len(conds); round++ {
			var rest []*Term
			for i, cd := range conds {
				if cd == TFalse {
					known[i] = -1
				}
				if known[i] == 0 {
					rest = append(rest, cd)
				}
			}
			if len(rest) == 0 {
				break
			}
			disj := TFalse
			for _, cd := range rest {
				disj = Or(disj, cd)
			}
			r, m := c.check(disj)
			if r == Unsat {
				for i := range conds {
					if known[i] == 0 {
						known[i] = -1
					}
				}
				break
			}
			if r != Sat || m == nil {
				break // fall back to one query per alternative below
			}
			progress := false
			for i, cd := range conds {
				if known[i] == 0 {
					if b, ok := m.TryEvalBool(cd); ok && b {
						known[i] = 1
						models[i] = m
						progress = true
					}
				}
			}
			if !progress {
				break
			}
		}
	}
	for i, cd := range conds {
		if cd == TFalse {
			known[i] = -1
		}
		if known[i] == 1 && models[i] == nil {
			models[i] = c.model
		}
		if known[i] == 0 {
			// if all others infeasible, this one must be feasible (pc is feasible, alternatives exhaustive)
			if i == len(conds)-1 && nInfeasible == len(conds)-1 && c.h.trustExhaustive {
				known[i] = 1
				models[i] = nil
			} else {
				r, m := c.check(cd)
				switch r {
				case Sat:
					known[i] = 1
					models[i] = m
				case Unsat:
					known[i] = -1
				default:
					known[i] = 1 // unknown => keep the side (DESIGN 2.1)
					nUnknown++
					where := c.posStr(pos)
					if pos == token.NoPos && os.Getenv("GOSYM_DEBUG") != "" {
						st := string(debug.Stack())
						if len(st) > 1500 {
							st = st[:1500]
						}
						where += " " + st
					}
					c.notes = append(c.notes, "feasibility unknown at "+where)
				}
			}
		}
		if known[i] == -1 {
			nInfeasible++
		}
	}
	for i := range conds {
		if known[i] == 1 {
			if chosen < 0 {
				chosen = i
				chosenModel = models[i]
			} else {
				alt := append(append([]int{}, c.taken...), i)
				c.alts = append(c.alts, alt)
			}
		}
	}
	if chosen < 0 {
		panic(pathAbort{"infeasible", "no feasible alternative at " + c.posStr(pos)})
	}
	if forkStats {
		nf := 0
		for i := range conds {
			if known[i] == 1 {
				nf++
			}
		}
		if nf > 1 {
			c.notes = append(c.notes, fmt.Sprintf("fork x%d at %s", nf, c.posStr(pos)))
		}
	}
	c.taken = append(c.taken, chosen)
	c.addPC(conds[chosen])
	c.model = chosenModel
	return chosen
}

func (c *Ctx) decideBool(cond *Term, pos token.Pos) bool {
	if cond.Op == OpBConst {
		return cond.B
	}
	return c.decide([]*Term{cond, Not(cond)}, pos) == 0
}

// decideFree picks among n unconditional alternatives (e.g. map iteration orders).
func (c *Ctx) decideFree(n int) int {
	if c.specDepth > 0 {
		panic(specAbort{"decision needed"})
	}
	if c.concrete != nil {
		return 0
	}
	if c.dpos < len(c.prefix) {
		k := c.prefix[c.dpos]
		c.dpos++
		c.taken = append(c.taken, k)
		return k
	}
	for i := 1; i < n; i++ {
		c.alts = append(c.alts, append(append([]int{}, c.taken...), i))
	}
	c.taken = append(c.taken, 0)
	return 0
}

// ---- harness primitives ----

func (c *Ctx) assume(t *Term, pos token.Pos) {
	c.assumes++
	if t == TTrue {
		return
	}
	if t == TFalse {
		panic(pathAbort{"infeasible", "assume(false)"})
	}
	if c.concrete != nil {
		panic(pathAbort{"inconclusive", "symbolic assume in concrete replay"})
	}
	if c.dpos < len(c.prefix) {
		// replaying: assumption was feasible when first seen
		c.addPC(t)
		c.model = nil
		return
	}
	if c.model != nil {
		if b, ok := c.model.TryEvalBool(t); ok && b {
			c.addPC(t)
			return
		}
	}
	r, m := c.check(t)
	if r == Unsat {
		panic(pathAbort{"infeasible", "assumption infeasible at " + c.posStr(pos)})
	}
	c.addPC(t)
	c.model = m
	if r == Unknown {
		c.notes = append(c.notes, "assume feasibility unknown at "+c.posStr(pos))
	}
}

func (c *Ctx) assert(label string, t *Term, pos token.Pos) {
	res := AssertResult{Label: label, Pos: c.posStr(pos), Facts: append([]string{}, c.facts...), Decs: append([]int{}, c.taken...)}
	if c.dpos < len(c.prefix) {
		// this assertion was already decided by the path that discovered the prefix
		c.addPC(t)
		c.model = nil
		return
	}
	switch {
	case t == TTrue:
		res.Status = "trivially-held"
	case t == TFalse:
		res.Status = "violated"
		if c.concrete == nil {
			if c.model == nil {
				_, m := c.check(TTrue)
				c.model = m
			}
			res.Model = c.model
		}
	default:
		if c.concrete != nil {
			panic(pathAbort{"inconclusive", "symbolic assertion in concrete replay"})
		}
		r, m := c.check(Not(t))
		switch r {
		case Unsat:
			res.Status = "held"
		case Sat:
			res.Status = "violated"
			res.Model = m
			// prefer a counterexample with small input values (uninterpreted functions such as
			// digests and logarithm mantissas are replaced by the real functions in concrete
			// re-execution, where small arguments behave typically): one extra query, only on
			// the violation path
			small := Not(t)
			for _, v := range c.vars {
				if v.Op == OpVar && !strings.HasPrefix(v.Name, "uf_") && !strings.HasPrefix(v.Name, "binlog_") && (v.Hi == nil || v.Hi.Cmp(Pow2(16)) > 0) && v.Lo != nil && v.Lo.Sign() >= 0 {
					small = And(small, Le(v, CInt(new(big.Int).Sub(Pow2(16), bigOne))))
				}
			}
			if r2, m2 := c.check(small); r2 == Sat && m2 != nil {
				res.Model = m2
			}
		default:
			res.Status = "unknown"
		}
	}
	c.results = append(c.results, res)
	if res.Status == "violated" && t == TFalse {
		panic(pathAbort{"infeasible", "assertion false on whole path"})
	}
	// continue under the assertion (so later assertions are independent obligations)
	if res.Status != "trivially-held" && res.Status != "held" {
		if c.concrete == nil {
			r, m := c.check(t)
			if r == Unsat {
				panic(pathAbort{"infeasible", "path ends at violated assertion"})
			}
			c.model = m
		}
	}
	if t != TTrue {
		c.addPC(t)
	}
}

// recordPanic turns an escaping target panic into an assertion result.
func (c *Ctx) recordPanic(msg string) {
	res := AssertResult{Label: "no-panic", Pos: "", Facts: append([]string{}, c.facts...), Detail: msg, Decs: append([]int{}, c.taken...)}
	if c.h.allowPanic {
		return
	}
	res.Status = "violated"
	if c.concrete == nil {
		if c.model == nil {
			r, m := c.check(TTrue)
			if r != Sat {
				res.Status = "unknown"
			}
			c.model = m
		}
		res.Model = c.model
	}
	c.results = append(c.results, res)
}

func (c *Ctx) covered(fn *ssa.Function) {
	if c.cover != nil {
		c.cover[fn] = true
	}
}

// ---- globals and tolerant package initialisation ----

func (c *Ctx) globalAddr(g *ssa.Global) *value {
	if a, ok := c.globals[g]; ok {
		return a
	}
	c.initPackage(g.Pkg)
	if a, ok := c.globals[g]; ok {
		return a
	}
	panic("global not allocated: " + g.String())
}

func globalsStoredBy(fn *ssa.Function, seen map[*ssa.Function]bool, out map[*ssa.Global]bool) {
	if seen[fn] {
		return
	}
	seen[fn] = true
	var root func(v ssa.Value) *ssa.Global
	root = func(v ssa.Value) *ssa.Global {
		switch v := v.(type) {
		case *ssa.Global:
			return v
		case *ssa.FieldAddr:
			return root(v.X)
		case *ssa.IndexAddr:
			return root(v.X)
		}
		return nil
	}
	for _, b := range fn.Blocks {
		for _, in := range b.Instrs {
			switch in := in.(type) {
			case *ssa.Store:
				if g := root(in.Addr); g != nil {
					out[g] = true
				}
			case *ssa.MapUpdate:
				// map stored in a global: fine
			case *ssa.Call:
				if callee := in.Call.StaticCallee(); callee != nil && callee.Pkg == fn.Pkg && strings.HasPrefix(callee.Name(), "init#") {
					globalsStoredBy(callee, seen, out)
				}
			}
		}
	}
}

func (c *Ctx) initPackage(p *ssa.Package) {
	if c.pkgInit[p] {
		return
	}
	c.pkgInit[p] = true
	initFn := p.Func("init")
	stored := map[*ssa.Global]bool{}
	if initFn != nil {
		globalsStoredBy(initFn, map[*ssa.Function]bool{}, stored)
	}
	for _, m := range p.Members {
		if g, ok := m.(*ssa.Global); ok {
			var cell value
			cell = zero(deref(g.Type()))
			c.globals[g] = &cell
		}
	}
	if initFn == nil || initFn.Blocks == nil {
		return
	}
	// mark explicitly initialised globals as poison until init stores them
	pending := map[*ssa.Global]bool{}
	for g := range stored {
		if g.Pkg == p && g.Name() != "init$guard" {
			pending[g] = true
		}
	}
	saveTol, saveSteps, saveSpec := c.tolerant, c.steps, c.specDepth
	c.tolerant = true
	c.specDepth = 0 // package initialisation is not part of a speculated region
	func() {
		defer func() {
			if r := recover(); r != nil {
				if pa, ok := r.(pathAbort); ok {
					c.notes = append(c.notes, fmt.Sprintf("init of %s aborted: %s", p.Pkg.Path(), pa.msg))
					// poison everything that init stores to and that is still zero-valued is unsafe to
					// distinguish; mark all explicitly initialised globals not yet reached as poison.
					c.poisonUnreached(p, initFn)
					return
				}
				if tp, ok := r.(targetPanic); ok {
					c.notes = append(c.notes, fmt.Sprintf("init of %s panicked: %s", p.Pkg.Path(), tp.msg))
					c.poisonUnreached(p, initFn)
					return
				}
				panic(r)
			}
		}()
		c.callSSA(nil, token.NoPos, initFn, nil, nil)
	}()
	c.tolerant = saveTol
	c.steps = saveSteps
	c.specDepth = saveSpec
	_ = pending
}

// poisonUnreached is conservative: after an aborted init every global with an initialiser whose
// current value is still the zero value is replaced by poison.
func (c *Ctx) poisonUnreached(p *ssa.Package, initFn *ssa.Function) {
	stored := map[*ssa.Global]bool{}
	globalsStoredBy(initFn, map[*ssa.Function]bool{}, stored)
	for g := range stored {
		if g.Pkg != p {
			continue
		}
		cell := c.globals[g]
		if isZeroValue(*cell) {
			*cell = poison{"package init of " + p.Pkg.Path() + " aborted before initialising " + g.Name()}
		}
	}
}

func isZeroValue(v value) bool {
	switch v := v.(type) {
	case *Term:
		return (v.Op == OpConst && v.Val.Sign() == 0) || v == TFalse
	case string:
		return v == ""
	case *value:
		return v == nil
	case []value:
		return v == nil
	case *mapVal:
		return v == nil
	case iface:
		return v.t == nil
	case structure:
		for _, e := range v {
			if !isZeroValue(e) {
				return false
			}
		}
		return true
	case array:
		for _, e := range v {
			if !isZeroValue(e) {
				return false
			}
		}
		return true
	case *ssa.Function:
		return v == nil
	case bigVal:
		return v.t.Op == OpConst && v.t.Val.Sign() == 0
	case u256Val:
		return v.t.Op == OpConst && v.t.Val.Sign() == 0
	case float64:
		return v == 0
	case nil:
		return true
	}
	return false
}

func (c *Ctx) debugf(format string, a ...interface{}) {
	if c.trace {
		fmt.Fprintf(os.Stderr, format, a...)
	}
}

type pendingGo struct {
	fn   value
	args []value
	fr   *frame
	pos  token.Pos
}

// runPendingGo runs goroutines whose start was deferred (option defergo), in spawn order.
func (c *Ctx) runPendingGo() {
	for len(c.pendingGo) > 0 {
		g := c.pendingGo[0]
		c.pendingGo = c.pendingGo[1:]
		c.call(g.fr, g.pos, g.fn, g.args)
	}
}
