package main

// Hashes are uninterpreted functions (Ackermann-expanded, see applyUF) unless the whole input is
// concrete, in which case the real digest is computed. proto.Marshal is an uninterpreted function
// from the message's field values to an opaque 32-byte identifier; proto.Unmarshal inverts it for
// identifiers produced on the same path.

import (
	"strings"
	"crypto/sha256"
	"fmt"
	"go/token"
	"go/types"

	"golang.org/x/crypto/sha3"
	"golang.org/x/tools/go/ssa"
	"lukechampine.com/blake3"
)

func allConcrete(ts []*Term) ([]byte, bool) {
	b := make([]byte, len(ts))
	for i, t := range ts {
		if t.Op != OpConst {
			return nil, false
		}
		b[i] = byte(t.Val.Int64())
	}
	return b, true
}

func bytesToTerms(b []byte) []*Term {
	r := make([]*Term, len(b))
	for i := range b {
		r[i] = CI(int64(b[i]))
	}
	return r
}

func (c *Ctx) digest(name string, in []*Term, outLen int) []*Term {
	args := append([]*Term{CI(int64(len(in)))}, in...)
	if b, ok := allConcrete(in); ok {
		var out []*Term
		switch name {
		case "keccak256":
			h := sha3.NewLegacyKeccak256()
			h.Write(b)
			out = bytesToTerms(h.Sum(nil))
		case "keccak512":
			h := sha3.NewLegacyKeccak512()
			h.Write(b)
			out = bytesToTerms(h.Sum(nil))
		case "blake3":
			s := blake3.Sum256(b)
			out = bytesToTerms(s[:])
		case "sha256":
			s := sha256.Sum256(b)
			out = bytesToTerms(s[:])
		}
		if out != nil {
			// remember the concrete point so that symbolic applications are related to it
			// (functional consistency and collision freedom)
			if c.concrete == nil && len(c.ufApps[name]) < 64 {
				c.recordUF(name, args, out)
			}
			return out
		}
	}
	// cryptographic digests are collision free (listed assumption)
	c.injective[name] = true
	return c.applyUF(name, args, outLen, 255)
}

func structFieldIndex(t types.Type, name string) int {
	st := t.Underlying().(*types.Struct)
	for i := 0; i < st.NumFields(); i++ {
		if st.Field(i).Name() == name {
			return i
		}
	}
	return -1
}

type protoRec struct {
	id  []*Term
	msg value
	t   types.Type
}

func (c *Ctx) flatten(v value, t types.Type, out *[]*Term, depth int) {
	if depth > 32 {
		c.unsupported("flatten: value too deep")
	}
	switch v := v.(type) {
	case *Term:
		if v.IsBool() {
			*out = append(*out, Ite(v, CI(1), CI(0)))
		} else {
			*out = append(*out, v)
		}
	case string, symStr:
		b := strBytes(v)
		*out = append(*out, CI(int64(len(b))))
		*out = append(*out, b...)
	case bigVal:
		*out = append(*out, v.t)
	case u256Val:
		*out = append(*out, v.t)
	case float64:
		*out = append(*out, CI(int64(v*1e6)))
	case []value:
		if v == nil {
			// proto3 does not distinguish a nil from an empty bytes/repeated field
			*out = append(*out, CI(0))
			return
		}
		*out = append(*out, CI(int64(len(v))))
		var et types.Type
		if t != nil {
			if s, ok := t.Underlying().(*types.Slice); ok {
				et = s.Elem()
			}
		}
		for _, e := range v {
			c.flatten(e, et, out, depth+1)
		}
	case array:
		var et types.Type
		if t != nil {
			if s, ok := t.Underlying().(*types.Array); ok {
				et = s.Elem()
			}
		}
		for _, e := range v {
			c.flatten(e, et, out, depth+1)
		}
	case structure:
		var st *types.Struct
		if t != nil {
			st, _ = t.Underlying().(*types.Struct)
		}
		for i, e := range v {
			var ft types.Type
			if st != nil {
				n := st.Field(i).Name()
				if n == "state" || n == "sizeCache" || n == "unknownFields" {
					continue
				}
				ft = st.Field(i).Type()
			}
			c.flatten(e, ft, out, depth+1)
		}
	case *value:
		if v == nil {
			*out = append(*out, CI(0))
			return
		}
		*out = append(*out, CI(1))
		var et types.Type
		if t != nil {
			if p, ok := t.Underlying().(*types.Pointer); ok {
				et = p.Elem()
			}
		}
		c.flatten(*v, et, out, depth+1)
	case iface:
		if v.t == nil {
			*out = append(*out, CI(0))
			return
		}
		*out = append(*out, CI(1))
		c.flatten(v.v, v.t, out, depth+1)
	case *mapVal:
		c.unsupported("flatten of map")
	default:
		c.unsupported("flatten of %T", v)
	}
}

// deepCopy clones a pointer graph (trees only; proto messages have no cycles).
func deepCopy(v value, depth int) value {
	if depth > 40 {
		panic(pathAbort{"unsupported", "deepCopy too deep"})
	}
	switch v := v.(type) {
	case structure:
		r := make(structure, len(v))
		for i := range v {
			r[i] = deepCopy(v[i], depth+1)
		}
		return r
	case array:
		r := make(array, len(v))
		for i := range v {
			r[i] = deepCopy(v[i], depth+1)
		}
		return r
	case []value:
		if v == nil {
			return v
		}
		r := make([]value, len(v))
		for i := range v {
			r[i] = deepCopy(v[i], depth+1)
		}
		return r
	case *value:
		if v == nil {
			return v
		}
		var box value = deepCopy(*v, depth+1)
		return &box
	case iface:
		return iface{t: v.t, v: deepCopy(v.v, depth+1)}
	}
	return v
}

func init() {
	S := "(*golang.org/x/crypto/sha3.state)."
	hname := func(c *Ctx, p *value) (string, int) {
		st := (*p).(structure)
		// outputLen is field index by name
		return "keccak", 0 + len(st)*0
	}
	_ = hname
	outLen := func(c *Ctx, fn *ssa.Function, p *value) int {
		st := (*p).(structure)
		i := structFieldIndex(deref(fn.Signature.Recv().Type()), "outputLen")
		n, _ := concreteInt(st[i])
		return int(n)
	}
	dname := func(n int) string {
		if n == 64 {
			return "keccak512"
		}
		return "keccak256"
	}
	intrinsics[S+"Write"] = func(c *Ctx, fr *frame, fn *ssa.Function, a []value, pos token.Pos) value {
		p := a[0].(*value)
		c.hashBuf[p] = append(c.hashBuf[p], sliceTerms(a[1])...)
		return tuple{CI(int64(len(a[1].([]value)))), iface{}}
	}
	intrinsics[S+"Reset"] = func(c *Ctx, fr *frame, fn *ssa.Function, a []value, pos token.Pos) value {
		delete(c.hashBuf, a[0].(*value))
		return nil
	}
	intrinsics[S+"Read"] = func(c *Ctx, fr *frame, fn *ssa.Function, a []value, pos token.Pos) value {
		p := a[0].(*value)
		n := outLen(c, fn, p)
		out := a[1].([]value)
		if len(out) > n {
			c.unsupported("sha3 Read of more than the digest size")
		}
		d := c.digest(dname(n), c.hashBuf[p], n)
		for i := range out {
			out[i] = d[i]
		}
		return tuple{CI(int64(len(out))), iface{}}
	}
	intrinsics[S+"Sum"] = func(c *Ctx, fr *frame, fn *ssa.Function, a []value, pos token.Pos) value {
		p := a[0].(*value)
		n := outLen(c, fn, p)
		d := c.digest(dname(n), c.hashBuf[p], n)
		return appendVals(a[1].([]value), termsSlice(d))
	}
	intrinsics["lukechampine.com/blake3.Sum256"] = func(c *Ctx, fr *frame, fn *ssa.Function, a []value, pos token.Pos) value {
		return array(termsSlice(c.digest("blake3", sliceTerms(a[0]), 32)))
	}
	intrinsics["crypto/sha256.Sum256"] = func(c *Ctx, fr *frame, fn *ssa.Function, a []value, pos token.Pos) value {
		return array(termsSlice(c.digest("sha256", sliceTerms(a[0]), 32)))
	}

	intrinsics["google.golang.org/protobuf/proto.Marshal"] = func(c *Ctx, fr *frame, fn *ssa.Function, a []value, pos token.Pos) value {
		m := a[0].(iface)
		if m.t == nil {
			return tuple{[]value(nil), iface{}}
		}
		var flat []*Term
		c.flatten(m.v, m.t, &flat, 0)
		name := "proto_" + nameSan.ReplaceAllString(namedPath(derefOrSelf(m.t)), "_")
		// the wire encoding of a message is a deterministic injective function of its field values
		c.injective[name] = true
		id := c.applyUF(name, flat, 32, 255)
		c.protoTab = append(c.protoTab, protoRec{id: id, msg: deepCopy(m.v, 0), t: m.t})
		return tuple{termsSlice(id), iface{}}
	}
	intrinsics["google.golang.org/protobuf/proto.Unmarshal"] = func(c *Ctx, fr *frame, fn *ssa.Function, a []value, pos token.Pos) value {
		b := sliceTerms(a[0])
		m := a[1].(iface)
		for i := len(c.protoTab) - 1; i >= 0; i-- {
			r := c.protoTab[i]
			if len(r.id) != len(b) || !types.Identical(r.t, m.t) {
				continue
			}
			same := true
			for k := range b {
				if b[k] != r.id[k] {
					same = false
					break
				}
			}
			if same {
				dst := m.v.(*value)
				src := deepCopy(r.msg, 0).(*value)
				wireNormalise(src, derefOrSelf(m.t), 0)
				store(dst, *src)
				return iface{}
			}
		}
		c.unsupported("proto.Unmarshal of bytes not produced by proto.Marshal on this path (stub the decoder) at %s", c.posStr(pos))
		return nil
	}
}

// wireNormalise gives an unmarshalled message the shape the wire can carry: proto3 does not put an empty
// repeated field or an empty bytes field without explicit presence on the wire, so after a real
// Marshal/Unmarshal trip those come back as nil (decoders that test `!= nil` see "absent"). Only bytes fields
// declared `optional` (struct tag "...,proto3,oneof") keep the difference between empty and absent.
func wireNormalise(p *value, t types.Type, depth int) {
	if p == nil || depth > 40 {
		return
	}
	switch u := t.Underlying().(type) {
	case *types.Pointer:
		if pv, ok := (*p).(*value); ok && pv != nil {
			wireNormalise(pv, u.Elem(), depth+1)
		}
	case *types.Struct:
		sv, ok := (*p).(structure)
		if !ok {
			return
		}
		for i := 0; i < u.NumFields(); i++ {
			f := u.Field(i)
			if n := f.Name(); n == "state" || n == "sizeCache" || n == "unknownFields" {
				continue
			}
			if sl, isSlice := sv[i].([]value); isSlice {
				if sl != nil && len(sl) == 0 && !(isByteSliceT(f.Type()) && strings.Contains(u.Tag(i), "oneof")) {
					sv[i] = []value(nil)
					continue
				}
				if st, ok := f.Type().Underlying().(*types.Slice); ok && !isByteSliceT(f.Type()) {
					for k := range sl {
						wireNormalise(&sl[k], st.Elem(), depth+1)
					}
				}
				continue
			}
			wireNormalise(&sv[i], f.Type(), depth+1)
		}
	case *types.Interface:
		if iv, ok := (*p).(iface); ok && iv.t != nil {
			if pv, ok := iv.v.(*value); ok && pv != nil {
				if pt, ok := iv.t.Underlying().(*types.Pointer); ok {
					wireNormalise(pv, pt.Elem(), depth+1)
				}
			}
		}
	}
}

func isByteSliceT(t types.Type) bool {
	s, ok := t.Underlying().(*types.Slice)
	if !ok {
		return false
	}
	b, ok := s.Elem().Underlying().(*types.Basic)
	return ok && b.Kind() == types.Uint8
}

var _ = fmt.Sprintf
