package main

import (
	"encoding/json"
	"flag"
	"fmt"
	"math/big"
	"os"
	"path/filepath"
	"runtime"
	"sort"
	"strconv"
	"strings"
	"time"
)

type KnownFinding struct {
	Property string            `json:"property"`
	Harness  string            `json:"harness"`
	Assert   string            `json:"assert"`
	Match    map[string]string `json:"match"`
	Where    string            `json:"where"`
	What     string            `json:"what"`
	Status   string            `json:"status"`
}

type KnownFile struct {
	Findings []KnownFinding `json:"findings"`
	Fixed    []string       `json:"fixed"`
}

func (k *KnownFinding) matches(v *Violation) bool {
	if k.Harness != v.Harness || k.Assert != v.Label || k.Property != v.Property {
		return false
	}
	have := map[string]string{}
	for _, f := range v.Facts {
		if i := strings.Index(f, "="); i > 0 {
			have[f[:i]] = f[i+1:]
		}
	}
	for kk, vv := range k.Match {
		if have[kk] != vv {
			return false
		}
	}
	return true
}

func modelJSON(m *Model) map[string]interface{} {
	if m == nil {
		return nil
	}
	ints := map[string]string{}
	for k, v := range m.Ints {
		ints[k] = v.String()
	}
	return map[string]interface{}{"Ints": ints, "Bools": m.Bools}
}

func modelFromJSON(b []byte) (*Model, error) {
	var raw struct {
		Ints  map[string]string
		Bools map[string]bool
	}
	if err := json.Unmarshal(b, &raw); err != nil {
		return nil, err
	}
	m := &Model{Ints: map[string]*big.Int{}, Bools: raw.Bools}
	if m.Bools == nil {
		m.Bools = map[string]bool{}
	}
	for k, v := range raw.Ints {
		x, ok := new(big.Int).SetString(v, 10)
		if !ok {
			return nil, fmt.Errorf("bad int %q", v)
		}
		m.Ints[k] = x
	}
	return m, nil
}

func smallModel(m *Model, max int) map[string]interface{} {
	if m == nil {
		return nil
	}
	out := map[string]interface{}{}
	n := 0
	for _, k := range sortedKeys(m.Ints) {
		if n >= max {
			out["…"] = fmt.Sprintf("%d more", len(m.Ints)+len(m.Bools)-n)
			break
		}
		out[k] = m.Ints[k].String()
		n++
	}
	for _, k := range sortedKeys(m.Bools) {
		if n >= max {
			break
		}
		out[k] = m.Bools[k]
		n++
	}
	return out
}

func main() {
	if len(os.Args) < 2 {
		fmt.Fprintln(os.Stderr, "usage: gosym check|replay|list ...")
		os.Exit(3)
	}
	switch os.Args[1] {
	case "check":
		os.Exit(cmdCheck(os.Args[2:]))
	case "replay":
		os.Exit(cmdReplay(os.Args[2:]))
	case "selftest":
		os.Exit(cmdSelftest(os.Args[2:]))
	default:
		fmt.Fprintln(os.Stderr, "unknown command", os.Args[1])
		os.Exit(3)
	}
}

type checkOpts struct {
	property, tier, repo, hdir, evidence, known, only, outdir string
	strict                                                    bool
	workers                                                   int
	qtimeout                                                  time.Duration
	noNative                                                  bool
}

func cmdCheck(args []string) int {
	fs := flag.NewFlagSet("check", flag.ExitOnError)
	var o checkOpts
	fs.StringVar(&o.property, "property", "", "property id (C01..)")
	fs.StringVar(&o.tier, "tier", "quick", "quick|thorough")
	fs.StringVar(&o.repo, "repo", "/repo", "repository root")
	fs.StringVar(&o.hdir, "harness-dir", "/verif/harness", "harness directory")
	fs.StringVar(&o.evidence, "evidence", "", "evidence file to write")
	fs.StringVar(&o.known, "known", "/verif/known_findings.json", "known findings file")
	fs.StringVar(&o.only, "only", "", "comma-separated harness names to run")
	fs.StringVar(&o.outdir, "out", "/verif/out", "directory for replay files")
	fs.BoolVar(&o.strict, "strict", false, "exit 2 when anything is inconclusive")
	fs.IntVar(&o.workers, "workers", runtime.NumCPU(), "parallel workers")
	fs.DurationVar(&o.qtimeout, "qtimeout", 0, "per-query solver timeout (default 20s quick, 120s thorough)")
	fs.BoolVar(&o.noNative, "no-native", false, "skip native replays")
	fs.Parse(args)
	if o.qtimeout == 0 {
		o.qtimeout = 20 * time.Second
		if o.tier == "thorough" {
			o.qtimeout = 120 * time.Second
		}
	}
	start := time.Now()
	seed, _ := strconv.ParseInt(os.Getenv("VERIF_SEED"), 10, 64)

	// which harness packages does this property need?
	only := harnessPkgsFor(o.hdir, o.property)
	eng, err := LoadEngine(o.repo, o.hdir, only)
	if err != nil {
		fmt.Fprintf(os.Stderr, "INCONCLUSIVE property=%s reason=load: %v\n", o.property, err)
		writeFailedEvidence(o, seed, start, "load failed: "+err.Error())
		if o.strict {
			return 2
		}
		return 0
	}
	var hs []*Harness
	onlySet := map[string]bool{}
	for _, n := range strings.Split(o.only, ",") {
		if n != "" {
			onlySet[n] = true
		}
	}
	for _, n := range sortedKeys(eng.harness) {
		h := eng.harness[n]
		if o.property != "" && h.property != o.property {
			continue
		}
		if len(onlySet) > 0 && !onlySet[h.name] {
			continue
		}
		if h.tier == "thorough" && o.tier != "thorough" {
			continue
		}
		hs = append(hs, h)
	}
	if len(hs) == 0 {
		fmt.Fprintf(os.Stderr, "no harnesses for property %s\n", o.property)
		return 3
	}
	if seed != 0 {
		// seed only permutes the order in which harnesses are started (results are seed-independent)
		r := seed
		for i := len(hs) - 1; i > 0; i-- {
			r = r*6364136223846793005 + 1442695040888963407
			j := int(uint64(r)>>33) % (i + 1)
			hs[i], hs[j] = hs[j], hs[i]
		}
	}
	if o.tier == "thorough" {
		for _, h := range hs {
			h.budget *= 6
		}
	}
	x := NewExplorer(eng, o.workers, o.qtimeout)
	x.seed = seed
	x.Run(hs)
	return report(o, eng, x, hs, seed, start)
}

func harnessPkgsFor(hdir, prop string) map[string]bool {
	files, err := harnessFiles(hdir)
	if err != nil || prop == "" {
		return nil
	}
	res := map[string]bool{}
	needle := "VerifH_" + prop + "_"
	for rel, fs := range files {
		for _, f := range fs {
			b, _ := os.ReadFile(f)
			if strings.Contains(string(b), needle) {
				res[rel] = true
			}
		}
	}
	return res
}

func writeFailedEvidence(o checkOpts, seed int64, start time.Time, why string) {
	if o.evidence == "" {
		return
	}
	ev := map[string]interface{}{
		"property_id": o.property, "tier": o.tier, "seed": seed, "level": "model_checking",
		"coverage": map[string]interface{}{"evaluations": 0, "distinct_nontrivial": 0, "explanation": why},
		"wall_s":   time.Since(start).Seconds(), "violations": 0, "inconclusive": 1,
	}
	b, _ := json.MarshalIndent(ev, "", " ")
	os.MkdirAll(filepath.Dir(o.evidence), 0755)
	os.WriteFile(o.evidence, b, 0644)
}

func report(o checkOpts, eng *Engine, x *Explorer, hs []*Harness, seed int64, start time.Time) int {
	var known KnownFile
	if b, err := os.ReadFile(o.known); err == nil {
		if err := json.Unmarshal(b, &known); err != nil {
			fmt.Fprintf(os.Stderr, "bad known findings file: %v\n", err)
			return 3
		}
	}
	exit := 0
	totalStates, totalTrans := 0, 0
	inconclusive := 0
	nViol := 0
	var samples []interface{}
	var harnessEv []interface{}
	funcs := map[string]bool{}
	stubs, outside := []string{}, []string{}
	assumptions := []string{
		"gosym interpreter semantics of go/ssa (validated by `gosym selftest` and by native replay of reachability witnesses / counterexamples)",
		"integer-first SMT encoding: machine integers are Ints with explicit mod 2^w; math/big.Int is an exact Int; uint256.Int is an Int mod 2^256",
		"hash functions and proto.Marshal are uninterpreted functions (functional consistency only; injectivity only where a harness asks for it)",
		"goroutines are run synchronously at the spawn point; sync/atomic primitives are no-ops on a single thread; logging and formatting are opaque",
		"z3 4.8.12 verdicts (any unknown, timeout or (error line is reported as INCONCLUSIVE, never as held)",
	}
	knownPrinted := map[string]bool{}
	nativeOK := 0
	var nativeJobs []nativeJob

	for _, h := range hs {
		rep := x.reports[h.name]
		totalStates += rep.Paths
		for f := range rep.Cover {
			funcs[normName(f)] = true
		}
		stubs = append(stubs, h.stubList...)
		hInc := rep.Inconclusive
		for _, n := range rep.AssertUnk {
			hInc += n
		}
		if rep.Truncated {
			hInc++
			fmt.Printf("INCONCLUSIVE harness=%s reason=exploration truncated (paths=%d budget=%s)\n", h.name, rep.Paths, h.budget)
		}
		for r, n := range rep.InconclusiveReasons {
			fmt.Printf("INCONCLUSIVE harness=%s paths=%d reason=%s\n", h.name, n, r)
		}
		for l, n := range rep.AssertUnk {
			fmt.Printf("INCONCLUSIVE harness=%s assert=%s queries=%d reason=solver unknown\n", h.name, l, n)
		}
		// vacuity: every vReach label must have been reached
		var unreached []string
		for _, l := range h.reachLabels {
			if !rep.Reached[l] {
				unreached = append(unreached, l)
			}
		}
		if len(unreached) > 0 {
			hInc++
			fmt.Printf("INCONCLUSIVE harness=%s reason=vacuity: reach points not reached: %s\n", h.name, strings.Join(unreached, ","))
		}
		inconclusive += hInc
		if hInc > 0 || forkStats {
			for n, k := range rep.Notes {
				fmt.Printf("  note harness=%s x%d: %s\n", h.name, k, n)
			}
		}

		// violations: confirm, match against known findings
		for _, v := range rep.Violations {
			ok, why := eng.ConfirmInterp(h, v)
			if ok {
				v.Confirmed = "interp"
			} else {
				v.Confirmed = "unconfirmed: " + why
			}
			for i := range known.Findings {
				k := &known.Findings[i]
				if k.matches(v) {
					v.Known = k.What
					break
				}
			}
			if !ok {
				inconclusive++
				fmt.Printf("INCONCLUSIVE harness=%s assert=%s facts=[%s] reason=counterexample did not reproduce in concrete re-execution (%s)\n", h.name, v.Label, factsKey(v.Facts), why)
				continue
			}
			if v.Known != "" {
				line := fmt.Sprintf("KNOWN-FINDING: property=%s %s [%s %s %s]", v.Property, v.Known, v.Harness, v.Label, factsKey(v.Facts))
				if !knownPrinted[line] {
					knownPrinted[line] = true
					fmt.Println(line)
				}
				continue
			}
			// new violation
			dir := filepath.Join(o.outdir, "replay", v.Property)
			os.MkdirAll(dir, 0755)
			fn := filepath.Join(dir, fmt.Sprintf("%s-%s-%d.json", v.Harness, nameSan.ReplaceAllString(v.Label, "_"), nViol))
			rec := map[string]interface{}{
				"property": v.Property, "harness": v.Harness, "assert": v.Label, "facts": v.Facts, "pos": v.Pos,
				"detail": v.Detail, "model": modelJSON(v.Model), "decisions": v.Decs, "replay_class": h.replay,
				"harness_file": strings.TrimPrefix(h.file, "/repo/"), "confirmed": v.Confirmed,
			}
			b, _ := json.MarshalIndent(rec, "", " ")
			os.WriteFile(fn, b, 0644)
			v.ReplayFile = fn
			if h.replay == "native" && !o.noNative {
				nativeJobs = append(nativeJobs, nativeJob{h: h, v: v, model: v.Model, expectFail: v.Label})
			} else {
				nViol++
				fmt.Printf("VIOLATION property=%s replay=%s\n", v.Property, fn)
				fmt.Printf("  harness=%s assert=%s facts=[%s] at %s %s\n", v.Harness, v.Label, factsKey(v.Facts), v.Pos, v.Detail)
				exit = 1
			}
		}
		// witnesses for native validation
		if h.replay == "native" && !o.noNative {
			for _, l := range h.reachLabels {
				if m := rep.Witness[l]; m != nil {
					nativeJobs = append(nativeJobs, nativeJob{h: h, model: m, witness: l})
					break
				}
			}
		}
		held, triv, viol, unk := 0, 0, 0, 0
		for _, n := range rep.AssertHeld {
			held += n
		}
		for _, n := range rep.AssertTriv {
			triv += n
		}
		for _, n := range rep.AssertViol {
			viol += n
		}
		for _, n := range rep.AssertUnk {
			unk += n
		}
		labels := map[string]bool{}
		for l := range rep.AssertHeld {
			labels[l] = true
		}
		for l := range rep.AssertTriv {
			labels[l] = true
		}
		for l := range rep.AssertViol {
			labels[l] = true
		}
		var wit interface{}
		for _, l := range h.reachLabels {
			if m := rep.Witness[l]; m != nil {
				wit = map[string]interface{}{"reach": l, "model": smallModel(m, 24)}
				break
			}
		}
		hev := map[string]interface{}{
			"harness": h.name, "entry": normName(h.fn.String()), "tier": h.tier, "replay_class": h.replay,
			"paths": rep.Paths, "paths_done": rep.Done, "paths_infeasible": rep.Infeasible, "paths_panic": rep.Panics,
			"paths_inconclusive": rep.Inconclusive, "ssa_instructions_executed": rep.Steps,
			"assertions_discharged_by_solver": held, "assertions_decided_syntactically": triv,
			"assertions_violated": viol, "assertions_unknown": unk, "assertion_labels": sortedKeys(labels),
			"reach_points": h.reachLabels, "reached": sortedKeys(rep.Reached), "witness": wit,
			"stubs": h.stubList, "wall_s": rep.Wall.Seconds(), "assume_calls": rep.Assumes,
			"bounds": map[string]interface{}{"max_decisions_per_path": h.maxDecisions, "max_steps_per_path": h.maxSteps,
				"max_paths": h.maxPaths, "max_case_split": h.maxSplit, "big_int_bits": h.maxBigBits},
			"doc": docSummary(h.doc),
		}
		if len(rep.Notes) > 0 {
			hev["notes"] = rep.Notes
		}
		harnessEv = append(harnessEv, hev)
		if wit != nil && len(samples) < 12 {
			samples = append(samples, map[string]interface{}{"harness": h.name, "kind": "reachability witness (solver model of a complete path)", "case": wit})
		}
		fmt.Printf("harness %-12s paths=%d done=%d infeasible=%d panic=%d inconclusive=%d asserts: solver-held=%d trivial=%d violated=%d unknown=%d  (%.1fs)\n",
			h.name, rep.Paths, rep.Done, rep.Infeasible, rep.Panics, rep.Inconclusive, held, triv, viol, unk, rep.Wall.Seconds())
	}
	totalTrans = x.solverStats.queries

	// native replays
	if len(nativeJobs) > 0 {
		res := runNative(eng, o, nativeJobs)
		for i, j := range nativeJobs {
			r := res[i]
			if j.v != nil {
				if r.failedAssert == j.expectFail || (j.expectFail == "no-panic" && r.panicked) {
					j.v.Confirmed = "native"
					nViol++
					fmt.Printf("VIOLATION property=%s replay=%s\n", j.v.Property, j.v.ReplayFile)
					fmt.Printf("  harness=%s assert=%s facts=[%s] at %s %s (reproduced natively)\n", j.v.Harness, j.v.Label, factsKey(j.v.Facts), j.v.Pos, j.v.Detail)
					exit = 1
				} else {
					inconclusive++
					fmt.Printf("INCONCLUSIVE harness=%s assert=%s reason=counterexample did not reproduce natively (%s)\n", j.h.name, j.expectFail, r.summary)
				}
			} else {
				if r.ok {
					nativeOK++
				} else {
					inconclusive++
					fmt.Printf("INCONCLUSIVE harness=%s reason=witness for %s did not replay natively (%s)\n", j.h.name, j.witness, r.summary)
				}
			}
		}
	}

	for _, k := range known.Findings {
		if k.Property == o.property {
			assumptions = append(assumptions, "known finding (suppressed, printed as KNOWN-FINDING when observed): "+k.What)
		}
	}
	sort.Strings(stubs)
	if len(samples) == 0 {
		samples = append(samples, map[string]interface{}{"note": "no reach witness recorded"})
	}
	ev := map[string]interface{}{
		"property_id": o.property, "tier": o.tier, "seed": seed, "level": "model_checking",
		"coverage": map[string]interface{}{
			"states":                        max1(totalStates),
			"transitions":                   max1(totalTrans),
			"traces_validated_against_impl": nativeOK,
			"samples":                       samples,
			"exhaustive":                    inconclusive == 0,
			"explanation":                   "states = symbolic paths explored (each a set of concrete executions); transitions = SMT queries decided (branch feasibility + assertion obligations); every path of every harness inside the stated bounds was explored unless listed as inconclusive",
			"harnesses":                     harnessEv,
			"functions_encoded":             sortedKeys(funcs),
			"queries":                       map[string]interface{}{"total": x.solverStats.queries, "sat": x.solverStats.sat, "unsat": x.solverStats.unsat, "unknown": x.solverStats.unknown, "solver_error_lines": x.solverStats.errors,
				"one_shot_portfolio_retries": x.solverStats.fallback, "one_shot_portfolio_solved": x.solverStats.fallbackSolved},
			"solver":                        "z3 4.8.12 (-in, incremental push/pop, integer-first encoding)",
			"solver_time_s":                 x.solverStats.time.Seconds(),
			"load_time_s":                   eng.loadTime.Seconds(),
			"inconclusive":                  inconclusive,
			"stubs":                         stubs,
			"outside_claim":                 outside,
		},
		"assumptions": assumptions,
		"wall_s":      time.Since(start).Seconds(),
		"violations":  nViol,
	}
	if o.evidence != "" {
		b, _ := json.MarshalIndent(ev, "", " ")
		os.MkdirAll(filepath.Dir(o.evidence), 0755)
		if err := os.WriteFile(o.evidence, b, 0644); err != nil {
			fmt.Fprintln(os.Stderr, "cannot write evidence:", err)
		}
	}
	fmt.Printf("property %s tier=%s: harnesses=%d paths=%d queries=%d (sat=%d unsat=%d unknown=%d, portfolio retries=%d) violations=%d inconclusive=%d wall=%.1fs solver=%.0fs\n",
		o.property, o.tier, len(hs), totalStates, x.solverStats.queries, x.solverStats.sat, x.solverStats.unsat, x.solverStats.unknown, x.solverStats.fallback, nViol, inconclusive, time.Since(start).Seconds(), x.solverStats.time.Seconds())
	if exit == 0 && o.strict && inconclusive > 0 {
		return 2
	}
	return exit
}

func max1(n int) int {
	if n < 1 {
		return 1
	}
	return n
}

func docSummary(doc string) string {
	var out []string
	for _, l := range strings.Split(doc, "\n") {
		l = strings.TrimSpace(strings.TrimPrefix(strings.TrimSpace(l), "//"))
		if l == "" || strings.HasPrefix(l, "verif:") {
			continue
		}
		out = append(out, l)
	}
	return strings.Join(out, " ")
}

// cmdSelftest runs the engine self-tests: every T00 "pass" harness must be fully decided with no
// violation, every "fail" harness must produce a violation that reproduces (interpreter + native).
func cmdSelftest(args []string) int {
	fs := flag.NewFlagSet("selftest", flag.ExitOnError)
	repo := fs.String("repo", "/repo", "")
	hdir := fs.String("harness-dir", "/verif/selftest", "")
	fs.Parse(args)
	eng, err := LoadEngine(*repo, *hdir, nil)
	if err != nil {
		fmt.Fprintln(os.Stderr, "selftest: load failed:", err)
		return 1
	}
	var hs []*Harness
	for _, n := range sortedKeys(eng.harness) {
		hs = append(hs, eng.harness[n])
	}
	x := NewExplorer(eng, runtime.NumCPU(), 20*time.Second)
	x.Run(hs)
	bad := 0
	o := checkOpts{repo: *repo, hdir: *hdir}
	var jobs []nativeJob
	for _, h := range hs {
		rep := x.reports[h.name]
		unk := 0
		for _, n := range rep.AssertUnk {
			unk += n
		}
		wantFail := strings.Contains(h.name, "-fail-")
		switch {
		case rep.Inconclusive > 0 || unk > 0 || rep.Truncated:
			fmt.Printf("selftest %s: INCONCLUSIVE %v\n", h.name, rep.InconclusiveReasons)
			bad++
		case !wantFail && len(rep.Violations) > 0:
			fmt.Printf("selftest %s: unexpected violation %s\n", h.name, rep.Violations[0].Label)
			bad++
		case wantFail && len(rep.Violations) == 0:
			fmt.Printf("selftest %s: expected a violation, none found\n", h.name)
			bad++
		case wantFail:
			v := rep.Violations[0]
			if ok, why := eng.ConfirmInterp(h, v); !ok {
				fmt.Printf("selftest %s: violation did not reproduce concretely: %s\n", h.name, why)
				bad++
			} else {
				jobs = append(jobs, nativeJob{h: h, v: v, model: v.Model, expectFail: v.Label})
				fmt.Printf("selftest %s: ok (violation %s found and reproduced in the interpreter)\n", h.name, v.Label)
			}
		default:
			for _, l := range h.reachLabels {
				if !rep.Reached[l] {
					fmt.Printf("selftest %s: reach point %s not reached\n", h.name, l)
					bad++
				}
				if m := rep.Witness[l]; m != nil {
					jobs = append(jobs, nativeJob{h: h, model: m, witness: l})
				}
			}
			fmt.Printf("selftest %s: ok (paths=%d)\n", h.name, rep.Paths)
		}
	}
	res := runNative(eng, o, jobs)
	for i, j := range jobs {
		r := res[i]
		if j.v != nil {
			if !(r.failedAssert == j.expectFail || (j.expectFail == "no-panic" && r.panicked)) {
				fmt.Printf("selftest %s: native replay did not reproduce %s (%s)\n", j.h.name, j.expectFail, r.summary)
				bad++
			}
		} else if !r.ok {
			fmt.Printf("selftest %s: native replay of witness failed (%s)\n", j.h.name, r.summary)
			bad++
		}
	}
	if bad > 0 {
		fmt.Printf("selftest: %d problems\n", bad)
		return 1
	}
	fmt.Printf("selftest: all %d harnesses behaved as expected; %d native replays agree\n", len(hs), len(jobs))
	return 0
}
