package main

import (
	"fmt"
	"go/token"
	"go/types"
	"os"
	"runtime/debug"
	"strings"

	"golang.org/x/tools/go/ssa"
)

type pathAbort struct {
	kind string // infeasible | unsupported | bound | inconclusive
	msg  string
}

type targetPanic struct {
	v   value
	msg string
}

func tpanic(msg string) targetPanic { return targetPanic{v: iface{t: rtErrType, v: msg}, msg: msg} }

// rtErrType is the dynamic type used for runtime-error panic values (a named string type).
var rtErrType types.Type = types.NewNamed(types.NewTypeName(token.NoPos, nil, "runtimeError", nil), types.Typ[types.String], nil)

type deferred struct {
	fn    value
	args  []value
	instr *ssa.Defer
	tail  *deferred
}

type frame struct {
	c                *Ctx
	caller           *frame
	fn               *ssa.Function
	block, prevBlock *ssa.BasicBlock
	env              map[ssa.Value]value
	locals           []value
	defers           *deferred
	result           value
	panicking        bool
	panic            interface{}
	phitemps         []value
	depth            int
	spec             bool            // frame created inside a speculation (if-conversion)
	phisDone         *ssa.BasicBlock // phis of this block were already assigned by tryMerge
}

func (fr *frame) get(key ssa.Value) value {
	switch key := key.(type) {
	case nil:
		return nil
	case *ssa.Function:
		return key
	case *ssa.Builtin:
		return key
	case *ssa.Const:
		return constValue(key)
	case *ssa.Global:
		return fr.c.globalAddr(key)
	}
	if r, ok := fr.env[key]; ok {
		return r
	}
	panic(fmt.Sprintf("get: no value for %T: %v in %s", key, key.Name(), fr.fn))
}

func constValue(c *ssa.Const) value {
	if c.Value == nil {
		return zero(c.Type())
	}
	t := c.Type()
	if b, ok := t.Underlying().(*types.Basic); ok {
		switch {
		case b.Info()&types.IsBoolean != 0:
			return CB(constantBool(c))
		case b.Info()&types.IsInteger != 0:
			return CInt(constantBig(c))
		case b.Info()&types.IsFloat != 0:
			return c.Float64()
		case b.Info()&types.IsComplex != 0:
			return c.Complex128()
		case b.Info()&types.IsString != 0:
			return constantString(c)
		}
	}
	panic(fmt.Sprintf("constValue: %T %s", c.Value, c))
}

func (fr *frame) runDefer(d *deferred) {
	var ok bool
	defer func() {
		if !ok {
			r := recover()
			if pa, is := r.(pathAbort); is {
				panic(pa)
			}
			if sa, is := r.(specAbort); is {
				panic(sa)
			}
			fr.panicking = true
			fr.panic = r
		}
	}()
	fr.c.call(fr, d.instr.Pos(), d.fn, d.args)
	ok = true
}

func (fr *frame) runDefers() {
	for d := fr.defers; d != nil; d = d.tail {
		fr.runDefer(d)
	}
	fr.defers = nil
	if fr.panicking {
		panic(fr.panic)
	}
}

func (c *Ctx) posStr(pos token.Pos) string {
	if pos == token.NoPos {
		return "?"
	}
	p := c.eng.prog.Fset.Position(pos)
	return fmt.Sprintf("%s:%d", strings.TrimPrefix(p.Filename, "/repo/"), p.Line)
}

func (c *Ctx) unsupported(format string, a ...interface{}) {
	panic(pathAbort{"unsupported", fmt.Sprintf(format, a...)})
}

func (c *Ctx) visitInstr(fr *frame, instr ssa.Instruction) (ret bool) {
	c.steps++
	if c.steps > c.maxSteps {
		panic(pathAbort{"bound", fmt.Sprintf("step bound %d exceeded", c.maxSteps)})
	}
	if c.specDepth > 0 {
		c.specCheck(fr, instr)
	}
	switch instr := instr.(type) {
	case *ssa.DebugRef:

	case *ssa.UnOp:
		fr.env[instr] = c.unop(fr, instr, fr.get(instr.X))

	case *ssa.BinOp:
		fr.env[instr] = c.binop(instr.Op, instr.X.Type(), fr.get(instr.X), fr.get(instr.Y), instr.Pos())

	case *ssa.Call:
		fn, args := c.prepareCall(fr, &instr.Call)
		fr.env[instr] = c.call(fr, instr.Pos(), fn, args)

	case *ssa.ChangeInterface:
		fr.env[instr] = fr.get(instr.X)

	case *ssa.ChangeType:
		fr.env[instr] = fr.get(instr.X)

	case *ssa.Convert:
		fr.env[instr] = c.conv(instr.Type(), instr.X.Type(), fr.get(instr.X))

	case *ssa.MultiConvert:
		fr.env[instr] = c.conv(instr.Type(), instr.X.Type(), fr.get(instr.X))

	case *ssa.SliceToArrayPointer:
		x := fr.get(instr.X)
		if _, ok := x.(poison); ok {
			fr.env[instr] = x
			break
		}
		s := x.([]value)
		n := int(instr.Type().Underlying().(*types.Pointer).Elem().Underlying().(*types.Array).Len())
		if len(s) < n {
			panic(tpanic(fmt.Sprintf("cannot convert slice with length %d to array or pointer to array with length %d", len(s), n)))
		}
		if s == nil {
			fr.env[instr] = (*value)(nil)
			break
		}
		// An array pointer aliasing the slice's backing store: the array value shares the elements.
		var box value = array(s[:n:n])
		fr.env[instr] = &box

	case *ssa.MakeInterface:
		fr.env[instr] = iface{t: instr.X.Type(), v: fr.get(instr.X)}

	case *ssa.Extract:
		tv := fr.get(instr.Tuple)
		if p, ok := tv.(poison); ok {
			fr.env[instr] = p
		} else {
			fr.env[instr] = tv.(tuple)[instr.Index]
		}

	case *ssa.Slice:
		fr.env[instr] = c.slice(fr, instr, fr.get(instr.X), fr.get(instr.Low), fr.get(instr.High), fr.get(instr.Max))

	case *ssa.Return:
		switch len(instr.Results) {
		case 0:
		case 1:
			fr.result = fr.get(instr.Results[0])
		default:
			var res []value
			for _, r := range instr.Results {
				res = append(res, fr.get(r))
			}
			fr.result = tuple(res)
		}
		fr.block = nil
		return true

	case *ssa.RunDefers:
		fr.runDefers()

	case *ssa.Panic:
		v := fr.get(instr.X)
		panic(targetPanic{v: v, msg: "panic: " + c.panicString(v) + " at " + c.posStr(instr.Pos())})

	case *ssa.Send:
		ch := fr.get(instr.Chan).(*chanVal)
		if ch == nil {
			c.unsupported("send on nil channel")
		}
		ch.q = append(ch.q, fr.get(instr.X))

	case *ssa.Store:
		addr := fr.get(instr.Addr)
		switch a := addr.(type) {
		case *value:
			if a == nil {
				panic(tpanic("nil pointer dereference (store) at " + c.posStr(instr.Pos())))
			}
			if len(c.frozen) > 0 && c.frozen[a] {
				c.unsupported("store through a merged (frozen) pointer at %s", c.posStr(instr.Pos()))
			}
			store(a, fr.get(instr.Val))
		case symIdxPtr:
			c.storeSymIdx(a, fr.get(instr.Val), instr.Pos())
		case poison:
			if !c.tolerant {
				c.unsupported("store through poison pointer at %s", c.posStr(instr.Pos()))
			}
		default:
			panic(fmt.Sprintf("store: bad addr %T", addr))
		}

	case *ssa.If:
		cond := fr.get(instr.Cond)
		ct, ok := cond.(*Term)
		if !ok {
			if _, isP := cond.(poison); isP {
				c.unsupported("branch on poison at %s", c.posStr(instr.Pos()))
			}
			panic(fmt.Sprintf("If on %T", cond))
		}
		if ct.Op != OpBConst && c.tryMerge(fr, instr, ct) {
			break
		}
		succ := 1
		pos := instr.Pos()
		if pos == token.NoPos {
			// an If has no position of its own: use the nearest preceding positioned instruction
			for i := len(fr.block.Instrs) - 2; i >= 0 && pos == token.NoPos; i-- {
				pos = fr.block.Instrs[i].Pos()
			}
			if pos == token.NoPos {
				pos = fr.fn.Pos()
			}
		}
		if c.decideBool(ct, pos) {
			succ = 0
		}
		fr.prevBlock, fr.block = fr.block, fr.block.Succs[succ]

	case *ssa.Jump:
		fr.prevBlock, fr.block = fr.block, fr.block.Succs[0]

	case *ssa.Defer:
		fn, args := c.prepareCall(fr, &instr.Call)
		defers := &fr.defers
		if instr.DeferStack != nil {
			if into := fr.get(instr.DeferStack); into != nil {
				c.unsupported("defer stacks (range-over-func)")
			}
		}
		*defers = &deferred{fn: fn, args: args, instr: instr, tail: *defers}

	case *ssa.Go:
		fn, args := c.prepareCall(fr, &instr.Call)
		// goroutines are run synchronously: at the spawn point by default, or (option defergo) at the
		// next WaitGroup.Wait / end of harness - the two extreme schedules of a fork-join region
		if c.h != nil && c.h.deferGo && !c.tolerant {
			if c.specDepth > 0 {
				panic(specAbort{"go statement"})
			}
			c.pendingGo = append(c.pendingGo, pendingGo{fn: fn, args: args, fr: fr, pos: instr.Pos()})
		} else {
			c.call(fr, instr.Pos(), fn, args)
		}

	case *ssa.MakeChan:
		n, _ := concreteInt(fr.get(instr.Size))
		fr.env[instr] = &chanVal{cap: int(n)}

	case *ssa.Alloc:
		var addr *value
		if instr.Heap {
			addr = new(value)
			fr.env[instr] = addr
		} else {
			addr = fr.env[instr].(*value)
		}
		*addr = zero(deref(instr.Type()))

	case *ssa.MakeSlice:
		capv := c.concretize(fr.get(instr.Cap), "make cap", instr.Pos(), 0, int64(c.h.maxMake))
		lenv := c.concretize(fr.get(instr.Len), "make len", instr.Pos(), 0, capv)
		if lenv < 0 || capv < lenv {
			panic(tpanic("makeslice: len out of range"))
		}
		if capv > int64(c.h.maxMake) {
			c.unsupported("make of %d elements exceeds bound %d at %s", capv, c.h.maxMake, c.posStr(instr.Pos()))
		}
		sl := make([]value, capv)
		tElt := instr.Type().Underlying().(*types.Slice).Elem()
		z := zero(tElt)
		for i := range sl {
			sl[i] = copyVal(z)
		}
		fr.env[instr] = sl[:lenv]

	case *ssa.MakeMap:
		fr.env[instr] = newMap(instr.Type().Underlying().(*types.Map))

	case *ssa.Range:
		fr.env[instr] = c.rangeIter(fr.get(instr.X), instr.X.Type())

	case *ssa.Next:
		fr.env[instr] = fr.get(instr.Iter).(iter).next(c)

	case *ssa.FieldAddr:
		x := fr.get(instr.X)
		switch p := x.(type) {
		case *value:
			if p == nil {
				panic(tpanic("nil pointer dereference (field " + fieldName(instr.X.Type(), instr.Field) + ") at " + c.posStr(instr.Pos())))
			}
			switch s := (*p).(type) {
			case structure:
				fr.env[instr] = &s[instr.Field]
			case poison:
				fr.env[instr] = s
			default:
				c.unsupported("FieldAddr into opaque %T (%s) at %s", s, instr.X.Type(), c.posStr(instr.Pos()))
			}
		case poison:
			fr.env[instr] = p
		case symIdxPtr:
			cp := c.concretizeIdxPtr(p, instr.Pos())
			fr.env[instr] = &(*cp).(structure)[instr.Field]
		default:
			panic(fmt.Sprintf("FieldAddr: %T", x))
		}

	case *ssa.Field:
		x := fr.get(instr.X)
		switch s := x.(type) {
		case structure:
			fr.env[instr] = s[instr.Field]
		case poison:
			fr.env[instr] = s
		default:
			c.unsupported("Field of opaque %T at %s", x, c.posStr(instr.Pos()))
		}

	case *ssa.IndexAddr:
		fr.env[instr] = c.indexAddr(fr, instr)

	case *ssa.Index:
		fr.env[instr] = c.index(fr, instr)

	case *ssa.Lookup:
		fr.env[instr] = c.lookup(instr, fr.get(instr.X), fr.get(instr.Index))

	case *ssa.MapUpdate:
		m := fr.get(instr.Map)
		mv, ok := m.(*mapVal)
		if !ok {
			if _, isP := m.(poison); isP && c.tolerant {
				break
			}
			panic(fmt.Sprintf("MapUpdate on %T", m))
		}
		if mv == nil {
			panic(tpanic("assignment to entry in nil map at " + c.posStr(instr.Pos())))
		}
		c.mapInsert(mv, fr.get(instr.Key), fr.get(instr.Value))

	case *ssa.TypeAssert:
		fr.env[instr] = c.typeAssert(instr, fr.get(instr.X))

	case *ssa.MakeClosure:
		var bindings []value
		for _, b := range instr.Bindings {
			bindings = append(bindings, fr.get(b))
		}
		fr.env[instr] = &closure{instr.Fn.(*ssa.Function), bindings}

	case *ssa.Phi:
		panic("unreachable: phi")

	case *ssa.Select:
		c.unsupported("select at %s", c.posStr(instr.Pos()))

	default:
		panic(fmt.Sprintf("unexpected instruction: %T", instr))
	}
	return false
}

func fieldName(ptrT types.Type, i int) string {
	defer func() { recover() }()
	st := deref(ptrT).Underlying().(*types.Struct)
	return st.Field(i).Name()
}

func deref(t types.Type) types.Type {
	if p, ok := t.Underlying().(*types.Pointer); ok {
		return p.Elem()
	}
	panic(fmt.Sprintf("deref of non-pointer %s", t))
}

func (c *Ctx) prepareCall(fr *frame, call *ssa.CallCommon) (fn value, args []value) {
	v := fr.get(call.Value)
	if call.Method == nil {
		fn = v
	} else {
		recv, ok := v.(iface)
		if !ok {
			if _, isP := v.(poison); isP {
				return v, nil
			}
			panic(fmt.Sprintf("invoke on %T", v))
		}
		if recv.t == nil {
			if isLogPkg(call.Method.Pkg()) {
				return noopFn{sig: call.Method.Type().(*types.Signature), name: call.Method.Name()}, nil
			}
			panic(tpanic("nil pointer dereference: method " + call.Method.Name() + " invoked on nil interface at " + c.posStr(call.Pos())))
		}
		f := c.eng.prog.LookupMethod(recv.t, call.Method.Pkg(), call.Method.Name())
		if f == nil {
			panic(fmt.Sprintf("method set for dynamic type %v does not contain %s", recv.t, call.Method))
		}
		fn = f
		args = append(args, recv.v)
	}
	for _, arg := range call.Args {
		args = append(args, fr.get(arg))
	}
	return
}

// noopFn is a callable that returns zero results (used for logging on nil loggers).
type noopFn struct {
	sig  *types.Signature
	name string
}

func isLogPkg(p *types.Package) bool {
	if p == nil {
		return false
	}
	pp := p.Path()
	return pp == "github.com/sirupsen/logrus" || pp == "github.com/dominant-strategies/go-quai/log" || strings.HasPrefix(pp, "github.com/prometheus/")
}

func zeroResults(sig *types.Signature) value {
	r := sig.Results()
	switch r.Len() {
	case 0:
		return nil
	case 1:
		return zero(r.At(0).Type())
	}
	return zero(r)
}

func (c *Ctx) call(caller *frame, callpos token.Pos, fn value, args []value) value {
	switch fn := fn.(type) {
	case *ssa.Function:
		if fn == nil {
			panic(tpanic("call of nil function at " + c.posStr(callpos)))
		}
		return c.callSSA(caller, callpos, fn, args, nil)
	case *closure:
		return c.callSSA(caller, callpos, fn.Fn, args, fn.Env)
	case *ssa.Builtin:
		return c.callBuiltin(caller, callpos, fn, args)
	case noopFn:
		if strings.HasPrefix(fn.name, "Fatal") || strings.HasPrefix(fn.name, "Panic") {
			panic(tpanic("log." + fn.name + " at " + c.posStr(callpos)))
		}
		return zeroResults(fn.sig)
	case poison:
		if c.tolerant {
			return fn
		}
		c.unsupported("call of poison function value at %s", c.posStr(callpos))
	}
	panic(fmt.Sprintf("cannot call %T at %s", fn, c.posStr(callpos)))
}

const maxDepth = 400

func (c *Ctx) callSSA(caller *frame, callpos token.Pos, fn *ssa.Function, args []value, env []value) (result value) {
	depth := 0
	if caller != nil {
		depth = caller.depth + 1
	}
	if depth > maxDepth {
		panic(pathAbort{"bound", "call depth exceeded in " + fn.String()})
	}
	fr := &frame{c: c, caller: caller, fn: fn, depth: depth, spec: c.specDepth > 0}
	if c.trace {
		fmt.Fprintf(os.Stderr, "%s-> %s (%s)\n", strings.Repeat(" ", depth), fn, c.posStr(callpos))
	}
	if c.tolerant && depth > 0 {
		defer func() {
			if r := recover(); r != nil {
				if pa, ok := r.(pathAbort); ok && (pa.kind == "unsupported" || pa.kind == "bound") {
					result = poison{pa.msg}
					return
				}
				panic(r)
			}
		}()
	}
	if fn.Parent() == nil {
		if depth > 0 && fn.Name() == "init" && fn.Pkg != nil && fn.Signature.Recv() == nil && len(fn.Params) == 0 && fn.Pkg.Func("init") == fn {
			// package initialisers are run lazily, on first access to one of the package's globals
			return nil
		}
		if res, handled := c.intercept(fr, fn, args, callpos); handled {
			return res
		}
	}
	if fn.Blocks == nil {
		c.unsupported("no SSA body for %s (called at %s)", fn, c.posStr(callpos))
	}
	if fn.TypeParams().Len() > 0 && len(fn.TypeArgs()) == 0 {
		c.unsupported("uninstantiated generic %s", fn)
	}
	c.covered(fn)
	fr.env = make(map[ssa.Value]value, 16)
	fr.block = fn.Blocks[0]
	fr.locals = make([]value, len(fn.Locals))
	for i, l := range fn.Locals {
		fr.locals[i] = zero(deref(l.Type()))
		fr.env[l] = &fr.locals[i]
	}
	if len(args) != len(fn.Params) {
		panic(fmt.Sprintf("callSSA %s: %d args for %d params", fn, len(args), len(fn.Params)))
	}
	for i, p := range fn.Params {
		fr.env[p] = args[i]
	}
	for i, fv := range fn.FreeVars {
		fr.env[fv] = env[i]
	}
	for fr.block != nil {
		c.runFrame(fr)
	}
	return fr.result
}

func (c *Ctx) runFrame(fr *frame) {
	defer func() {
		if fr.block == nil {
			return // normal return
		}
		r := recover()
		if pa, ok := r.(pathAbort); ok {
			panic(pa)
		}
		if sa, ok := r.(specAbort); ok {
			panic(sa)
		}
		if _, ok := r.(targetPanic); !ok {
			// engine limitation or Go runtime error inside the interpreter: the path is inconclusive
			msg := fmt.Sprintf("engine: %v (in %s)", r, fr.fn)
			if os.Getenv("GOSYM_DEBUG") != "" {
				msg += "\n" + string(debug.Stack())
			}
			panic(pathAbort{"unsupported", msg})
		}
		fr.panicking = true
		fr.panic = r
		fr.runDefers() // re-panics if not recovered
		fr.block = fr.fn.Recover
		if fr.block == nil {
			// recovered, function without named results: return zero values
			fr.result = zeroResults(fr.fn.Signature)
		}
	}()
	for {
		nonPhis := c.executePhis(fr)
		for _, instr := range nonPhis {
			if c.trace2 {
				if v, ok := instr.(ssa.Value); ok {
					fmt.Fprintf(os.Stderr, "%s   %s = %s\n", strings.Repeat(" ", fr.depth), v.Name(), instr)
				} else {
					fmt.Fprintf(os.Stderr, "%s   %s\n", strings.Repeat(" ", fr.depth), instr)
				}
			}
			if c.tolerant && fr.caller == nil {
				if c.tolerantInstr(fr, instr) {
					return
				}
				continue
			}
			if c.visitInstr(fr, instr) {
				return
			}
		}
	}
}

// tolerantInstr executes one instruction of a package initialiser; an unsupported operation
// poisons the instruction's result instead of aborting the initialiser.
func (c *Ctx) tolerantInstr(fr *frame, instr ssa.Instruction) (ret bool) {
	defer func() {
		if r := recover(); r != nil {
			pa, ok := r.(pathAbort)
			if !ok || (pa.kind != "unsupported" && pa.kind != "bound") {
				panic(r)
			}
			if _, isCtl := instr.(*ssa.If); isCtl {
				panic(r)
			}
			if v, ok := instr.(ssa.Value); ok {
				fr.env[v] = poison{pa.msg}
			}
			ret = false
		}
	}()
	return c.visitInstr(fr, instr)
}

func (c *Ctx) executePhis(fr *frame) []ssa.Instruction {
	firstNonPhi := -1
	for i, instr := range fr.block.Instrs {
		if _, ok := instr.(*ssa.Phi); !ok {
			firstNonPhi = i
			break
		}
	}
	nonPhis := fr.block.Instrs[firstNonPhi:]
	if fr.phisDone == fr.block {
		fr.phisDone = nil
		return nonPhis
	}
	if firstNonPhi > 0 {
		phis := fr.block.Instrs[:firstNonPhi]
		predIndex := -1
		for i, p := range fr.block.Preds {
			if p == fr.prevBlock {
				predIndex = i
				break
			}
		}
		fr.phitemps = fr.phitemps[:0]
		for _, phi := range phis {
			fr.phitemps = append(fr.phitemps, fr.get(phi.(*ssa.Phi).Edges[predIndex]))
		}
		for i, phi := range phis {
			fr.env[phi.(*ssa.Phi)] = fr.phitemps[i]
		}
	}
	return nonPhis
}

func (c *Ctx) doRecover(caller *frame) value {
	if caller != nil && !caller.panicking && caller.caller != nil && caller.caller.panicking {
		caller.caller.panicking = false
		p := caller.caller.panic
		caller.caller.panic = nil
		switch p := p.(type) {
		case targetPanic:
			return p.v
		default:
			panic(fmt.Sprintf("unexpected panic type %T in recover()", p))
		}
	}
	return iface{}
}

func (c *Ctx) panicString(v value) string {
	if i, ok := v.(iface); ok {
		switch x := i.v.(type) {
		case string:
			return x
		case *Term:
			return x.String()
		}
		if i.t != nil {
			// error or Stringer: try Error()
			if m := c.eng.findMethod(i.t, "Error"); m != nil {
				var s string
				func() {
					defer func() {
						if r := recover(); r != nil {
							s = fmt.Sprintf("<%s>", i.t)
						}
					}()
					r := c.callSSA(nil, token.NoPos, m, []value{i.v}, nil)
					if str, ok := r.(string); ok {
						s = str
					} else {
						s = fmt.Sprintf("<%s>", i.t)
					}
				}()
				return s
			}
			return fmt.Sprintf("<%s>", i.t)
		}
	}
	return toDebug(v)
}
