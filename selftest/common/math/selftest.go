//go:build verif

package math

import (
	"errors"
	"math/big"
)

// Engine self-tests: "pass" harnesses state facts of Go semantics that must be proved for all
// inputs; "fail" harnesses state falsehoods that must come back sat and reproduce concretely.

type stShape interface{ area() uint64 }
type stSq struct{ s uint64 }

func (q stSq) area() uint64 { return q.s * q.s }

func stRecover(f func()) (msg string) {
	defer func() {
		if r := recover(); r != nil {
			msg = "recovered"
		}
	}()
	f()
	return "ok"
}

func VerifH_T00_pass_ints() {
	a, b := vU8("a"), vU8("b")
	vAssert("u8-add-wraps", a+b == uint8((uint16(a)+uint16(b))%256))
	vAssert("u8-sub-wraps", a-b == uint8((256+uint16(a)-uint16(b))%256))
	x := vI64("x")
	for _, y := range []int64{7, -7, 1, -1} {
		q, r := x/y, x%y
		if !(x == -9223372036854775808 && y == -1) {
			vAssert("trunc-div-identity", q*y+r == x)
			vAssert("rem-sign", r == 0 || (r < 0) == (x < 0))
			vAssert("rem-small", r < 7 && r > -7)
		}
	}
	u := vU64("u")
	vAssert("shift-right-div", u>>3 == u/8)
	vAssert("shift-left-wrap", (u<<63)>>63 == u&1)
	vAssert("mask", u&0xff == u%256)
	vAssert("xor-self", u^u == 0)
	vAssert("not", ^u == 18446744073709551615-u)
	vAssert("i8-conv", int8(a) == int8(int16(a)) && (int8(a) < 0) == (a >= 128))
	vAssert("signed-shift", x>>1 <= x || x < 0)
	vReach("end")
}

func VerifH_T00_pass_data() {
	n := vLen("n", 3)
	bs := vBytes("bs", n)
	s := string(bs)
	vAssert("string-len", len(s) == n)
	m := map[string]int{}
	m[s] = 7
	k := string(vBytes("k", n))
	if v, ok := m[k]; ok {
		vAssert("map-hit-means-equal", k == s && v == 7)
	} else {
		vAssert("map-miss-means-differ", k != s)
	}
	arr := [4]uint64{1, 2, 3, 4}
	i := vU8("i")
	if i < 4 {
		vAssert("sym-index", arr[i] == uint64(i)+1)
		arr[i] = 9
		vAssert("sym-store", arr[i] == 9 && arr[(i+1)%4] == uint64((i+1)%4)+1)
	}
	var sh stShape = stSq{vU64("side") % 1000}
	vAssert("iface-call", sh.area() < 1000000)
	vAssert("recover", stRecover(func() { panic("x") }) == "recovered" && stRecover(func() {}) == "ok")
	e1 := errors.New("a")
	vAssert("errors-is", errors.Is(e1, e1) && !errors.Is(e1, errors.New("a")))
	sl := append([]byte{1, 2}, bs...)
	vAssert("append-len", len(sl) == 2+n)
	vReach("end")
}

func VerifH_T00_pass_big() {
	x, y := vBig("x"), vBig("y")
	s := new(big.Int).Add(x, y)
	vAssert("add-sub", new(big.Int).Sub(s, y).Cmp(x) == 0)
	if y.Sign() > 0 && x.Sign() >= 0 {
		q, r := new(big.Int).QuoRem(x, y, new(big.Int))
		vAssert("quorem", new(big.Int).Add(new(big.Int).Mul(q, y), r).Cmp(x) == 0 && r.Cmp(y) < 0 && r.Sign() >= 0)
	}
	z := vBigN("z", 64)
	vAssert("bytes-roundtrip", new(big.Int).SetBytes(z.Bytes()).Cmp(z) == 0)
	vAssert("uint64", z.IsUint64() && new(big.Int).SetUint64(z.Uint64()).Cmp(z) == 0)
	vAssert("u256", U256(new(big.Int).Set(z)).Cmp(z) == 0)
	vReach("end")
}

func VerifH_T00_fail_wrap() {
	a, b := vU8("a"), vU8("b")
	vReach("start")
	vAssert("no-wrap-claimed", a+b >= a)
}

func VerifH_T00_fail_panic() {
	arr := []byte{1, 2, 3}
	i := vU8("i")
	vReach("start")
	_ = arr[i]
}

func VerifH_T00_fail_big() {
	x := vBig("x")
	vReach("start")
	vAssert("square-positive-claimed", new(big.Int).Mul(x, x).Sign() > 0)
}
