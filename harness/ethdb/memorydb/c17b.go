//go:build verif

package memorydb

import (
	"bytes"
)

func c17Value(tag string) []byte {
	switch vLen(tag+"Kind", 2) {
	case 0:
		return nil
	case 1:
		return []byte{}
	default:
		return vBytes(tag, 1)
	}
}

// H-C17-b-mem: the in-memory backend has the key-value semantics every backend must have, including
// for nil and empty values (a key written with an empty or nil value is present). An arbitrary
// history of <= 3 operations on arbitrary one-byte keys (aliasing decided by the solver) — Put of a
// nil / empty / one-byte value or Delete, each either directly on the database or through a batch
// that is then written — followed by a query of an arbitrary key: Has answers whether the last
// operation on the key was a Put; Get returns that value (as an empty or equal byte string) or the
// not-found error; the two agree. Replaying the written batch into a fresh database gives a
// database that answers the same for the keys the batch touched.
func VerifH_C17_b_mem() {
	db := New(nil)
	n := vLen("nOps", 3)
	keys := make([][]byte, n)
	vals := make([][]byte, n)
	dels := make([]bool, n)
	viaBatch := vBool("throughBatch")
	b := db.NewBatch()
	for i := 0; i < n; i++ {
		t := "op" + string(rune('A'+i))
		keys[i] = vBytes(t+"Key", 1)
		dels[i] = vBool(t + "IsDelete")
		if !dels[i] {
			vals[i] = c17Value(t + "Value")
		}
		var err error
		switch {
		case viaBatch && dels[i]:
			err = b.Delete(keys[i])
		case viaBatch:
			err = b.Put(keys[i], vals[i])
		case dels[i]:
			err = db.Delete(keys[i])
		default:
			err = db.Put(keys[i], vals[i])
		}
		vAssert("op/no-error", err == nil)
	}
	if viaBatch {
		vAssert("batch/write-no-error", b.Write() == nil)
	}
	q := vBytes("query", 1)
	present := false
	var want []byte
	for i := n - 1; i >= 0; i-- {
		if bytes.Equal(keys[i], q) {
			present, want = !dels[i], vals[i]
			break
		}
	}
	has, herr := db.Has(q)
	got, gerr := db.Get(q)
	vReach("queried")
	vAssert("store/has-iff-last-op-was-put", herr == nil && has == present)
	vAssert("store/get-agrees-with-has", (gerr == nil) == present)
	if present {
		vAssert("store/get-returns-last-value", bytes.Equal(got, want))
	}
	if viaBatch {
		fresh := New(nil)
		vAssert("replay/no-error", b.Replay(fresh) == nil)
		fhas, _ := fresh.Has(q)
		touched := false
		for i := range keys {
			if bytes.Equal(keys[i], q) {
				touched = true
			}
		}
		if touched {
			vAssert("replay/same-answer-for-touched-keys", fhas == present)
		}
	}
}
