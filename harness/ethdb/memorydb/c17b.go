//go:build verif

package memorydb

import (
	"bytes"
)

func c17Value(tag string) []byte {
	switch vLen(tag+"Kind", 2) {
	case 0:
		return nil
	case 1:
		return []byte{}
	default:
		return vBytes(tag, 1)
	}
}

// H-C17-b-mem: the in-memory backend has the key-value semantics every backend must have, including
// for nil and empty values (a key written with an empty or nil value is present). An arbitrary
// history of <= 3 operations on arbitrary one-byte keys (aliasing decided by the solver) — Put of a
// nil / empty / one-byte value or Delete, each either directly on the database or through a batch
// that is then written — followed by a query of an arbitrary key: Has answers whether the last
// operation on the key was a Put; Get returns that value (as an empty or equal byte string) or the
// not-found error; the two agree. Replaying the written batch into a fresh database gives a
// database that answers the same for the keys the batch touched.
func VerifH_C17_b_mem() {
	db := New(nil)
	n := vLen("nOps", 3)
	keys := make([][]byte, n)
	vals := make([][]byte, n)
	dels := make([]bool, n)
	viaBatch := vBool("throughBatch")
	b := db.NewBatch()
	for i := 0; i < n; i++ {
		t := "op" + string(rune('A'+i))
		keys[i] = vBytes(t+"Key", 1)
		dels[i] = vBool(t + "IsDelete")
		if !dels[i] {
			vals[i] = c17Value(t + "Value")
		}
		var err error
		switch {
		case viaBatch && dels[i]:
			err = b.Delete(keys[i])
		case viaBatch:
			err = b.Put(keys[i], vals[i])
		case dels[i]:
			err = db.Delete(keys[i])
		default:
			err = db.Put(keys[i], vals[i])
		}
		vAssert("op/no-error", err == nil)
	}
	if viaBatch {
		vAssert("batch/write-no-error", b.Write() == nil)
	}
	q := vBytes("query", 1)
	present := false
	var want []byte
	for i := n - 1; i >= 0; i-- {
		if bytes.Equal(keys[i], q) {
			present, want = !dels[i], vals[i]
			break
		}
	}
	has, herr := db.Has(q)
	got, gerr := db.Get(q)
	vReach("queried")
	vAssert("store/has-iff-last-op-was-put", herr == nil && has == present)
	vAssert("store/get-agrees-with-has", (gerr == nil) == present)
	if present {
		vAssert("store/get-returns-last-value", bytes.Equal(got, want))
	}
	if viaBatch {
		fresh := New(nil)
		vAssert("replay/no-error", b.Replay(fresh) == nil)
		fhas, _ := fresh.Has(q)
		touched := false
		for i := range keys {
			if bytes.Equal(keys[i], q) {
				touched = true
			}
		}
		if touched {
			vAssert("replay/same-answer-for-touched-keys", fhas == present)
		}
	}
}

// H-C17-d-mem: the backend owns what it was given. Callers reuse their key and value buffers (the stack trie
// hands its hasher's scratch buffer to Put; rawdb writers reuse encoding buffers): a put — direct or through a
// batch — must capture the bytes at the moment of the call, as leveldb and pebble do by serialising into their
// own batch buffer. One put of an arbitrary non-empty value under an arbitrary key, directly or through a batch;
// then the caller overwrites both of its buffers; then (for a batch) Write, or Replay into a fresh database:
// the store holds the value that was issued under the key that was issued, and a buffer returned by Get is not
// the store's own memory (writing into it does not change what the next Get returns).
func VerifH_C17_d_mem() {
	db := New(nil)
	key := []byte{vU8("key")}
	val := []byte{vU8("value0"), vU8("value1")}
	k0, v0, v1 := key[0], val[0], val[1]
	viaBatch := vBool("throughBatch")
	replay := false
	b := db.NewBatch()
	if viaBatch {
		vAssert("put/no-error", b.Put(key, val) == nil)
		replay = vBool("replayedIntoAnotherDatabase")
	} else {
		vAssert("put/no-error", db.Put(key, val) == nil)
	}
	// the caller recycles its buffers
	key[0] = k0 + 1
	val[0], val[1] = v0+1, v1+1
	target := db
	if viaBatch {
		if replay {
			target = New(nil)
			vAssert("replay/no-error", b.Replay(target) == nil)
		} else {
			vAssert("write/no-error", b.Write() == nil)
		}
	}
	vReach("committed")
	got, err := target.Get([]byte{k0})
	vAssert("owned/value-issued-is-value-stored", err == nil && len(got) == 2 && got[0] == v0 && got[1] == v1)
	other, _ := target.Has([]byte{k0 + 1})
	vAssert("owned/key-issued-is-key-stored", !other)
	got[0] = v0 + 7
	again, err2 := target.Get([]byte{k0})
	vAssert("owned/get-hands-out-a-copy", err2 == nil && len(again) == 2 && again[0] == v0)
}

// H-C17-e-mem: iteration over the memory backend has the semantics every backend must have (the table wrapper
// and every rawdb range scan — UTXO set, lockups, address index — depend on it): NewIterator(prefix, start)
// yields exactly the stored keys that carry the prefix and are not below prefix‖start, each once, in ascending
// byte order, with the value stored under it. Two entries with arbitrary two-byte keys (first byte one of two
// prefixes), an arbitrary one-byte start (or none), iteration under one of the prefixes or under the empty
// prefix.
func VerifH_C17_e_mem() {
	db := New(nil)
	k1 := []byte{0x50 + vU8("k1Prefix")%2, vU8("k1")}
	k2 := []byte{0x50 + vU8("k2Prefix")%2, vU8("k2")}
	vAssume(k1[0] != k2[0] || k1[1] != k2[1])
	db.Put(k1, []byte{1})
	db.Put(k2, []byte{2})
	var prefix, start []byte
	if vBool("withPrefix") {
		prefix = []byte{0x50 + vU8("iterPrefix")%2}
	}
	if vBool("withStart") {
		start = []byte{vU8("start")}
	}
	lower := append(append([]byte{}, prefix...), start...)
	want := func(k []byte) bool {
		if len(prefix) == 1 && k[0] != prefix[0] {
			return false
		}
		// k >= lower in byte order (lower has 0..2 bytes, k has 2)
		for i := 0; i < len(lower); i++ {
			if k[i] != lower[i] {
				return k[i] > lower[i]
			}
		}
		return true
	}
	less := func(a, b []byte) bool { return a[0] < b[0] || (a[0] == b[0] && a[1] < b[1]) }
	it := db.NewIterator(prefix, start)
	var gotK [][]byte
	var gotV []byte
	for it.Next() {
		gotK = append(gotK, append([]byte{}, it.Key()...))
		gotV = append(gotV, it.Value()[0])
	}
	it.Release()
	vReach("iterated")
	n := 0
	if want(k1) {
		n++
	}
	if want(k2) {
		n++
	}
	vAssert("iterate/exactly-the-matching-keys", len(gotK) == n)
	for i, k := range gotK {
		is1 := k[0] == k1[0] && k[1] == k1[1]
		is2 := k[0] == k2[0] && k[1] == k2[1]
		vAssert("iterate/only-stored-matching-keys", (is1 && want(k1)) || (is2 && want(k2)))
		vAssert("iterate/value-belongs-to-key", (is1 && gotV[i] == 1) || (is2 && gotV[i] == 2))
		if i > 0 {
			vAssert("iterate/ascending-order", less(gotK[i-1], k))
		}
	}
}
