//go:build verif

package pebble

import (
	"bytes"

	"github.com/cockroachdb/pebble"
	"github.com/dominant-strategies/go-quai/ethdb"
)

// checkPendingTracking drives a batch with pending tracking enabled through an arbitrary sequence
// of up to maxOps Put/Delete operations on arbitrary 1-byte keys (aliasing between keys is decided
// by the solver) and compares GetPending of an arbitrary query key with the reference semantics:
// (deleted?, latest value) of the last operation on that key, (false, nil) if untouched.
func checkPendingTracking(b ethdb.Batch, maxOps int) {
	b.SetPending(true)
	n := vLen("nOps", maxOps)
	keys := make([][]byte, n)
	vals := make([][]byte, n)
	dels := make([]bool, n)
	for i := 0; i < n; i++ {
		keys[i] = vBytes("key", 1)
		dels[i] = vBool("isDelete")
		if dels[i] {
			if err := b.Delete(keys[i]); err != nil {
				vAssert("batch/delete-no-error", false)
			}
		} else {
			vals[i] = vBytes("val", 1)
			if err := b.Put(keys[i], vals[i]); err != nil {
				vAssert("batch/put-no-error", false)
			}
		}
	}
	q := vBytes("query", 1)
	refFound, refDel := false, false
	var refVal []byte
	for i := n - 1; i >= 0; i-- {
		if bytes.Equal(keys[i], q) {
			refFound, refDel, refVal = true, dels[i], vals[i]
			break
		}
	}
	del, v := b.GetPending(q)
	vReach("queried")
	if refFound && refDel {
		vFact("case", "deleted-in-batch")
		vAssert("pending/reports-own-delete", del && v == nil)
	} else if refFound {
		vFact("case", "put-in-batch")
		vAssert("pending/reports-own-put", !del && v != nil && bytes.Equal(v, refVal))
	} else {
		vFact("case", "untouched")
		vAssert("pending/untouched-key", !del && v == nil)
	}
	b.Reset()
	del, v = b.GetPending(q)
	vAssert("pending/cleared-by-reset", !del && v == nil)
}

func stubPebbleSet(b *pebble.Batch, key, value []byte, o *pebble.WriteOptions) error { return nil }
func stubPebbleDelete(b *pebble.Batch, key []byte, o *pebble.WriteOptions) error    { return nil }
func stubPebbleReset(b *pebble.Batch)                                              {}

// H-C17-a-pebble: pebble batch wrapper (the pebble batch itself is stubbed away: external engine).
//
// verif:stub (*github.com/cockroachdb/pebble.Batch).Set => stubPebbleSet
// verif:stub (*github.com/cockroachdb/pebble.Batch).Delete => stubPebbleDelete
// verif:stub (*github.com/cockroachdb/pebble.Batch).Reset => stubPebbleReset
func VerifH_C17_a_pebble() {
	checkPendingTracking(&batch{b: new(pebble.Batch), db: &Database{}}, 3)
}

// H-C17-c-pebble: the iteration upper bound pebble is given for a prefix is exact: for every prefix
// of 0..2 bytes and every key of 0..3 bytes, a key carrying the prefix is below the bound, and a key
// at or above the prefix and below the bound carries the prefix (so prefix iteration returns exactly
// the live keys with the prefix, as on the other backends). A nil bound means "no upper limit" and
// is returned exactly when the prefix is empty or all 0xff.
func VerifH_C17_c_pebble() {
	prefix := vBytes("prefix", vLen("prefixLen", 2))
	key := vBytes("key", vLen("keyLen", 3))
	bound := upperBound(prefix)
	vReach("bounded")
	allFF := true
	for _, b := range prefix {
		if b != 0xff {
			allFF = false
		}
	}
	vAssert("bound/nil-iff-no-upper-limit", (bound == nil) == allFF)
	has := bytes.HasPrefix(key, prefix)
	if bound == nil {
		return
	}
	if has {
		vAssert("bound/covers-every-prefixed-key", bytes.Compare(key, bound) < 0)
	}
	if bytes.Compare(key, prefix) >= 0 && bytes.Compare(key, bound) < 0 {
		vAssert("bound/admits-only-prefixed-keys", has)
	}
}
