//go:build verif

package pebble

import (
	"bytes"

	"github.com/cockroachdb/pebble"
	"github.com/dominant-strategies/go-quai/ethdb"
)

// checkPendingTracking drives a batch with pending tracking enabled through an arbitrary sequence
// of up to maxOps Put/Delete operations on arbitrary 1-byte keys (aliasing between keys is decided
// by the solver) and compares GetPending of an arbitrary query key with the reference semantics:
// (deleted?, latest value) of the last operation on that key, (false, nil) if untouched.
func checkPendingTracking(b ethdb.Batch, maxOps int) {
	b.SetPending(true)
	n := vLen("nOps", maxOps)
	keys := make([][]byte, n)
	vals := make([][]byte, n)
	dels := make([]bool, n)
	for i := 0; i < n; i++ {
		keys[i] = vBytes("key", 1)
		dels[i] = vBool("isDelete")
		if dels[i] {
			if err := b.Delete(keys[i]); err != nil {
				vAssert("batch/delete-no-error", false)
			}
		} else {
			vals[i] = vBytes("val", 1)
			if err := b.Put(keys[i], vals[i]); err != nil {
				vAssert("batch/put-no-error", false)
			}
		}
	}
	q := vBytes("query", 1)
	refFound, refDel := false, false
	var refVal []byte
	for i := n - 1; i >= 0; i-- {
		if bytes.Equal(keys[i], q) {
			refFound, refDel, refVal = true, dels[i], vals[i]
			break
		}
	}
	del, v := b.GetPending(q)
	vReach("queried")
	if refFound && refDel {
		vFact("case", "deleted-in-batch")
		vAssert("pending/reports-own-delete", del && v == nil)
	} else if refFound {
		vFact("case", "put-in-batch")
		vAssert("pending/reports-own-put", !del && v != nil && bytes.Equal(v, refVal))
	} else {
		vFact("case", "untouched")
		vAssert("pending/untouched-key", !del && v == nil)
	}
	b.Reset()
	del, v = b.GetPending(q)
	vAssert("pending/cleared-by-reset", !del && v == nil)
}

func stubPebbleSet(b *pebble.Batch, key, value []byte, o *pebble.WriteOptions) error { return nil }
func stubPebbleDelete(b *pebble.Batch, key []byte, o *pebble.WriteOptions) error    { return nil }
func stubPebbleReset(b *pebble.Batch)                                              {}

// H-C17-a-pebble: pebble batch wrapper (the pebble batch itself is stubbed away: external engine).
//
// verif:stub (*github.com/cockroachdb/pebble.Batch).Set => stubPebbleSet
// verif:stub (*github.com/cockroachdb/pebble.Batch).Delete => stubPebbleDelete
// verif:stub (*github.com/cockroachdb/pebble.Batch).Reset => stubPebbleReset
func VerifH_C17_a_pebble() {
	checkPendingTracking(&batch{b: new(pebble.Batch), db: &Database{}}, 3)
}
