//go:build verif

package misc

import (
	"math/big"

	"github.com/dominant-strategies/go-quai/core/types"
)

// stubQuaiReward / stubQiReward: the per-block rates are functions of the header only; for the
// round-trip property they are arbitrary positive integers (both real functions clamp to >= 1).
func stubQuaiReward(header *types.WorkObjectHeader, difficulty *big.Int, exchangeRate *big.Int) *big.Int {
	r := vUFBig("quaiReward", difficulty, exchangeRate)
	vAssume(r.Sign() > 0)
	return r
}

func stubQiReward(header *types.WorkObjectHeader, difficulty *big.Int) *big.Int {
	r := vUFBig("qiReward", difficulty)
	vAssume(r.Sign() > 0)
	return r
}

// H-C20-a: converting back and forth at a fixed rate never yields more than was started with.
// Real QiToQuai / QuaiToQi; rates are arbitrary positive integers (unbounded), amounts arbitrary >= 0.
//
// verif:stub consensus/misc.CalculateQuaiReward => stubQuaiReward
// verif:stub consensus/misc.CalculateQiReward => stubQiReward
func VerifH_C20_a() {
	block := types.EmptyWorkObject(2)
	rate := vBig("exchangeRate")
	diff := vBig("difficulty")
	vAssume(rate.Sign() > 0)
	vAssume(diff.Sign() > 0)
	x := vBig("quaiAmount")
	vAssume(x.Sign() >= 0)
	qi := QuaiToQi(block, rate, diff, x)
	back := QiToQuai(block, rate, diff, qi)
	vReach("quai-qi-quai")
	vAssert("roundtrip/quai-qi-quai-no-gain", back.Cmp(x) <= 0)
	vAssert("roundtrip/qi-nonneg", qi.Sign() >= 0)

	y := vBig("qiAmount")
	vAssume(y.Sign() >= 0)
	quai := QiToQuai(block, rate, diff, y)
	back2 := QuaiToQi(block, rate, diff, quai)
	vReach("qi-quai-qi")
	vAssert("roundtrip/qi-quai-qi-no-gain", back2.Cmp(y) <= 0)
}

// H-C20-b: FindMinDenominations splits an amount into Qi denominations without remainder and
// without creating value: sum(count[d] * denomination[d]) == amount, for every amount below the
// bound (quick: < 200 000 qits, i.e. denominations 0..10 can be non-zero).
//
// verif:bounds decisions=200
func VerifH_C20_b() {
	amount := vBig("amount")
	vAssume(amount.Sign() >= 0)
	vAssume(amount.Cmp(big.NewInt(200000)) < 0)
	res := FindMinDenominations(amount)
	sum := new(big.Int)
	for d, cnt := range res {
		vAssert("denominations/valid-denomination", d <= types.MaxDenomination)
		vAssert("denominations/count-positive", cnt > 0)
		sum.Add(sum, new(big.Int).Mul(new(big.Int).SetUint64(cnt), types.Denominations[d]))
	}
	vReach("split")
	vAssert("denominations/sum-equals-amount", sum.Cmp(amount) == 0)
}
