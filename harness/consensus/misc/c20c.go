//go:build verif

package misc

import (
	"math/big"

	"github.com/dominant-strategies/go-quai/common"
	"github.com/dominant-strategies/go-quai/core/types"
)

// H-C20-c: the conversion volume of a block counts every accepted conversion, whatever its position. The
// discount every conversion of a prime block receives is a decreasing function of the block's total conversion
// volume (ComputeConversionAmountInQuai, called by Slice.Append, the exchange-rate check and the worker right
// after refused conversions have had their value set to zero), so an understated volume credits more than the
// rate allows. For a list of 1..3 inbound ETXs, each a conversion to a Qi or a Quai address or an ordinary ETX,
// each conversion either refused (value zero) or accepted (arbitrary positive value), in any order, the real
// function returns exactly the sum over the accepted conversions of their value in Quai (Qi-bound: the value
// itself; Quai-bound: QiToQuai of the value at the header's rate).
//
// verif:stub consensus/misc.CalculateQuaiReward => stubQuaiReward
// verif:stub consensus/misc.CalculateQiReward => stubQiReward
func VerifH_C20_c() {
	header := types.EmptyWorkObject(common.PRIME_CTX)
	rate, diff := vBigN("exchangeRate", 64), vBigN("minerDifficulty", 64)
	vAssume(rate.Sign() > 0 && diff.Sign() > 0)
	header.Header().SetExchangeRate(rate)
	header.Header().SetMinerDifficulty(diff)
	loc := common.Location{0, 0}
	n := 1 + vLen("etxsMinus1", 2)
	var etxs types.Transactions
	want := new(big.Int)
	accepted := 0
	for i := 0; i < n; i++ {
		t := "etx" + string(rune('A'+i))
		var to20 [20]byte
		to20[0] = 0x00
		kind := vLen(t+"Kind", 2)
		if kind == 1 {
			to20[1] = 0x80 // Qi ledger
		}
		to := common.Bytes20ToAddress(to20, loc)
		var from20 [20]byte
		from20[0], from20[1] = 0x00, 0x80
		if kind == 1 {
			from20[1] = 0x00
		}
		from := common.Bytes20ToAddress(from20, loc)
		value := new(big.Int)
		if !vBool(t + "Refused") {
			value = vBigN(t+"Value", 64)
			vAssume(value.Sign() > 0)
		}
		etxType := uint64(types.ConversionType)
		if kind == 2 {
			etxType = uint64(types.DefaultType)
		}
		etx := types.NewTx(&types.ExternalTx{Value: value, To: &to, Sender: from, EtxType: etxType, Gas: 21000, ETXIndex: uint16(i)})
		etxs = append(etxs, etx)
		if kind != 2 && value.Sign() > 0 {
			accepted++
			if kind == 1 {
				want = new(big.Int).Add(want, value)
			} else {
				want = new(big.Int).Add(want, QiToQuai(header, rate, diff, value))
			}
		}
	}
	got := ComputeConversionAmountInQuai(header, etxs)
	vReach("computed")
	vAssert("volume/counts-every-accepted-conversion", got.Cmp(want) == 0)
	if accepted == 0 {
		vAssert("volume/zero-without-accepted-conversions", got.Sign() == 0)
	}
}
