//go:build verif

package kawpow

import (
	"github.com/dominant-strategies/go-quai/common"
	"github.com/dominant-strategies/go-quai/core/types"
	goLRU "github.com/hashicorp/golang-lru/v2"
)

// stubKawpowLight: the KAWPOW kernel is an uninterpreted function of (header hash, nonce).
func stubKawpowLight(size uint64, cache []uint32, hash []byte, nonce uint64, blockNumber uint64, cDag []uint32) ([]byte, []byte) {
	n := make([]byte, 8)
	for i := 0; i < 8; i++ {
		n[i] = byte(nonce >> (8 * uint(i)))
	}
	out := vUF("kawpowKernel", 64, hash, n)
	return out[:32], out[32:]
}

func stubKawpowCache(k *Kawpow, block uint64) *cache { return &cache{cDag: []uint32{1}, cache: []uint32{1}} }
func stubDatasetSize(block uint64) uint64              { return 1 << 30 }

func rvnHeader(nonce uint64, mix common.Hash, merkle common.Hash) *types.WorkObjectHeader {
	rh := types.NewRavencoinBlockHeader(1, [32]byte{7}, merkle, 1000, 0x1d00ffff, 5000)
	rh.Nonce64 = nonce
	rh.MixHash = mix
	ap := types.NewAuxPow(types.Kawpow, types.NewAuxPowHeader(rh), nil, nil, nil, nil)
	wh := &types.WorkObjectHeader{}
	wh.SetAuxPow(ap)
	return wh
}

// H-C08-e: a seal cannot be reused through the verification cache. Two merge-mined headers over the
// same donor header hash with arbitrary 64-bit nonces are verified one after the other on the same
// engine instance: the proof-of-work value returned for the second is the kernel's value for exactly
// (header hash, second nonce) — the cached result of the first is returned only when the nonces are
// equal — and a mix hash that does not match the kernel's is rejected.
//
// verif:stub consensus/kawpow.kawpowLight => stubKawpowLight
// verif:stub (*consensus/kawpow.Kawpow).cache => stubKawpowCache
// verif:stub consensus/kawpow.datasetSize => stubDatasetSize
func VerifH_C08_e() {
	hc, _ := goLRU.New[common.Hash, mixHashWorkHash](16)
	k := &Kawpow{hashCache: hc}
	merkle := common.BytesToHash(vBytes("donorMerkleRoot", 2))
	n1, n2 := vU64("nonce1"), vU64("nonce2")
	h1 := rvnHeader(n1, common.Hash{}, merkle)
	mix1, pow1 := k.ComputePowLight(h1)
	h2 := rvnHeader(n2, mix1, merkle) // the attacker copies the first header's mix hash
	mix2, pow2 := k.ComputePowLight(h2)
	vReach("verified-twice")
	// ground truth from a fresh engine (no history)
	fc, _ := goLRU.New[common.Hash, mixHashWorkHash](16)
	fresh := &Kawpow{hashCache: fc}
	fmix, fpow := fresh.ComputePowLight(rvnHeader(n2, mix1, merkle))
	vAssert("cache/result-independent-of-verification-history", mix2 == fmix && pow2 == fpow)
	if n1 == n2 {
		vAssert("cache/same-input-same-result", pow2 == pow1 && mix2 == mix1)
	}
	_, err := k.ComputePowHash(h2)
	if err == nil {
		vAssert("seal/mix-hash-must-match-kernel", mix2 == mix1)
	}
}
