//go:build verif

package trie

// sameShape: structural equality of two in-memory tries (node kinds, keys, children, values), i.e.
// equality of everything the hasher looks at; cache flags are ignored.
func sameShape(a, b node) bool {
	switch x := a.(type) {
	case nil:
		return b == nil
	case valueNode:
		y, ok := b.(valueNode)
		return ok && string(x) == string(y)
	case *shortNode:
		y, ok := b.(*shortNode)
		return ok && string(x.Key) == string(y.Key) && sameShape(x.Val, y.Val)
	case *fullNode:
		y, ok := b.(*fullNode)
		if !ok {
			return false
		}
		for i := range x.Children {
			if !sameShape(x.Children[i], y.Children[i]) {
				return false
			}
		}
		return true
	}
	return false
}

// H-C18-a: the structure of a trie (hence its root hash) depends only on its contents, not on the
// history of inserts, updates and deletes. Two arbitrary one-byte keys and a fixed third one (nibble prefix relations
// decided by the solver) with arbitrary non-empty one-byte values:
//  * inserting k1,k2,k3 in two different orders gives structurally identical tries;
//  * inserting then deleting a key (also by writing an empty value) gives the trie that never had it;
//  * overwriting a key gives the trie that was built with the final value.
func VerifH_C18_a() {
	// two arbitrary keys and one fixed key (0x5a): every nibble relation between an arbitrary pair,
	// and between each of them and a third key, is covered
	// keys are two nibbles: k1 = 5|x, k2 = (5 or 6)|y with x, y arbitrary nibbles, k3 = 5|a fixed: all
	// relations (shared first nibble or not, any pair of second nibbles) are covered
	hi2 := byte(0x50)
	if vBool("k2OtherBranch") {
		hi2 = 0x60
	}
	k1, k2, k3 := []byte{0x50 | vU8("k1Low")%16}, []byte{hi2 | vU8("k2Low")%16}, []byte{0x5a}
	v1, v2, v3 := vBytes("v1", 1), vBytes("v2", 1), vBytes("v3", 1)
	vAssume(v1[0] != 0 || true)
	// distinct keys here; coinciding keys are the overwrite case below
	vAssume(string(k1) != string(k2) && string(k1) != string(k3) && string(k2) != string(k3))
	a, b := new(Trie), new(Trie)
	a.Update(k1, v1)
	a.Update(k2, v2)
	a.Update(k3, v3)
	switch vLen("order", 2) {
	case 0:
		b.Update(k3, v3)
		b.Update(k2, v2)
		b.Update(k1, v1)
	case 1:
		b.Update(k2, v2)
		b.Update(k3, v3)
		b.Update(k1, v1)
	default:
		b.Update(k3, v3)
		b.Update(k1, v1)
		b.Update(k2, v2)
	}
	vReach("built")
	vAssert("history/insert-order-irrelevant", sameShape(a.root, b.root))
	// delete k3 again: same as never inserting it
	c := new(Trie)
	c.Update(k1, v1)
	c.Update(k2, v2)
	// a copy of the trie taken before the delete (what SecureTrie.Copy / CopyTrie / StateDB.Copy do:
	// a struct copy sharing nodes) must not be affected by it
	cp := *a
	if vBool("deleteByEmptyValue") {
		a.Update(k3, nil)
	} else {
		a.Delete(k3)
	}
	vAssert("copy/unaffected-by-delete-in-the-original", sameShape(cp.root, b.root) && string(cp.Get(k3)) == string(v3) && string(cp.Get(k1)) == string(v1) && string(cp.Get(k2)) == string(v2))
	vAssert("history/delete-restores-earlier-structure", sameShape(a.root, c.root))
	vAssert("content/deleted-key-absent", a.Get(k3) == nil && string(a.Get(k1)) == string(v1) && string(a.Get(k2)) == string(v2))
	// overwrite: final value wins, structure as if written once
	w := vBytes("w", 1)
	a.Update(k1, w)
	d := new(Trie)
	d.Update(k2, v2)
	d.Update(k1, w)
	vAssert("history/overwrite-equals-single-write", sameShape(a.root, d.root))
	// deleting everything gives the empty trie
	a.Delete(k1)
	a.Delete(k2)
	vAssert("history/all-deleted-is-empty", a.root == nil)
}

// H-C18-d: a copy of a trie (struct copy sharing nodes, as SecureTrie.Copy / CopyTrie / StateDB.Copy
// make) is a snapshot: later inserts and deletes in the original never change what the copy holds.
// Two-byte keys (four nibbles) with a common prefix of 0..3 nibbles, an optional third key, arbitrary
// values; the second key is inserted (splitting a leaf below the shared prefix), the trie is copied,
// then the original deletes one of the keys or overwrites / inserts: the copy still returns every
// value it had and its structure equals a trie freshly built with the same content; the original
// has the structure of a trie freshly built with its new content.
func VerifH_C18_d() {
	k1 := []byte{0x12, 0x34}
	var k2 []byte
	switch vLen("sharedPrefixNibbles", 3) {
	case 0:
		k2 = []byte{0x9b, 0xc7}
	case 1:
		k2 = []byte{0x1a, 0x57}
	case 2:
		k2 = []byte{0x12, 0xa7}
	default:
		k2 = []byte{0x12, 0x39}
	}
	k3 := []byte{0x12, 0xff}
	v1, v2, v3 := vBytes("v1", 1), vBytes("v2", 1), vBytes("v3", 1)
	third := vBool("thirdKey")
	build := func(with1, with2, with3 bool) *Trie {
		t := new(Trie)
		if with1 {
			t.Update(k1, v1)
		}
		if with3 && third {
			t.Update(k3, v3)
		}
		if with2 {
			t.Update(k2, v2)
		}
		return t
	}
	orig := build(true, true, true)
	cp := *orig
	var after *Trie
	switch vLen("laterOperation", 3) {
	case 0:
		vFact("later", "delete-second-key")
		orig.Delete(k2)
		after = build(true, false, true)
	case 1:
		vFact("later", "delete-first-key")
		orig.Delete(k1)
		after = build(false, true, true)
	case 2:
		vFact("later", "overwrite-second-key")
		w := vBytes("w", 1)
		orig.Update(k2, w)
		after = new(Trie)
		after.Update(k1, v1)
		if third {
			after.Update(k3, v3)
		}
		after.Update(k2, w)
	default:
		vFact("later", "insert-a-new-key")
		k4 := []byte{0x12, 0x3b}
		w := vBytes("w", 1)
		orig.Update(k4, w)
		after = build(true, true, true)
		after.Update(k4, w)
	}
	vReach("modified")
	ref := build(true, true, true)
	vAssert("copy/content-unchanged", string(cp.Get(k1)) == string(v1) && string(cp.Get(k2)) == string(v2) && (!third || string(cp.Get(k3)) == string(v3)))
	vAssert("copy/structure-unchanged", sameShape(cp.root, ref.root))
	vAssert("original/structure-depends-only-on-content", sameShape(orig.root, after.root))
}
