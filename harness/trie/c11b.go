//go:build verif

package trie

import (
	"github.com/dominant-strategies/go-quai/common"
	"github.com/dominant-strategies/go-quai/core/rawdb"
	"github.com/dominant-strategies/go-quai/ethdb"
)

// disk model: every committed batch is one atomic log entry; a batch reports an arbitrary size so
// that the intermediate flush of Database.commit can trigger after any node
type flushLog struct{ entries [][]string }

type flushDisk struct {
	ethdb.KeyValueStore
	log *flushLog
}

func (d *flushDisk) NewBatch() ethdb.Batch {
	return &flushBatch{Batch: d.KeyValueStore.NewBatch(), disk: d}
}

type flushBatch struct {
	ethdb.Batch
	disk *flushDisk
	keys []string
}

func (b *flushBatch) Put(key, value []byte) error {
	b.keys = append(b.keys, string(key))
	return b.Batch.Put(key, value)
}
func (b *flushBatch) ValueSize() int {
	if len(b.keys) > 0 && vBool("batchFull") {
		return ethdb.IdealBatchSize
	}
	return 0
}
func (b *flushBatch) Write() error {
	b.disk.log.entries = append(b.disk.log.entries, b.keys)
	return b.Batch.Write()
}
func (b *flushBatch) Reset() {
	b.keys = nil
	b.Batch.Reset()
}

func c11Hash(id byte) common.Hash {
	var h common.Hash
	h[0], h[31] = 0x7e, id
	return h
}

// H-C11-b: committing a trie to disk never loses nodes, and a root is never durable before its
// subtree. The real trie.Database.Commit runs over a dirty set of a root with two children (one of
// which has a child of its own), with the write batch reporting "full" at arbitrary moments (so the
// intermediate flush happens after any node). Every batch write is logged as one atomic step. After
// Commit returns, every node of the trie is on disk and none is left in the dirty set; and at every
// prefix of the write log (every crash point) a node that is on disk has all its children on disk.
//
// verif:bounds decisions=200 paths=4000
func VerifH_C11_b() {
	inner := rawdb.NewMemoryDatabase(nil)
	log := &flushLog{}
	disk := &flushDisk{KeyValueStore: inner, log: log}
	root, a, b, a1 := c11Hash(1), c11Hash(2), c11Hash(3), c11Hash(4)
	mk := func(blob byte, prev, next common.Hash, children ...common.Hash) *cachedNode {
		n := &cachedNode{node: rawNode([]byte{0xc1, blob}), size: 2, flushPrev: prev, flushNext: next}
		if len(children) > 0 {
			n.children = map[common.Hash]uint16{}
			for _, c := range children {
				n.children[c] = 1
			}
		}
		return n
	}
	db := &Database{diskdb: disk, dirties: map[common.Hash]*cachedNode{
		{}:   {children: map[common.Hash]uint16{root: 1}},
		a1:   mk(4, common.Hash{}, a),
		a:    mk(2, a1, b, a1),
		b:    mk(3, a, root),
		root: mk(1, b, common.Hash{}, a, b),
	}, oldest: a1, newest: root}
	childrenOf := map[common.Hash][]common.Hash{root: {a, b}, a: {a1}}

	err := db.Commit(root, false, nil)
	vReach("committed")
	vAssert("commit/no-error", err == nil)
	onDisk := func(store ethdb.KeyValueReader, h common.Hash) bool {
		ok, _ := store.Has(h[:])
		return ok
	}
	for _, h := range []common.Hash{root, a, b, a1} {
		vAssert("commit/every-node-on-disk", onDisk(inner, h))
		_, dirty := db.dirties[h]
		vAssert("commit/no-node-left-dirty", !dirty)
	}
	// crash points: replay each prefix of the write log
	for k := 0; k <= len(log.entries); k++ {
		have := map[string]bool{}
		for i := 0; i < k; i++ {
			for _, key := range log.entries[i] {
				have[key] = true
			}
		}
		for parent, kids := range childrenOf {
			if have[string(parent[:])] {
				for _, c := range kids {
					vAssert("crash/durable-node-has-durable-children", have[string(c[:])])
				}
			}
		}
	}
}
