//go:build verif

package common

// vZoneLoc returns an arbitrary zone location (region, zone nibbles are arbitrary 4-bit values;
// the protocol uses 0..2 but the predicates take any).
func vZoneLoc() Location {
	r, z := vU8("region"), vU8("zone")
	vAssume(r < 16 && z < 16)
	return Location{r, z}
}

// checkClassification asserts that an Address built from the given constructor classifies the
// same 20 bytes identically under every view.
func checkClassification(a Address, loc Location) {
	b := a.Bytes()
	vAssert("bytes/len20", len(b) == AddressLength)
	inScope := IsInChainScope(b, loc)
	_, errInt := a.InternalAddress()
	vAssert("classify/internal-iff-in-chain-scope", (errInt == nil) == inScope)
	qi, quai := a.IsInQiLedgerScope(), a.IsInQuaiLedgerScope()
	vAssert("ledger/exactly-one", qi != quai)
	vAssert("ledger/second-byte-high-bit", qi == (b[1] >= 128))
	ab := AddressBytes(b)
	vAssert("ledger/addressbytes-agrees", ab.IsInQiLedgerScope() == qi && ab.IsInQuaiLedgerScope() == quai)
	_, errQuai := a.InternalAndQuaiAddress()
	vAssert("classify/internal-and-quai", (errQuai == nil) == (inScope && quai))
	_, errQi := a.InternalAndQiAddress()
	vAssert("classify/internal-and-qi", (errQi == nil) == (inScope && qi))
	vAssert("classify/bytes-internal-qi", (CheckIfBytesAreInternalAndQiAddress(b, loc) == nil) == (inScope && qi))
	vAssert("classify/conversion-output", IsConversionOutput(b, loc) == (b[0] == loc.BytePrefix() && quai))
	l := a.Location()
	vAssert("zone/first-byte", len(*l) == 2 && (*l)[0] == b[0]>>4 && (*l)[1] == b[0]&0x0f)
	al := ab.Location()
	vAssert("zone/addressbytes-agrees", (*al)[0] == (*l)[0] && (*al)[1] == (*l)[1])
	if errInt == nil {
		vAssert("zone/internal-is-this-zone", l.Equal(loc))
	}
}

// H-C16-a: every 20-byte address has exactly one zone and one ledger and every constructor
// classifies it identically (internal iff its first byte is the node's zone prefix).
//
// verif:replay native
func VerifH_C16_a() {
	loc := vZoneLoc()
	raw := vBytes("addr", 20)
	a := BytesToAddress(raw, loc)
	vReach("constructed")
	got := a.Bytes()
	for i := 0; i < 20; i++ {
		vAssert("bytes/preserved", got[i] == raw[i])
	}
	checkClassification(a, loc)
	vAssert("classify/first-byte-rule", IsInChainScope(raw, loc) == (raw[0] == loc.BytePrefix()))

	var arr [20]byte
	copy(arr[:], raw)
	a2 := Bytes20ToAddress(arr, loc)
	vAssert("constructors/bytes20-equal", a2.Equal(a))
	checkClassification(a2, loc)

	var a3 Address
	err := a3.ProtoDecode(a.ProtoEncode(), loc)
	vAssert("constructors/proto-roundtrip-ok", err == nil)
	vAssert("constructors/proto-roundtrip-equal", a3.Equal(a))
	_, e1 := a.InternalAddress()
	_, e3 := a3.InternalAddress()
	vAssert("constructors/proto-same-class", (e1 == nil) == (e3 == nil))
}

// H-C16-a2: constructors fed a byte string whose length is not 20 (the proto decoders pass wire
// bytes through unchecked): the 20-byte address that results must still be classified by its own
// first byte.
//
// verif:replay native
func VerifH_C16_a2() {
	loc := vZoneLoc()
	n := vLen("len", 22)
	raw := vBytes("addr", n)
	if n != AddressLength {
		vFact("input", "len-not-20")
	}
	a := BytesToAddress(raw, loc)
	vReach("constructed")
	checkClassification(a, loc)
}
