//go:build verif

package common

import (
	"math/big"
)

// H-C09-e: the three fixed-point logarithms the order and entropy rules are built from agree with
// each other. For every positive integer x < 2^256: BitsToBigBits(x) (used for the order thresholds)
// equals LogBig(x) (used for difficulty entropy), both keep the fractional part of the logarithm
// (the value lies in [c*2^64, (c+1)*2^64) for the integer part c = floor(log2 x)), LogBig does not
// modify its argument; and IntrinsicLogEntropy(h) = LogBig(floor(2^256 / h)) for every non-zero 32-byte
// hash h. (BinaryLog's mantissa is an uninterpreted function of its argument, its integer part exact.)
func VerifH_C09_e() {
	x := vBigN("x", 256)
	vAssume(x.Sign() > 0)
	x0 := new(big.Int).Set(x)
	b := LogBig(x)
	vAssert("log/LogBig-does-not-modify-its-argument", x.Cmp(x0) == 0)
	a := BitsToBigBits(new(big.Int).Set(x)) // works in place on its argument (as mathutil.BinaryLog does): callers pass a fresh value
	vReach("computed")
	vAssert("log/order-thresholds-and-entropy-use-the-same-logarithm", a.Cmp(b) == 0)
	c := int64(x0.BitLen() - 1)
	lo := new(big.Int).Mul(big.NewInt(c), Big2e64)
	hi := new(big.Int).Mul(big.NewInt(c+1), Big2e64)
	vAssert("log/integer-part-exact-fraction-kept", b.Cmp(lo) >= 0 && b.Cmp(hi) < 0 && a.Cmp(lo) >= 0 && a.Cmp(hi) < 0)
	h := BytesToHash(vBytes("hash", 32))
	hv := new(big.Int).SetBytes(h.Bytes())
	vAssume(hv.Sign() > 0)
	e := IntrinsicLogEntropy(h)
	vAssert("log/intrinsic-entropy-is-log-of-inverse", e.Cmp(LogBig(new(big.Int).Div(Big2e256, hv))) == 0)
}
