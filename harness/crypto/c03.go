//go:build verif

package crypto

import "math/big"

// H-C03-b1: ValidateSignatureValues accepts exactly v in {0,1}, 1 <= r < N and 1 <= s <= floor(N/2)
// (zero, out-of-range and high-S values are rejected), for all r, s up to 2^264 and all v.
// N is written out independently here (secp256k1 group order).
func VerifH_C03_b1() {
	n, _ := new(big.Int).SetString("115792089237316195423570985008687907852837564279074904382605163141518161494337", 10)
	halfN, _ := new(big.Int).SetString("57896044618658097711785492504343953926418782139537452191302581570759080747168", 10)
	v := vU8("v")
	r, s := vBigN("r", 264), vBigN("s", 264)
	if vBool("rNegative") {
		r = new(big.Int).Neg(r)
	}
	if vBool("sNegative") {
		s = new(big.Int).Neg(s)
	}
	ok := ValidateSignatureValues(v, r, s)
	vReach("validated")
	want := (v == 0 || v == 1) && r.Sign() > 0 && r.Cmp(n) < 0 && s.Sign() > 0 && s.Cmp(halfN) <= 0
	vAssert("sig/accepted-iff-canonical-low-s", ok == want)
}
