//go:build verif

package core

import (
	"errors"
	"math/big"

	"github.com/dominant-strategies/go-quai/common"
	"github.com/dominant-strategies/go-quai/core/types"
	"github.com/dominant-strategies/go-quai/params"
)

// identity of a work-object header in this harness: its mix hash (first byte arbitrary for uncles)
func stubWohHashByMix(wh *types.WorkObjectHeader) common.Hash { return wh.MixHash() }

var vuChain map[common.Hash]*types.WorkObject // ancestors with their uncles
var vuSealOK map[*types.WorkObjectHeader]bool
var vuExpectedDifficulty *big.Int

func stubVuGetHeaderByHash(hc *HeaderChain, h common.Hash) *types.WorkObject { return vuChain[h] }
func stubVuGetWorkObjectWithWorkShares(hc *HeaderChain, h common.Hash) *types.WorkObject {
	return vuChain[h]
}
func stubVuGetBlockByHash(hc *HeaderChain, h common.Hash) *types.WorkObject { return vuChain[h] }
func stubVuVerifySeal(hc *HeaderChain, header *types.WorkObjectHeader) (common.Hash, error) {
	if vuSealOK[header] {
		return common.Hash{}, nil
	}
	return common.Hash{}, errors.New("not a block")
}
func stubVuComputePowHash(hc *HeaderChain, header *types.WorkObjectHeader) (common.Hash, error) {
	return common.Hash{}, nil
}
func stubVuCheckPowId(hc *HeaderChain, wo *types.WorkObjectHeader) error { return nil }
func stubVuWorkShareDistance(hc *HeaderChain, wo *types.WorkObject, ws *types.WorkObjectHeader) (*big.Int, error) {
	return big.NewInt(1), nil
}
func stubVuCalcDifficulty(hc *HeaderChain, parent *types.WorkObjectHeader, expansionNum uint8) *big.Int {
	return new(big.Int).Set(vuExpectedDifficulty)
}

func vuHeader(id byte, number uint64, parent common.Hash) *types.WorkObject {
	wo := types.EmptyWorkObject(common.ZONE_CTX)
	var mix common.Hash
	mix[0], mix[31] = id, 0xA0
	wo.WorkObjectHeader().SetMixHash(mix)
	wo.WorkObjectHeader().SetNumber(new(big.Int).SetUint64(number))
	wo.WorkObjectHeader().SetParentHash(parent)
	wo.WorkObjectHeader().SetPrimeTerminusNumber(big.NewInt(1))
	wo.Header().SetUncleHash(types.EmptyUncleHash)
	return wo
}

var vuDetails bool

func vuUncle(tag string, ancestors []*types.WorkObject) *types.WorkObjectHeader {
	u := types.EmptyWorkObject(common.ZONE_CTX).WorkObjectHeader()
	var mix common.Hash
	mix[0], mix[31] = vU8(tag+"Id"), 0xA0
	u.SetMixHash(mix)
	if !vuDetails {
		// identity and classification arbitrary, everything else valid (child of A2)
		u.SetParentHash(ancestors[1].Hash())
		u.SetNumber(new(big.Int).SetUint64(ancestors[1].NumberU64(common.ZONE_CTX) + 1))
		u.SetDifficulty(new(big.Int).Set(vuExpectedDifficulty))
		u.SetPrimeTerminusNumber(big.NewInt(1))
		u.SetData(append([]byte{0}, make([]byte, 32)...))
		u.SetPrimaryCoinbase(common.BytesToAddress(append([]byte{0x00, 0x00}, append(make([]byte, 17), 0x77)...), qiLoc))
		u.SetLocation(qiLoc)
		vuSealOK[u] = vBool(tag + "IsFullBlock")
		return u
	}
	k := vLen(tag+"ParentChoice", len(ancestors))
	if k < len(ancestors) {
		u.SetParentHash(ancestors[k].Hash())
	} else {
		var other common.Hash
		other[0], other[31] = 0xEE, 0xA0
		u.SetParentHash(other)
	}
	u.SetNumber(new(big.Int).SetUint64(uint64(vU8(tag + "Number"))))
	u.SetDifficulty(vBigN(tag+"Difficulty", 16))
	u.SetPrimeTerminusNumber(big.NewInt(1))
	u.SetLock(vU8(tag + "Lock"))
	u.SetData(append([]byte{vU8(tag + "DataLockByte")}, make([]byte, 32)...))
	cb := common.BytesToAddress(append([]byte{0x00, 0x00}, append(make([]byte, 17), 0x77)...), qiLoc)
	u.SetPrimaryCoinbase(cb)
	u.SetLocation(qiLoc)
	vuSealOK[u] = vBool(tag + "IsFullBlock")
	return u
}

// H-C13-e: a workshare / uncle is rewarded at most once and only if recent. The real VerifyUncles
// (zone, pre-KawPow regime) on a block at height 10 with 0..2 uncles over a chain of three ancestors
// A1 (parent), A2, A3, each already carrying 0..1 uncle; uncle identities, parents, numbers,
// difficulties, lock bytes and block/workshare classification are arbitrary. When the block is
// accepted: no uncle appears twice in the block, none was already included by one of the last three
// ancestors, none is the block itself or an ancestor, every uncle's parent is one of the ancestors
// (or the block), a full-block uncle is not a sibling of the block, its number is its parent's + 1,
// its difficulty is the one derived from its parent, its lock bytes are in range.
//
// verif:stub (*core/types.WorkObjectHeader).Hash => stubWohHashByMix
// verif:stub (*core.HeaderChain).NodeLocation => stubHcNodeLocationZone
// verif:stub (*core.HeaderChain).GetHeaderByHash => stubVuGetHeaderByHash
// verif:stub (*core.HeaderChain).GetWorkObjectWithWorkShares => stubVuGetWorkObjectWithWorkShares
// verif:stub (*core.HeaderChain).GetBlockByHash => stubVuGetBlockByHash
// verif:stub (*core.HeaderChain).VerifySeal => stubVuVerifySeal
// verif:stub (*core.HeaderChain).ComputePowHash => stubVuComputePowHash
// verif:stub (*core.HeaderChain).CheckPowIdValidity => stubVuCheckPowId
// verif:stub (*core.HeaderChain).CheckPowIdValidityForWorkshare => stubVuCheckPowId
// verif:stub (*core.HeaderChain).WorkShareDistance => stubVuWorkShareDistance
// verif:stub (*core.HeaderChain).CalcDifficulty => stubVuCalcDifficulty
// verif:stub (*core.HeaderChain).IsGenesisHash => stubHcIsGenesisHash
// Quick tier: 0..1 uncle with every detail arbitrary (this harness) and two uncles with arbitrary
// identities (H-C13-e2); thorough: 0..2 uncles with every detail arbitrary (H-C13-e3).
//
// verif:bounds decisions=600 paths=60000
func VerifH_C13_e() { vuHarness(0, 1, true) }

// H-C13-e2: VerifyUncles, exactly two uncles whose identities and block/workshare classification are
// arbitrary (everything else valid): duplicates inside the block and against the ancestors' uncles.
//
// verif:stub (*core/types.WorkObjectHeader).Hash => stubWohHashByMix
// verif:stub (*core.HeaderChain).NodeLocation => stubHcNodeLocationZone
// verif:stub (*core.HeaderChain).GetHeaderByHash => stubVuGetHeaderByHash
// verif:stub (*core.HeaderChain).GetWorkObjectWithWorkShares => stubVuGetWorkObjectWithWorkShares
// verif:stub (*core.HeaderChain).GetBlockByHash => stubVuGetBlockByHash
// verif:stub (*core.HeaderChain).VerifySeal => stubVuVerifySeal
// verif:stub (*core.HeaderChain).ComputePowHash => stubVuComputePowHash
// verif:stub (*core.HeaderChain).CheckPowIdValidity => stubVuCheckPowId
// verif:stub (*core.HeaderChain).CheckPowIdValidityForWorkshare => stubVuCheckPowId
// verif:stub (*core.HeaderChain).WorkShareDistance => stubVuWorkShareDistance
// verif:stub (*core.HeaderChain).CalcDifficulty => stubVuCalcDifficulty
// verif:stub (*core.HeaderChain).IsGenesisHash => stubHcIsGenesisHash
// verif:bounds decisions=600 paths=60000
func VerifH_C13_e2() { vuHarness(2, 2, false) }

// H-C13-e3: VerifyUncles, 0..2 uncles with every detail arbitrary (obligations as H-C13-e).
//
// verif:tier thorough
// verif:stub (*core/types.WorkObjectHeader).Hash => stubWohHashByMix
// verif:stub (*core.HeaderChain).NodeLocation => stubHcNodeLocationZone
// verif:stub (*core.HeaderChain).GetHeaderByHash => stubVuGetHeaderByHash
// verif:stub (*core.HeaderChain).GetWorkObjectWithWorkShares => stubVuGetWorkObjectWithWorkShares
// verif:stub (*core.HeaderChain).GetBlockByHash => stubVuGetBlockByHash
// verif:stub (*core.HeaderChain).VerifySeal => stubVuVerifySeal
// verif:stub (*core.HeaderChain).ComputePowHash => stubVuComputePowHash
// verif:stub (*core.HeaderChain).CheckPowIdValidity => stubVuCheckPowId
// verif:stub (*core.HeaderChain).CheckPowIdValidityForWorkshare => stubVuCheckPowId
// verif:stub (*core.HeaderChain).WorkShareDistance => stubVuWorkShareDistance
// verif:stub (*core.HeaderChain).CalcDifficulty => stubVuCalcDifficulty
// verif:stub (*core.HeaderChain).IsGenesisHash => stubHcIsGenesisHash
// verif:bounds decisions=900 paths=400000 budget=40m
func VerifH_C13_e3() { vuHarness(0, 2, true) }

func vuHarness(minN, maxN int, details bool) {
	vuDetails = details
	vuChain = map[common.Hash]*types.WorkObject{}
	vuSealOK = map[*types.WorkObjectHeader]bool{}
	vuExpectedDifficulty = vBigN("derivedDifficulty", 16)
	a3 := vuHeader(3, 7, common.Hash{})
	a2 := vuHeader(2, 8, a3.Hash())
	a1 := vuHeader(1, 9, a2.Hash())
	anc := []*types.WorkObject{a1, a2, a3}
	var included []common.Hash
	for i, a := range anc {
		if vBool("ancestor" + string(rune('1'+i)) + "HasUncle") {
			// an already included uncle matters only through its identity
			u := types.EmptyWorkObject(common.ZONE_CTX).WorkObjectHeader()
			var mix common.Hash
			mix[0], mix[31] = vU8("included"+string(rune('1'+i))+"Id"), 0xA0
			u.SetMixHash(mix)
			a.Body().SetUncles([]*types.WorkObjectHeader{u})
			a.Header().SetUncleHash(common.Hash{1})
			included = append(included, u.Hash())
		}
		vuChain[a.Hash()] = a
	}
	blk := vuHeader(0, 10, a1.Hash())
	n := minN + vLen("uncles", maxN-minN)
	us := make([]*types.WorkObjectHeader, n)
	for i := range us {
		us[i] = vuUncle("uncle"+string(rune('A'+i)), anc)
	}
	blk.Body().SetUncles(us)
	hc := &HeaderChain{}
	hc.powConfig.PowMode = params.ModeNormal

	err := hc.VerifyUncles(blk)

	vReach("verified")
	if err != nil {
		return
	}
	vReach("accepted")
	for i, u := range us {
		h := u.Hash()
		for j := 0; j < i; j++ {
			vAssert("once/not-twice-in-block", us[j].Hash() != h)
		}
		for _, ih := range included {
			vAssert("once/not-already-included-by-an-ancestor", ih != h)
		}
		vAssert("once/not-the-block-or-an-ancestor", h != blk.Hash() && h != a1.Hash() && h != a2.Hash() && h != a3.Hash())
		ph := u.ParentHash()
		vAssert("recent/parent-is-a-recent-ancestor", ph == a1.Hash() || ph == a2.Hash() || ph == a3.Hash() || ph == blk.Hash())
		if vuSealOK[u] {
			vAssert("uncle/full-block-is-not-a-sibling", ph != blk.ParentHash(common.ZONE_CTX))
		}
		if p := vuChain[ph]; p != nil {
			vAssert("uncle/number-is-parent-plus-one", u.NumberU64() == p.NumberU64(common.ZONE_CTX)+1)
		}
		vAssert("uncle/difficulty-derived-from-parent", u.Difficulty().Cmp(vuExpectedDifficulty) == 0)
		vAssert("uncle/lock-bytes-in-range", int(u.Data()[0]) <= len(params.LockupByteToBlockDepth)-1 && u.Lock() == 0)
	}
}
