//go:build verif

package core

import (
	"math/big"

	"github.com/dominant-strategies/go-quai/core/types"
)

// H-C19-i: the price index keeps tracking every remote transaction of the pool through an eviction attempt.
// A pool (hash index + price index) holding 1..3 remote transactions with arbitrary prices and 0..1 local one;
// txPricedList.Discard is asked for 1..4 slots, forced or not (TxPool.add asks unforced and gives up with
// ErrTxPoolOverflow when room cannot be made). Afterwards
//   * if room could not be made (and the call was not forced) nothing is returned and every remote transaction
//     is still tracked by the price heaps exactly once — the index still agrees with the hash index, so
//     Underpriced keeps protecting the pool and a later Discard can still evict;
//   * otherwise exactly the requested number of slots (or everything evictable, when forced) is returned, the
//     returned transactions are no longer tracked, every other remote transaction is tracked exactly once, and no
//     returned transaction is dearer than one that was kept;
//   * local transactions are never tracked or returned.
//
// verif:stub (*core/types.Transaction).Hash => stubPoolTxHash
// verif:stub core.numSlots => stubNumSlots
// verif:bounds decisions=600 paths=60000
func VerifH_C19_i() {
	all := newTxLookup()
	pl := newTxPricedList(all)
	n := 1 + vLen("remotesMinus1", 2)
	var remotes []*types.Transaction
	for i := 0; i < n; i++ {
		tx := c19TxGas(uint64(10+i), 21000, int64(1+vU8("price"+string(rune('A'+i)))%8))
		all.Add(tx, false)
		pl.Put(tx, false)
		remotes = append(remotes, tx)
	}
	var local *types.Transaction
	if vBool("oneLocal") {
		local = c19TxGas(50, 21000, 1)
		all.Add(local, true)
		pl.Put(local, true)
	}
	slots := 1 + vLen("slotsAskedMinus1", 3)
	force := vBool("forced")

	drop, ok := pl.Discard(slots, force)
	vReach("discarded")

	tracked := func(tx *types.Transaction) int {
		c := 0
		for _, t := range pl.urgent.list {
			if t == tx {
				c++
			}
		}
		for _, t := range pl.floating.list {
			if t == tx {
				c++
			}
		}
		return c
	}
	dropped := func(tx *types.Transaction) bool {
		for _, t := range drop {
			if t == tx {
				return true
			}
		}
		return false
	}
	if !ok {
		vReach("no-room")
		vAssert("no-room/only-when-not-forced-and-short-of-slots", !force && slots > n)
		vAssert("no-room/nothing-returned", len(drop) == 0)
		for _, tx := range remotes {
			vAssert("no-room/every-remote-still-tracked-once", tracked(tx) == 1)
		}
	} else {
		vReach("room-made")
		want := slots
		if want > n {
			want = n
		}
		vAssert("evict/exactly-the-slots-asked-or-all", len(drop) == want)
		for _, tx := range remotes {
			if dropped(tx) {
				vAssert("evict/returned-no-longer-tracked", tracked(tx) == 0)
			} else {
				vAssert("evict/kept-remote-tracked-once", tracked(tx) == 1)
				for _, d := range drop {
					vAssert("evict/cheapest-go-first", d.GasPrice().Cmp(tx.GasPrice()) <= 0)
				}
			}
		}
	}
	if local != nil {
		vAssert("local/never-tracked-nor-returned", tracked(local) == 0 && !dropped(local))
	}
	_ = big.NewInt
}
