//go:build verif

package core

import (
	"math/big"

	"github.com/dominant-strategies/go-quai/common"
	"github.com/dominant-strategies/go-quai/consensus"
	"github.com/dominant-strategies/go-quai/core/types"
	"github.com/dominant-strategies/go-quai/params"
	lru "github.com/hashicorp/golang-lru/v2"
)

func stubHcNodeLocationZone(hc *HeaderChain) common.Location { return qiLoc }

// H-C09-b: entropy and order are stable and entropy strictly increases. A sealed zone block after the
// KawPow transition with an arbitrary PoW hash (non-zero; under its target), arbitrary difficulty
// (2..2^64), arbitrary recorded parent entropies / delta entropies (>= 0, < 2^80), 0..2 workshares:
//  * CalcOrder returns the same (entropy, order) cold and from its cache, and order is in {0,1,2};
//  * TotalLogEntropy and DeltaLogEntropy return the same value when called again (the cache is not
//    corrupted by the first call);
//  * TotalLogEntropy(block) > the recorded parent entropy of the block's order;
//  * the entropy targets the order thresholds are built from are unchanged by the classification (cold
//    recomputation on a second chain instance: H-C09-b2, thorough).
//
// verif:stub (*core/types.WorkObject).Hash => stubWoHash
// verif:stub (*core.HeaderChain).IsGenesisHash => stubHcIsGenesisHash
// verif:stub (*core.HeaderChain).NodeLocation => stubHcNodeLocationZone
// verif:bounds bigbits=272
func VerifH_C09_b() { c09OrderStability(false) }

// H-C09-b2: as H-C09-b, and in addition a second chain instance with a cold order cache (another node, or this
// node after a restart) computes the same (entropy, order) for the same header.
//
// verif:stub (*core/types.WorkObject).Hash => stubWoHash
// verif:stub (*core.HeaderChain).IsGenesisHash => stubHcIsGenesisHash
// verif:stub (*core.HeaderChain).NodeLocation => stubHcNodeLocationZone
// verif:bounds bigbits=272 budget=40m
// verif:tier thorough
func VerifH_C09_b2() { c09OrderStability(true) }

func c09OrderStability(coldRecomputation bool) {
	eng := &modelEngine{hash: common.BytesToHash(vBytes("powHash", 32))}
	cache, _ := lru.New[common.Hash, calcOrderResponse](16)
	hc := &HeaderChain{powConfig: params.PowConfig{PowMode: params.ModeNormal}, engine: []consensus.Engine{eng}, calcOrderCache: cache}
	wo := types.EmptyWorkObject(common.ZONE_CTX)
	wo.WorkObjectHeader().SetTime(1)
	wo.WorkObjectHeader().SetNumber(big.NewInt(7))
	wo.WorkObjectHeader().SetLocation(qiLoc)
	diff := vBigN("difficulty", 64)
	vAssume(diff.Cmp(big.NewInt(2)) >= 0)
	wo.WorkObjectHeader().SetDifficulty(diff)
	wo.WorkObjectHeader().SetPrimeTerminusNumber(new(big.Int).SetUint64(params.KawPowForkBlock + uint64(vU16("ptnOffset"))))
	h := wo.Header()
	h.SetExpansionNumber(0)
	for ctx := 0; ctx < 3; ctx++ {
		h.SetParentEntropy(vBigN([]string{"pePrime", "peRegion", "peZone"}[ctx], 80), ctx)
		h.SetParentDeltaEntropy(vBigN([]string{"pdePrime", "pdeRegion", "pdeZone"}[ctx], 80), ctx)
	}
	nShares := vLen("workshares", 2)
	var uncles []*types.WorkObjectHeader
	for i := 0; i < nShares; i++ {
		uncles = append(uncles, &types.WorkObjectHeader{})
	}
	wo.Body().SetUncles(uncles)
	hv := new(big.Int).SetBytes(eng.hash.Bytes())
	vAssume(hv.Sign() > 0) // a zero PoW hash divides by zero in IntrinsicLogEntropy; finding one needs a preimage

	e1, o1, err1 := hc.CalcOrder(wo)
	if err1 != nil {
		vReach("seal-invalid")
		return
	}
	vReach("sealed")
	e1v := new(big.Int).Set(e1)
	vAssert("order/in-range", o1 == common.PRIME_CTX || o1 == common.REGION_CTX || o1 == common.ZONE_CTX)
	vAssert("entropy/intrinsic-positive", e1.Sign() > 0)
	t1 := new(big.Int).Set(hc.TotalLogEntropy(wo))
	d1 := new(big.Int).Set(hc.DeltaLogEntropy(wo))
	e2, o2, err2 := hc.CalcOrder(wo)
	vAssert("order/stable-across-calls-and-cache", err2 == nil && o2 == o1 && e2.Cmp(e1v) == 0)
	t2 := hc.TotalLogEntropy(wo)
	d2 := hc.DeltaLogEntropy(wo)
	vAssert("entropy/total-stable-across-calls", t2.Cmp(t1) == 0)
	vAssert("entropy/delta-stable-across-calls", d2.Cmp(d1) == 0)
	vAssert("entropy/strictly-above-recorded-parent", t1.Cmp(wo.ParentEntropy(o1)) > 0)
	// the protocol targets the thresholds are built from are not changed by classifying a header (they are
	// shared package-level values; the logarithm helper works in place on its argument)
	vAssert("targets/entropy-targets-unchanged-by-classification", params.PrimeEntropyTarget(0).Cmp(big.NewInt(4)) == 0 && params.RegionEntropyTarget(0).Cmp(big.NewInt(2)) == 0)
	if coldRecomputation {
		// a cold computation (another chain instance / after a restart: empty order cache) classifies the same
		// header the same way — the order is a function of the seal and the recorded deltas, not of what was
		// classified before
		cache2, _ := lru.New[common.Hash, calcOrderResponse](16)
		hc2 := &HeaderChain{powConfig: params.PowConfig{PowMode: params.ModeNormal}, engine: []consensus.Engine{eng}, calcOrderCache: cache2}
		e3, o3, err3 := hc2.CalcOrder(wo)
		vAssert("order/stable-across-cold-computations", err3 == nil && o3 == o1 && e3.Cmp(e1v) == 0)
	}
}

// ---- H-C09-a: verifyHeader, zone context, with every protocol derivation an uninterpreted value ----

var (
	vhDifficulty, vhParentEntropy, vhParentDelta, vhParentUncledDelta, vhBaseFee *big.Int
	vhParentOrder                                                               int
	vhExpansion                                                                 uint8
	vhGasLimit, vhStateLimit                                                    uint64
	vhHeaderHash                                                                common.Hash
)

func stubCalcDifficulty(hc *HeaderChain, parent *types.WorkObjectHeader, expansionNum uint8) *big.Int {
	return new(big.Int).Set(vhDifficulty)
}
func stubCalcOrder(hc *HeaderChain, header *types.WorkObject) (*big.Int, int, error) {
	return big.NewInt(1), vhParentOrder, nil
}
func stubTotalLogEntropy(hc *HeaderChain, header *types.WorkObject) *big.Int {
	return new(big.Int).Set(vhParentEntropy)
}
func stubDeltaLogEntropy(hc *HeaderChain, header *types.WorkObject) *big.Int {
	return new(big.Int).Set(vhParentDelta)
}
func stubUncledDeltaLogEntropy(hc *HeaderChain, header *types.WorkObject) *big.Int {
	return new(big.Int).Set(vhParentUncledDelta)
}
func stubComputeExpansionNumber(hc *HeaderChain, parent *types.WorkObject) (uint8, error) {
	return vhExpansion, nil
}
func stubCheckPowIdValidity(hc *HeaderChain, wo *types.WorkObjectHeader) error { return nil }
func stubCalcGasLimit(parent *types.WorkObject, gasCeil uint64) uint64      { return vhGasLimit }
func stubCalcStateLimit(parent *types.WorkObject, stateCeil uint64) uint64  { return vhStateLimit }
func stubHcCalcBaseFee(hc *HeaderChain, block *types.WorkObject) *big.Int   { return new(big.Int).Set(vhBaseFee) }
func stubHeaderHash(h *types.Header) common.Hash                            { return vhHeaderHash }

// H-C09-a: an accepted header extends its parent by the rules (zone context, before the KawPow
// transition, non-uncle). Parent and child are arbitrary; every value the protocol derives from the
// parent (difficulty, parent order, total / delta / uncled-delta entropy, expansion number, gas
// limit, state limit, base fee) is an arbitrary value returned by a stub. verifyHeader accepts only
// if: number = parent + 1; parent time <= time <= now + 15 s; the body header hashes to the declared
// header hash; and difficulty, recorded parent entropy, delta entropies, expansion number, gas
// limit, state limit, base fee equal the derived values; prime-terminus hash/number follow the
// parent's order; gas used <= limit, state used <= limit; the coinbase is in scope.
//
// verif:stub (*core.HeaderChain).CalcDifficulty => stubCalcDifficulty
// verif:stub (*core.HeaderChain).CalcOrder => stubCalcOrder
// verif:stub (*core.HeaderChain).TotalLogEntropy => stubTotalLogEntropy
// verif:stub (*core.HeaderChain).DeltaLogEntropy => stubDeltaLogEntropy
// verif:stub (*core.HeaderChain).UncledDeltaLogEntropy => stubUncledDeltaLogEntropy
// verif:stub (*core.HeaderChain).ComputeExpansionNumber => stubComputeExpansionNumber
// verif:stub (*core.HeaderChain).CheckPowIdValidity => stubCheckPowIdValidity
// verif:stub core.CalcGasLimit => stubCalcGasLimit
// verif:stub consensus/misc.CalcStateLimit => stubCalcStateLimit
// verif:stub (*core.HeaderChain).CalcBaseFee => stubHcCalcBaseFee
// verif:stub (*core/types.Header).Hash => stubHeaderHash
// verif:stub (*core/types.WorkObject).Hash => stubWoHash
// verif:stub (*core.HeaderChain).IsGenesisHash => stubHcIsGenesisHash
// verif:stub (*core.HeaderChain).NodeLocation => stubHcNodeLocationZone
func VerifH_C09_a() {
	small := func(tag string) *big.Int { return vBigN(tag, 64) }
	vhDifficulty, vhParentEntropy, vhParentDelta, vhParentUncledDelta, vhBaseFee = small("expDifficulty"), small("expParentEntropy"), small("expParentDelta"), small("expParentUncledDelta"), small("expBaseFee")
	vhParentOrder = vLen("parentOrder", 2)
	vhExpansion, vhGasLimit, vhStateLimit = vU8("expExpansion"), vU64("expGasLimit"), vU64("expStateLimit")
	vhHeaderHash = common.BytesToHash(vBytes("bodyHeaderHash", 32))
	hc := &HeaderChain{config: &params.ChainConfig{Location: qiLoc}, powConfig: params.PowConfig{GasCeil: 1 << 40, NodeLocation: qiLoc}}

	parent := types.EmptyWorkObject(common.ZONE_CTX)
	parent.WorkObjectHeader().SetTime(uint64(vU32("parentTime")))
	parent.WorkObjectHeader().SetNumber(new(big.Int).SetUint64(uint64(vU32("parentNumber"))))
	parent.WorkObjectHeader().SetLocation(qiLoc)
	ptn := uint64(vU16("parentPrimeTerminusNumber"))
	parent.WorkObjectHeader().SetPrimeTerminusNumber(new(big.Int).SetUint64(ptn))
	parent.Header().SetNumber(new(big.Int).SetUint64(uint64(vU16("parentPrimeNumber"))), common.PRIME_CTX)
	parent.Header().SetPrimeTerminusHash(common.BytesToHash(vBytes("parentPrimeTerminusHash", 2)))

	child := types.EmptyWorkObject(common.ZONE_CTX)
	wh, h := child.WorkObjectHeader(), child.Header()
	wh.SetHeaderHash(common.BytesToHash(vBytes("declaredHeaderHash", 32)))
	childTime := vU64("time")
	wh.SetTime(childTime)
	wh.SetNumber(new(big.Int).SetUint64(uint64(vU32("number"))))
	wh.SetLocation(qiLoc)
	wh.SetDifficulty(small("difficulty"))
	wh.SetPrimeTerminusNumber(new(big.Int).SetUint64(uint64(vU16("primeTerminusNumber"))))
	var cb [20]byte
	cb[0], cb[1] = vU8("coinbaseZone"), vU8("coinbaseLedger")
	wh.SetPrimaryCoinbase(common.Bytes20ToAddress(cb, qiLoc))
	wh.SetLock(vU8("lock"))
	wh.SetData([]byte{vU8("dataLock")})
	wh.SetShaDiffAndCount(&types.PowShareDiffAndCount{}) // before the KawPow transition the share-difficulty fields must be absent
	wh.SetScryptDiffAndCount(&types.PowShareDiffAndCount{})
	wh.SetShaShareTarget(nil)
	wh.SetScryptShareTarget(nil)
	wh.SetKawpowDifficulty(nil)
	h.SetParentEntropy(small("parentEntropy"), common.ZONE_CTX)
	h.SetParentDeltaEntropy(small("parentDelta"), common.ZONE_CTX)
	h.SetParentUncledDeltaEntropy(small("parentUncledDelta"), common.ZONE_CTX)
	h.SetExpansionNumber(vU8("expansion"))
	h.SetGasLimit(vU64("gasLimit"))
	h.SetGasUsed(vU64("gasUsed"))
	h.SetStateLimit(vU64("stateLimit"))
	h.SetStateUsed(vU64("stateUsed"))
	h.SetBaseFee(small("baseFee"))
	h.SetPrimeTerminusHash(common.BytesToHash(vBytes("primeTerminusHash", 2)))
	now := int64(vU32("now"))

	err := hc.verifyHeader(child, parent, false, now)

	vReach("verified")
	if err != nil {
		vReach("rejected")
		return
	}
	vReach("accepted")
	vAssert("extends/number-is-parent-plus-one", child.NumberU64(common.ZONE_CTX) == parent.NumberU64(common.ZONE_CTX)+1)
	vAssert("extends/time-not-before-parent", childTime >= parent.Time())
	vAssert("extends/time-not-in-future", childTime <= uint64(now)+15)
	vAssert("extends/header-hash-binds-body-header", child.HeaderHash() == vhHeaderHash)
	vAssert("derived/difficulty", child.Difficulty().Cmp(vhDifficulty) == 0)
	vAssert("derived/parent-entropy", child.ParentEntropy(common.ZONE_CTX).Cmp(vhParentEntropy) == 0)
	if vhParentOrder < common.ZONE_CTX {
		vAssert("derived/parent-delta-entropy-zero-after-dom-block", child.ParentDeltaEntropy(common.ZONE_CTX).Sign() == 0 && child.ParentUncledDeltaEntropy(common.ZONE_CTX).Sign() == 0)
	} else {
		vAssert("derived/parent-delta-entropy", child.ParentDeltaEntropy(common.ZONE_CTX).Cmp(vhParentDelta) == 0)
		vAssert("derived/parent-uncled-delta-entropy", child.ParentUncledDeltaEntropy(common.ZONE_CTX).Cmp(vhParentUncledDelta) == 0)
	}
	vAssert("derived/expansion-number", child.ExpansionNumber() == vhExpansion)
	vAssert("derived/gas-limit", child.GasLimit() == vhGasLimit && child.GasLimit() <= 0x7fffffffffffffff && child.GasUsed() <= child.GasLimit())
	vAssert("derived/state-limit", child.StateLimit() == vhStateLimit && child.StateUsed() <= child.StateLimit())
	vAssert("derived/base-fee", child.BaseFee().Cmp(vhBaseFee) == 0)
	if vhParentOrder == common.PRIME_CTX {
		vAssert("derived/prime-terminus-is-prime-parent", child.PrimeTerminusHash() == stubWoHash(parent) && child.PrimeTerminusNumber().Cmp(parent.Number(common.PRIME_CTX)) == 0)
	} else {
		vAssert("derived/prime-terminus-inherited", child.PrimeTerminusHash() == parent.PrimeTerminusHash() && child.PrimeTerminusNumber().Cmp(parent.PrimeTerminusNumber()) == 0)
	}
	_, cbErr := child.PrimaryCoinbase().InternalAddress()
	vAssert("coinbase/in-scope", cbErr == nil)
	vAssert("lock/byte-in-range", child.Data()[0] <= 3)
}
