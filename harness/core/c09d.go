//go:build verif

package core

import (
	"math/big"

	"github.com/dominant-strategies/go-quai/common"
	"github.com/dominant-strategies/go-quai/core/types"
	"github.com/dominant-strategies/go-quai/params"
)

var cdGrandparent *types.WorkObject

func stubCdGetHeaderByHash(hc *HeaderChain, h common.Hash) *types.WorkObject { return cdGrandparent }

func cdRun(hc *HeaderChain, difficulty *big.Int, grandTime, parentTime uint64) *big.Int {
	gp := types.EmptyWorkObject(common.ZONE_CTX)
	gp.WorkObjectHeader().SetTime(grandTime)
	gp.WorkObjectHeader().SetNumber(big.NewInt(5))
	cdGrandparent = gp
	p := types.EmptyWorkObject(common.ZONE_CTX).WorkObjectHeader()
	p.SetTime(parentTime)
	p.SetNumber(big.NewInt(6))
	p.SetDifficulty(new(big.Int).Set(difficulty))
	p.SetLocation(qiLoc)
	return hc.CalcDifficulty(p, 0)
}

// H-C09-d: the difficulty retarget step (CalcDifficulty, zone, non-genesis parent and grandparent).
// For an arbitrary parent difficulty (< 2^40, at least the minimum) and arbitrary parent /
// grandparent timestamps: the result is never below the minimum difficulty; a parent that took
// exactly the target block time leaves the difficulty unchanged; a faster parent never lowers it and
// a slower parent never raises it; the time gap is clamped — any gap beyond the protocol's maximum
// time difference gives exactly the same difficulty as the maximum gap itself (no unbounded drop
// after a stall); and the function does not modify the parent's difficulty.
//
// verif:stub (*core.HeaderChain).NodeLocation => stubHcNodeLocationZone
// verif:stub (*core.HeaderChain).IsGenesisHash => stubHcIsGenesisHash
// verif:stub (*core.HeaderChain).GetHeaderByHash => stubCdGetHeaderByHash
// verif:bounds qtimeout=40s
func VerifH_C09_d() {
	hc := &HeaderChain{}
	hc.powConfig.DurationLimit = big.NewInt(5)
	hc.powConfig.MinDifficulty = big.NewInt(1000)
	D := vBigN("parentDifficulty", 40)
	vAssume(D.Cmp(hc.powConfig.MinDifficulty) >= 0)
	t0 := uint64(vU32("grandparentTime"))
	gap := uint64(vU32("gap"))
	d := cdRun(hc, D, t0, t0+gap)
	vReach("computed")
	vAssert("difficulty/at-least-minimum", d != nil && d.Cmp(hc.powConfig.MinDifficulty) >= 0)
	if gap == 5 {
		vAssert("difficulty/on-target-block-time-unchanged", d.Cmp(D) == 0)
	}
	if gap < 5 {
		vAssert("difficulty/faster-parent-never-lowers", d.Cmp(D) >= 0)
	}
	if gap > 5 {
		vAssert("difficulty/slower-parent-never-raises", d.Cmp(D) <= 0)
	}
	if gap > uint64(params.MaxTimeDiffBetweenBlocks) {
		vReach("beyond-clamp")
		atClamp := cdRun(hc, D, t0, t0+uint64(params.MaxTimeDiffBetweenBlocks))
		vAssert("difficulty/gap-is-clamped", d.Cmp(atClamp) == 0)
	}
}
