//go:build verif

package core

import (
	"bytes"
	"math/big"

	"github.com/dominant-strategies/go-quai/common"
	"github.com/dominant-strategies/go-quai/core/rawdb"
	"github.com/dominant-strategies/go-quai/core/types"
	"github.com/dominant-strategies/go-quai/ethdb"
	"github.com/dominant-strategies/go-quai/params"
)

// ---- environment for the rollback segment of SetCurrentHeader ----

// Work objects are identified by (branch marker in Time, number): their hash is that pair.
func stubWoHash(wo *types.WorkObject) common.Hash {
	return common.BytesToHash([]byte{byte(wo.WorkObjectHeader().Time()), byte(wo.WorkObjectHeader().NumberU64())})
}

var reorgHeaders map[common.Hash]*types.WorkObject
var reorgCommon *types.WorkObject

func stubFindCommonAncestor(db ethdb.Reader, a, b *types.WorkObject, nodeCtx int) (*types.WorkObject, error) {
	return reorgCommon, nil
}
func stubHcGetHeaderByHash(hc *HeaderChain, hash common.Hash) *types.WorkObject {
	return reorgHeaders[hash]
}
func stubHcIsGenesisHash(hc *HeaderChain, hash common.Hash) bool { return false }

var undoSpent, undoTrimmed []*types.SpentUtxoEntry
var undoCreatedKeys [][]byte
var undoDeletedLockups []*rawdb.DeletedCoinbaseLockup
var undoCreatedLockupKeys [][]byte
var undoBlock common.Hash

func stubReadSpentUTXOs(db ethdb.Reader, blockHash common.Hash) ([]*types.SpentUtxoEntry, error) {
	if blockHash != undoBlock {
		return nil, nil
	}
	return undoSpent, nil
}
func stubReadTrimmedUTXOs(db ethdb.Reader, blockHash common.Hash) ([]*types.SpentUtxoEntry, error) {
	if blockHash != undoBlock {
		return nil, nil
	}
	return undoTrimmed, nil
}
func stubReadCreatedUTXOKeys(db ethdb.Reader, blockHash common.Hash) ([][]byte, error) {
	if blockHash != undoBlock {
		return nil, nil
	}
	return undoCreatedKeys, nil
}
func stubReadDeletedCoinbaseLockups(db ethdb.Reader, blockHash common.Hash) ([]*rawdb.DeletedCoinbaseLockup, error) {
	if blockHash != undoBlock {
		return nil, nil
	}
	return undoDeletedLockups, nil
}
func stubReadCreatedCoinbaseLockupKeys(db ethdb.Reader, blockHash common.Hash) ([][]byte, error) {
	if blockHash != undoBlock {
		return nil, nil
	}
	return undoCreatedLockupKeys, nil
}

// The stored form of a UTXO entry is opaque here: one marker byte (its denomination).
func stubCreateUTXOForUndo(db ethdb.KeyValueWriter, txHash common.Hash, index uint16, utxo *types.UtxoEntry) error {
	return db.Put(rawdb.UtxoKey(txHash, index), []byte{0xE0, utxo.Denomination})
}

func mkWo(branch byte, number uint64, parent *types.WorkObject) *types.WorkObject {
	wo := types.EmptyWorkObject(common.ZONE_CTX)
	wo.WorkObjectHeader().SetTime(uint64(branch))
	wo.WorkObjectHeader().SetNumber(new(big.Int).SetUint64(number))
	wo.WorkObjectHeader().SetLocation(qiLoc)
	if parent != nil {
		wo.WorkObjectHeader().SetParentHash(stubWoHash(parent))
	}
	return wo
}

func vOutpoint(tag string) types.OutPoint {
	var h common.Hash
	h[31] = vU8(tag + "Tx")
	return types.OutPoint{TxHash: h, Index: uint16(vU8(tag+"Index") % 2)}
}

func dbHas(db ethdb.KeyValueReader, key []byte) bool {
	ok, _ := db.Has(key)
	return ok
}

// H-C10-a: rolling the canonical head back over one block restores exactly the parent's Qi ledger.
// Chain G <- A1 <- A2 with A2 current; A2 spent up to two outpoints and created up to two outputs,
// where a created output may itself be one of the spent ones (created and spent inside A2) — the
// solver decides which keys coincide — plus one coinbase-lockup record accumulated (overwritten) once or twice and one newly created
// record. The undo records are read back in the order Process wrote them (decided for the real
// accessors in H-C10-c). The database holds the state after A2 and A2's undo records; the real
// SetCurrentHeader(A1) runs its rollback loop. Afterwards every involved key is present iff it was
// present before A2 (with its old value), A2's canonical-number entry is gone and the head pointer
// and canonical hash name A1.
//
// verif:stub (*core/types.WorkObject).Hash => stubWoHash
// verif:stub core/rawdb.FindCommonAncestor => stubFindCommonAncestor
// verif:stub (*core.HeaderChain).GetHeaderByHash => stubHcGetHeaderByHash
// verif:stub (*core.HeaderChain).IsGenesisHash => stubHcIsGenesisHash
// verif:stub (*core.HeaderChain).NodeCtx => stubHcNodeCtx
// verif:stub core/rawdb.ReadSpentUTXOs => stubReadSpentUTXOs
// verif:stub core/rawdb.ReadTrimmedUTXOs => stubReadTrimmedUTXOs
// verif:stub core/rawdb.ReadCreatedUTXOKeys => stubReadCreatedUTXOKeys
// verif:stub core/rawdb.ReadDeletedCoinbaseLockups => stubReadDeletedCoinbaseLockups
// verif:stub core/rawdb.ReadCreatedCoinbaseLockupKeys => stubReadCreatedCoinbaseLockupKeys
// verif:stub core/rawdb.CreateUTXO => stubCreateUTXOForUndo
func VerifH_C10_a() {
	g := mkWo(0, 0, nil)
	a1 := mkWo(1, 1, g)
	a2 := mkWo(1, 2, a1)
	reorgHeaders = map[common.Hash]*types.WorkObject{stubWoHash(g): g, stubWoHash(a1): a1, stubWoHash(a2): a2}
	reorgCommon = a1
	undoBlock = stubWoHash(a2)
	db := rawdb.NewMemoryDatabase(nil)
	hc := &HeaderChain{headerDb: db, processingState: true, config: &params.ChainConfig{Location: qiLoc}}
	hc.currentHeader.Store(a2)
	rawdb.WriteCanonicalHash(db, stubWoHash(a1), 1)
	rawdb.WriteCanonicalHash(db, stubWoHash(a2), 2)
	rawdb.WriteHeadBlockHash(db, stubWoHash(a2))

	// A2's effects: spent outpoints (distinct), created outputs (distinct)
	nS, nC := vLen("spent", 2), vLen("created", 2)
	var spent, created []types.OutPoint
	var spentDen, createdDen []uint8
	for i := 0; i < nS; i++ {
		spent = append(spent, vOutpoint([]string{"s0", "s1"}[i]))
		spentDen = append(spentDen, vU8([]string{"s0Den", "s1Den"}[i])%15)
	}
	for i := 0; i < nC; i++ {
		created = append(created, vOutpoint([]string{"c0", "c1"}[i]))
		createdDen = append(createdDen, vU8([]string{"c0Den", "c1Den"}[i])%15)
	}
	if nS == 2 {
		vAssume(spent[0] != spent[1])
	}
	if nC == 2 {
		vAssume(created[0] != created[1])
	}
	isCreated := func(o types.OutPoint) (bool, int) {
		for i, c := range created {
			if c == o {
				return true, i
			}
		}
		return false, 0
	}
	isSpent := func(o types.OutPoint) bool {
		for _, s := range spent {
			if s == o {
				return true
			}
		}
		return false
	}
	// an output created in A2 and spent in A2 carries the created entry
	for i := range spent {
		if ok, j := isCreated(spent[i]); ok {
			spentDen[i] = createdDen[j]
		}
	}
	// database after A2: created outputs that were not spent again
	for i, c := range created {
		if !isSpent(c) {
			db.Put(rawdb.UtxoKey(c.TxHash, c.Index), []byte{0xE0, createdDen[i]})
		}
	}
	// undo records as Process writes them
	undoSpent, undoTrimmed, undoCreatedKeys = nil, nil, nil
	for i, s := range spent {
		undoSpent = append(undoSpent, &types.SpentUtxoEntry{OutPoint: s, UtxoEntry: &types.UtxoEntry{Denomination: spentDen[i], Address: make([]byte, 20)}})
	}
	for i, c := range created {
		undoCreatedKeys = append(undoCreatedKeys, rawdb.UtxoKeyWithDenomination(c.TxHash, c.Index, createdDen[i]))
	}
	// lockups: one record overwritten in A2 (old value kept as undo), one record created in A2
	owner := common.BytesToAddress(append([]byte{0, 0}, make([]byte, 18)...), qiLoc)
	accKey := rawdb.CoinbaseLockupKey(owner, owner, 1, 0)
	newKey := rawdb.CoinbaseLockupKey(owner, owner, 2, 0)
	oldRec := vBytes("oldLockupRecord", 2)
	undoDeletedLockups, undoCreatedLockupKeys = nil, nil
	if vBool("lockupAccumulated") {
		db.Put(accKey, []byte{0x99})
		undoDeletedLockups = append(undoDeletedLockups, &rawdb.DeletedCoinbaseLockup{Key: accKey, Value: oldRec})
		if vBool("lockupAccumulatedTwice") {
			// the same tranche was accumulated into again later in A2: the second undo record holds
			// the intermediate value, the first one the value from before the block
			vFact("case", "tranche-overwritten-twice-in-rolled-back-block")
			undoDeletedLockups = append(undoDeletedLockups, &rawdb.DeletedCoinbaseLockup{Key: accKey, Value: vBytes("midLockupRecord", 2)})
		}
	}
	if vBool("lockupCreated") {
		db.Put(newKey, []byte{0x77})
		undoCreatedLockupKeys = append(undoCreatedLockupKeys, newKey)
	}

	err := hc.SetCurrentHeader(a1)

	vReach("rolled-back")
	vAssert("reorg/no-error", err == nil)
	for i, s := range spent {
		key := rawdb.UtxoKey(s.TxHash, s.Index)
		wasCreatedInA2, _ := isCreated(s)
		if wasCreatedInA2 {
			vFact("case", "created-and-spent-in-rolled-back-block")
			vAssert("utxo/created-on-abandoned-branch-is-gone", !dbHas(db, key))
		} else {
			v, _ := db.Get(key)
			vAssert("utxo/spent-output-restored", len(v) == 2 && v[1] == spentDen[i])
		}
	}
	for _, c := range created {
		vAssert("utxo/created-output-removed", !dbHas(db, rawdb.UtxoKey(c.TxHash, c.Index)))
	}
	if len(undoDeletedLockups) >= 1 {
		v, _ := db.Get(accKey)
		vAssert("lockup/accumulated-record-restored", bytes.Equal(v, oldRec))
	}
	if len(undoCreatedLockupKeys) == 1 {
		vAssert("lockup/created-record-removed", !dbHas(db, newKey))
	}
	vAssert("head/canonical-entry-of-rolled-back-block-removed", rawdb.ReadCanonicalHash(db, 2) == (common.Hash{}))
	vAssert("head/pointer-names-new-head", rawdb.ReadHeadBlockHash(db) == stubWoHash(a1) && rawdb.ReadCanonicalHash(db, 1) == stubWoHash(a1))
	vAssert("head/current-header", hc.CurrentHeader() == a1)
}
