//go:build verif

package core

import (
	"math/big"

	"github.com/dominant-strategies/go-quai/common"
	"github.com/dominant-strategies/go-quai/core/types"
)

func c19Tx(nonce uint64) *types.Transaction {
	to := common.BytesToAddress(append([]byte{0x00, 0x00}, make([]byte, 18)...), qiLoc)
	return types.NewTx(&types.QuaiTx{ChainID: big.NewInt(9000), Nonce: nonce, GasPrice: big.NewInt(1), Gas: 21000, To: &to, Value: new(big.Int), V: new(big.Int), R: new(big.Int), S: new(big.Int)})
}

// H-C19-f: the nonce-sorted transaction map of an account (txSortedMap, under both the pending and the
// queued list) keeps its three views consistent through every operation, whether or not the sorted
// cache is warm. From a map holding 0..3 transactions with arbitrary distinct nonces, with the cache
// either cold or filled by a previous Flatten, one operation with arbitrary arguments — Put (new or
// existing nonce), Remove, Forward, Filter (by nonce threshold), Cap, Ready — is applied; then
// Flatten() lists exactly the transactions of the reference set in strictly increasing nonce order,
// Len() is their number, LastElement() is the highest one, Get finds exactly the members, and the
// operation returned exactly the removed transactions.
func VerifH_C19_f() {
	m := newTxSortedMap()
	n := vLen("stored", 3)
	// reference: a list of (nonce, alive)
	var keys []uint64
	var alive []bool
	has := func(k uint64) bool {
		for i := range keys {
			if alive[i] && keys[i] == k {
				return true
			}
		}
		return false
	}
	count := func() int {
		c := 0
		for i := range keys {
			if alive[i] {
				c++
			}
		}
		return c
	}
	for i := 0; i < n; i++ {
		k := uint64(vU8("nonce" + string(rune('A'+i))))
		vAssume(!has(k))
		keys, alive = append(keys, k), append(alive, true)
		m.Put(c19Tx(k))
	}
	if vBool("cacheWarm") {
		m.Flatten()
	}
	removedWant := 0
	removedGot := -1
	arg := uint64(vU8("argument"))
	switch vLen("op", 5) {
	case 0:
		vFact("op", "Put")
		if !has(arg) {
			keys, alive = append(keys, arg), append(alive, true)
		}
		m.Put(c19Tx(arg))
	case 1:
		vFact("op", "Remove")
		was := has(arg)
		for i := range keys {
			if keys[i] == arg {
				alive[i] = false
			}
		}
		vAssert("remove/reports-presence", m.Remove(arg) == was)
	case 2:
		vFact("op", "Forward")
		for i := range keys {
			if alive[i] && keys[i] < arg {
				alive[i] = false
				removedWant++
			}
		}
		removedGot = len(m.Forward(arg))
	case 3:
		vFact("op", "Filter")
		for i := range keys {
			if alive[i] && keys[i] >= arg {
				alive[i] = false
				removedWant++
			}
		}
		removedGot = len(m.Filter(func(tx *types.Transaction) bool { return tx.Nonce() >= arg }))
	case 4:
		vFact("op", "Cap")
		limit := int(arg % 4)
		for count() > limit {
			hi := -1
			for i := range keys {
				if alive[i] && (hi < 0 || keys[i] > keys[hi]) {
					hi = i
				}
			}
			alive[hi] = false
			removedWant++
		}
		removedGot = len(m.Cap(limit))
	default:
		vFact("op", "Ready")
		lo := -1
		for i := range keys {
			if alive[i] && (lo < 0 || keys[i] < keys[lo]) {
				lo = i
			}
		}
		if lo >= 0 && keys[lo] <= arg {
			for next := keys[lo]; has(next); next++ {
				for i := range keys {
					if keys[i] == next {
						alive[i] = false
					}
				}
				removedWant++
			}
		}
		removedGot = len(m.Ready(arg))
	}
	vReach("operated")
	if removedGot >= 0 {
		vAssert("op/returned-exactly-the-removed", removedGot == removedWant)
	}
	vAssert("views/len", m.Len() == count())
	flat := m.Flatten()
	vAssert("views/flatten-size", len(flat) == count())
	for i, tx := range flat {
		vAssert("views/flatten-members", has(tx.Nonce()))
		if i > 0 {
			vAssert("views/flatten-strictly-increasing", flat[i-1].Nonce() < tx.Nonce())
		}
	}
	for i := range keys {
		if alive[i] {
			vAssert("views/get-finds-members", m.Get(keys[i]) != nil && m.Get(keys[i]).Nonce() == keys[i])
		}
	}
	if count() > 0 {
		last := m.LastElement()
		for i := range keys {
			if alive[i] {
				vAssert("views/last-element-is-highest", last.Nonce() >= keys[i])
			}
		}
		vAssert("views/last-element-is-member", has(last.Nonce()))
	}
}
