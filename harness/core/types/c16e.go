//go:build verif

package types

import (
	"math/big"

	"github.com/dominant-strategies/go-quai/common"
)

// public key -> address digest as an explicit uninterpreted function (so that a counterexample's
// sender bytes are the solver's choice also in concrete re-execution)
func stubC16Keccak256(data ...[]byte) []byte {
	var all []byte
	for _, d := range data {
		all = append(all, d...)
	}
	return vUF("pubkeyDigest", 32, all)
}

// H-C16-e: the sender of a transaction is classified for the location of whoever asks, also when the
// answer comes from the sender cache. One signed Quai transaction (canonical signature, arbitrary
// recovered key, hence arbitrary sender bytes) is queried through types.Sender twice, with signers of
// the same chain id and two arbitrary zone locations (first call fills the cache, second call hits
// it): each returned address has the same 20 bytes, and is internal exactly when those bytes are in
// the scope of the asking signer's location (so InternalAddress() succeeds only for the caller's own
// zone), and agrees with BytesToAddress for that location.
//
// verif:stub crypto.Ecrecover => stubEcrecover
// verif:stub crypto.Keccak256 => stubC16Keccak256
// verif:bounds bigbits=272
func VerifH_C16_e() {
	loc0 := common.Location{0, 0}
	to := common.BytesToAddress(append([]byte{0x00, 0x00}, make([]byte, 18)...), loc0)
	ct := big.NewInt(9000)
	tx := NewTx(&QuaiTx{ChainID: ct, Nonce: vU64("nonce"), GasPrice: big.NewInt(1000), Gas: 21000, To: &to,
		Value: big.NewInt(5), V: new(big.Int).SetUint64(uint64(vU8("V") % 2)), R: big.NewInt(int64(vU16("R")) + 1), S: big.NewInt(int64(vU16("S")) + 1)})
	l1 := common.Location{vU8("loc1Region") % 4, vU8("loc1Zone") % 4}
	l2 := common.Location{vU8("loc2Region") % 4, vU8("loc2Zone") % 4}
	a1, err1 := Sender(NewSigner(ct, l1), tx)
	a2, err2 := Sender(NewSigner(ct, l2), tx)
	vReach("queried")
	if err1 != nil || err2 != nil {
		return
	}
	vReach("both-answered")
	vAssert("sender/same-bytes", a1.Bytes20() == a2.Bytes20())
	_, e1 := a1.InternalAddress()
	_, e2 := a2.InternalAddress()
	vAssert("sender/first-classified-for-first-caller", (e1 == nil) == common.IsInChainScope(a1.Bytes(), l1))
	vAssert("sender/cached-answer-classified-for-second-caller", (e2 == nil) == common.IsInChainScope(a2.Bytes(), l2))
	vAssert("sender/agrees-with-BytesToAddress", a2.Equal(common.BytesToAddress(a2.Bytes(), l2)) && a1.Equal(common.BytesToAddress(a1.Bytes(), l1)))
	// the cache filled by SetFrom-style use is subject to the same rule
	a3, err3 := Sender(NewSigner(ct, l1), tx)
	if err3 == nil {
		_, e3 := a3.InternalAddress()
		vAssert("sender/third-call-classified-for-its-caller", (e3 == nil) == common.IsInChainScope(a3.Bytes(), l1))
	}
}
