//go:build verif

package types

import (
	"math/big"

	"github.com/dominant-strategies/go-quai/common"
	"github.com/dominant-strategies/go-quai/params"
)

func vHash32(tag string) common.Hash { return common.BytesToHash(vBytes(tag, 32)) }

func vSmallBig(tag string) *big.Int { return vBigN(tag, 16) }

// vByteBig: an arbitrary integer in [1,255] (always one byte long, so encoding it never case-splits).
func vByteBig(tag string) *big.Int {
	b := vU8(tag)
	vAssume(b != 0)
	return new(big.Int).SetUint64(uint64(b))
}

func vDiffAndCount(tag string, gen func(string) *big.Int) *PowShareDiffAndCount {
	return NewPowShareDiffAndCount(gen(tag+"Diff"), gen(tag+"Count"), gen(tag+"Uncled"))
}

// vWoHeader: a work-object header with every consensus field arbitrary; big integers are one-byte
// values here, the field under test is widened to 16 bits by the harness.
func vWoHeader() *WorkObjectHeader {
	var cb [20]byte
	copy(cb[:], vBytes("coinbase", 20))
	wh := &WorkObjectHeader{
		headerHash: vHash32("headerHash"), parentHash: vHash32("parentHash"), txHash: vHash32("txHash"),
		number: vByteBig("number"), difficulty: vByteBig("difficulty"), primeTerminusNumber: new(big.Int).SetUint64(uint64(vU32("primeTerminusNumber")) % (1 << 22)),
		primaryCoinbase: common.Bytes20ToAddress(cb, common.Location{0, 0}),
		location:        common.Location{vU8("locRegion"), vU8("locZone")},
		mixHash:         vHash32("mixHash"), time: vU64("time"), nonce: EncodeNonce(vU64("nonce")),
		data: vBytes("data", vLen("dataLen", 1)), lock: vU8("lock"),
		scryptDiffAndCount: vDiffAndCount("scrypt", vByteBig), shaDiffAndCount: vDiffAndCount("sha", vByteBig),
		shaShareTarget: vByteBig("shaShareTarget"), scryptShareTarget: vByteBig("scryptShareTarget"), kawpowDifficulty: vByteBig("kawpowDifficulty"),
	}
	return wh
}

var sealFields = []string{"headerHash", "parentHash", "number", "difficulty", "primeTerminusNumber", "txHash", "primaryCoinbase",
	"location", "time", "data", "lock", "scryptDiffAndCount.difficulty", "shaDiffAndCount.difficulty", "shaShareTarget", "scryptShareTarget", "kawpowDifficulty",
	"scryptDiffAndCount.count", "scryptDiffAndCount.uncled", "shaDiffAndCount.count", "shaDiffAndCount.uncled"}

// H-C08-b: the seal hash depends on every consensus field of the work-object header. For an
// arbitrary header h and a copy h' that differs from it in exactly one chosen field (arbitrary new
// value): SealHash(h) == SealHash(h') implies the field values are equal — on both sides of the
// KawPow transition (the share-difficulty fields are part of the seal only after it). blake3 and
// the protobuf wire encoding are collision-free uninterpreted functions; nonce, mix hash and AuxPow
// are deliberately outside the seal.
func VerifH_C08_b() {
	h := vWoHeader()
	post := h.KawpowActivationHappened()
	if post {
		vFact("regime", "post-kawpow")
	} else {
		vFact("regime", "pre-kawpow")
	}
	k := vLen("field", len(sealFields)-1)
	vFact("field", sealFields[k])
	// widen the field under test in h itself
	switch k {
	case 2:
		h.number = vSmallBig("number1")
	case 3:
		h.difficulty = vSmallBig("difficulty1")
	case 11:
		h.scryptDiffAndCount.difficulty = vSmallBig("scryptDiff1")
	case 12:
		h.shaDiffAndCount.difficulty = vSmallBig("shaDiff1")
	case 16:
		h.scryptDiffAndCount.count = vSmallBig("scryptCount1")
	case 17:
		h.scryptDiffAndCount.uncled = vSmallBig("scryptUncled1")
	case 18:
		h.shaDiffAndCount.count = vSmallBig("shaCount1")
	case 19:
		h.shaDiffAndCount.uncled = vSmallBig("shaUncled1")
	case 13:
		h.shaShareTarget = vSmallBig("shaShareTarget1")
	case 14:
		h.scryptShareTarget = vSmallBig("scryptShareTarget1")
	case 15:
		h.kawpowDifficulty = vSmallBig("kawpowDifficulty1")
	}
	g := *h
	same := true
	switch k {
	case 0:
		g.headerHash = vHash32("headerHash2")
		same = g.headerHash == h.headerHash
	case 1:
		g.parentHash = vHash32("parentHash2")
		same = g.parentHash == h.parentHash
	case 2:
		g.number = vSmallBig("number2")
		same = g.number.Cmp(h.number) == 0
	case 3:
		g.difficulty = vSmallBig("difficulty2")
		same = g.difficulty.Cmp(h.difficulty) == 0
	case 4:
		g.primeTerminusNumber = new(big.Int).SetUint64(uint64(vU32("primeTerminusNumber2")) % (1 << 22))
		same = g.primeTerminusNumber.Cmp(h.primeTerminusNumber) == 0
	case 5:
		g.txHash = vHash32("txHash2")
		same = g.txHash == h.txHash
	case 6:
		var cb [20]byte
		copy(cb[:], vBytes("coinbase2", 20))
		g.primaryCoinbase = common.Bytes20ToAddress(cb, common.Location{0, 0})
		same = g.primaryCoinbase.Equal(h.primaryCoinbase)
	case 7:
		g.location = common.Location{vU8("locRegion2"), vU8("locZone2")}
		same = g.location.Equal(h.location)
	case 8:
		g.time = vU64("time2")
		same = g.time == h.time
	case 9:
		g.data = vBytes("data2", vLen("dataLen2", 1))
		same = string(g.data) == string(h.data)
	case 10:
		g.lock = vU8("lock2")
		same = g.lock == h.lock
	case 11, 16, 17:
		c := *h.scryptDiffAndCount
		nv := vSmallBig("scryptSub2")
		switch k {
		case 11:
			same = nv.Cmp(c.difficulty) == 0
			c.difficulty = nv
		case 16:
			same = nv.Cmp(c.count) == 0
			c.count = nv
		default:
			same = nv.Cmp(c.uncled) == 0
			c.uncled = nv
		}
		g.scryptDiffAndCount = &c
	case 12, 18, 19:
		c := *h.shaDiffAndCount
		nv := vSmallBig("shaSub2")
		switch k {
		case 12:
			same = nv.Cmp(c.difficulty) == 0
			c.difficulty = nv
		case 18:
			same = nv.Cmp(c.count) == 0
			c.count = nv
		default:
			same = nv.Cmp(c.uncled) == 0
			c.uncled = nv
		}
		g.shaDiffAndCount = &c
	case 13:
		g.shaShareTarget = vSmallBig("shaShareTarget2")
		same = g.shaShareTarget.Cmp(h.shaShareTarget) == 0
	case 14:
		g.scryptShareTarget = vSmallBig("scryptShareTarget2")
		same = g.scryptShareTarget.Cmp(h.scryptShareTarget) == 0
	case 15:
		g.kawpowDifficulty = vSmallBig("kawpowDifficulty2")
		same = g.kawpowDifficulty.Cmp(h.kawpowDifficulty) == 0
	}
	if k >= 11 && !post {
		return // share-difficulty fields enter the seal only after the KawPow transition
	}
	if k == 4 && g.KawpowActivationHappened() != post {
		vAssume(g.primeTerminusNumber.Uint64() < params.KawPowForkBlock == !post)
	}
	s1, s2 := h.SealHash(), g.SealHash()
	vReach("sealed")
	vAssert("seal/covers-field", s1 != s2 || same)
}
