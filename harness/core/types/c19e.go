//go:build verif

package types

import (
	"math/big"

	"github.com/dominant-strategies/go-quai/common"
)

// H-C19-e: the cost the pool checks against the sender's balance is the true cost. For every gas
// limit (uint64), gas price (< 2^128) and value (< 2^128) of a Quai transaction:
// Transaction.Cost() = gas * gasPrice + value exactly (unbounded integers, no wrap-around), and
// the accessors it is computed from are not modified by the call.
func VerifH_C19_e() {
	to := common.BytesToAddress(append([]byte{0x00, 0x00}, make([]byte, 18)...), common.Location{0, 0})
	gas := vU64("gas")
	price, value := vBigN("gasPrice", 128), vBigN("value", 128)
	p0, v0 := new(big.Int).Set(price), new(big.Int).Set(value)
	tx := NewTx(&QuaiTx{ChainID: big.NewInt(9000), Nonce: 1, GasPrice: price, Gas: gas, To: &to, Value: value, V: new(big.Int), R: new(big.Int), S: new(big.Int)})
	want := new(big.Int).Mul(p0, new(big.Int).SetUint64(gas))
	want.Add(want, v0)
	got := tx.Cost()
	vReach("computed")
	vAssert("cost/exact", got.Cmp(want) == 0)
	vAssert("cost/accessors-unchanged", tx.GasPrice().Cmp(p0) == 0 && tx.Value().Cmp(v0) == 0 && tx.Gas() == gas)
}
