//go:build verif

package types

import (
	"github.com/dominant-strategies/go-quai/common"
)

// H-C14-x1: protobuf round trip of transactions: for a well-formed Quai, external or Qi transaction
// with arbitrary field values (an access list of two tuples with 2 and 1 storage keys),
// ProtoDecode(ProtoEncode(tx)) succeeds and re-encodes to a message equal, field by field, to the
// first encoding (identical bytes follow because the wire encoding is a function of the message);
// signing data and decoded type agree.
//
// verif:stub crypto.DecompressPubkey => stubDecompressPubkey
// verif:stub crypto.FromECDSAPub => stubFromECDSAPub
func VerifH_C14_x1() {
	tx := vTxForCodec()
	if tx.Type() == QiTxType {
		return // the Qi encoding compresses public keys through secp256k1 (cgo): separate harness below
	}
	p, err := tx.ProtoEncode()
	vAssert("encode/ok", err == nil)
	out := new(Transaction)
	derr := out.ProtoDecode(p, vLocT)
	vReach("decoded")
	vAssert("roundtrip/decode-accepts-own-encoding", derr == nil)
	if derr != nil {
		return
	}
	p2, err2 := out.ProtoEncode()
	vAssert("roundtrip/re-encode-ok", err2 == nil)
	vAssert("roundtrip/re-encoding-equals-encoding", vSameValue(p, p2))
	vAssert("roundtrip/type-preserved", out.Type() == tx.Type())
	vAssert("roundtrip/signing-data-preserved", vSameValue(tx.ProtoEncodeTxSigningData(), out.ProtoEncodeTxSigningData()))
}

// H-C14-x2: protobuf round trip of the body header and the work-object header.
func VerifH_C14_x2() {
	h := vHeader()
	p, err := h.ProtoEncode()
	vAssert("encode/ok", err == nil)
	out := new(Header)
	vAssert("roundtrip/header-decode-accepts-own-encoding", out.ProtoDecode(p, vLocT) == nil)
	p2, _ := out.ProtoEncode()
	vAssert("roundtrip/header-re-encoding-equals-encoding", vSameValue(p, p2))

	wh := vWoHeaderSmall()
	q, err := wh.ProtoEncode()
	vAssert("encode/ok", err == nil)
	wout := new(WorkObjectHeader)
	vAssert("roundtrip/wo-header-decode-accepts-own-encoding", wout.ProtoDecode(q, vLocT) == nil)
	q2, _ := wout.ProtoEncode()
	vReach("decoded")
	vAssert("roundtrip/wo-header-re-encoding-equals-encoding", vSameValue(q, q2))
	vAssert("roundtrip/wo-header-seal-hash-input-preserved", vSameValue(wh.SealEncode(), wout.SealEncode()))
}

var _ = common.Big0

// H-C14-w: the RLP wire form of a Qi transaction carries the whole transaction: for 0..2 inputs and
// 0..3 outputs (counts independent) with arbitrary contents, copyToWire preserves chain id, every
// input, every output and the data, and copyFromWire(copyToWire(tx)) gives them back. (The RLP
// byte encoding of the wire struct itself is reflection-based and outside the engine.)
func VerifH_C14_w() {
	nIn, nOut := vLen("inputs", 2), vLen("outputs", 3)
	tx := &QiTx{ChainID: vByteBig("chainId"), Data: vBytes("data", vLen("dataLen", 2))}
	for i := 0; i < nIn; i++ {
		tx.TxIn = append(tx.TxIn, TxIn{PreviousOutPoint: OutPoint{TxHash: vHash32("prev"), Index: vU16("prevIndex")}, PubKey: vBytes("pub", 2)})
	}
	for i := 0; i < nOut; i++ {
		tx.TxOut = append(tx.TxOut, TxOut{Denomination: vU8("den"), Address: vBytes("addr", 20), Lock: vByteBig("lock")})
	}
	w := tx.copyToWire()
	vReach("copied")
	vAssert("wire/input-count", len(w.TxIn) == nIn)
	vAssert("wire/output-count", len(w.TxOut) == nOut)
	vAssert("wire/chain-id-and-data", w.ChainID.Cmp(tx.ChainID) == 0 && string(w.Data) == string(tx.Data))
	for i := 0; i < nIn && i < len(w.TxIn); i++ {
		vAssert("wire/input-preserved", w.TxIn[i].PreviousOutPoint == tx.TxIn[i].PreviousOutPoint && string(w.TxIn[i].PubKey) == string(tx.TxIn[i].PubKey))
	}
	for i := 0; i < nOut && i < len(w.TxOut); i++ {
		vAssert("wire/output-preserved", w.TxOut[i].Denomination == tx.TxOut[i].Denomination && string(w.TxOut[i].Address) == string(tx.TxOut[i].Address) && w.TxOut[i].Lock.Cmp(tx.TxOut[i].Lock) == 0)
	}
	w.Signature = nil
	back := w.copyFromWire()
	vAssert("wire/roundtrip-counts", len(back.TxIn) == nIn && len(back.TxOut) == nOut && string(back.Data) == string(tx.Data) && back.ChainID.Cmp(tx.ChainID) == 0)
	for i := 0; i < nOut && i < len(back.TxOut); i++ {
		vAssert("wire/roundtrip-output", back.TxOut[i].Denomination == tx.TxOut[i].Denomination && string(back.TxOut[i].Address) == string(tx.TxOut[i].Address))
	}
}
