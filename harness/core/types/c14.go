//go:build verif

package types

import (
	"crypto/ecdsa"
	"errors"
	"math/big"

	"github.com/btcsuite/btcd/btcec/v2/schnorr"
	"github.com/dominant-strategies/go-quai/common"
)

// H-C14-x1: protobuf round trip of transactions: for a well-formed Quai, external or Qi transaction
// with arbitrary field values (an access list of two tuples with 2 and 1 storage keys),
// ProtoDecode(ProtoEncode(tx)) succeeds and re-encodes to a message equal, field by field, to the
// first encoding (identical bytes follow because the wire encoding is a function of the message);
// signing data and decoded type agree.
//
// verif:stub crypto.DecompressPubkey => stubC14DecompressPubkey
// verif:stub crypto.FromECDSAPub => stubC14FromECDSAPub
func VerifH_C14_x1() {
	tx := vTxForCodec()
	if tx.Type() == QiTxType {
		return // the Qi encoding compresses public keys through secp256k1 (cgo): separate harness below
	}
	p, err := tx.ProtoEncode()
	vAssert("encode/ok", err == nil)
	out := new(Transaction)
	derr := out.ProtoDecode(p, vLocT)
	vReach("decoded")
	vAssert("roundtrip/decode-accepts-own-encoding", derr == nil)
	if derr != nil {
		return
	}
	p2, err2 := out.ProtoEncode()
	vAssert("roundtrip/re-encode-ok", err2 == nil)
	vAssert("roundtrip/re-encoding-equals-encoding", vSameValue(p, p2))
	vAssert("roundtrip/type-preserved", out.Type() == tx.Type())
	vAssert("roundtrip/signing-data-preserved", vSameValue(tx.ProtoEncodeTxSigningData(), out.ProtoEncodeTxSigningData()))
}

// H-C14-x2: protobuf round trip of the body header and the work-object header.
func VerifH_C14_x2() {
	h := vHeader()
	p, err := h.ProtoEncode()
	vAssert("encode/ok", err == nil)
	out := new(Header)
	vAssert("roundtrip/header-decode-accepts-own-encoding", out.ProtoDecode(p, vLocT) == nil)
	p2, _ := out.ProtoEncode()
	vAssert("roundtrip/header-re-encoding-equals-encoding", vSameValue(p, p2))

	wh := vWoHeaderSmall()
	q, err := wh.ProtoEncode()
	vAssert("encode/ok", err == nil)
	wout := new(WorkObjectHeader)
	vAssert("roundtrip/wo-header-decode-accepts-own-encoding", wout.ProtoDecode(q, vLocT) == nil)
	q2, _ := wout.ProtoEncode()
	vReach("decoded")
	vAssert("roundtrip/wo-header-re-encoding-equals-encoding", vSameValue(q, q2))
	vAssert("roundtrip/wo-header-seal-hash-input-preserved", vSameValue(wh.SealEncode(), wout.SealEncode()))
}

var _ = common.Big0

// H-C14-w: the RLP wire form of a Qi transaction carries the whole transaction: for 0..2 inputs and
// 0..3 outputs (counts independent) with arbitrary contents, copyToWire preserves chain id, every
// input, every output and the data, and copyFromWire(copyToWire(tx)) gives them back. (The RLP
// byte encoding of the wire struct itself is reflection-based and outside the engine.)
func VerifH_C14_w() {
	nIn, nOut := vLen("inputs", 2), vLen("outputs", 3)
	tx := &QiTx{ChainID: vByteBig("chainId"), Data: vBytes("data", vLen("dataLen", 2))}
	for i := 0; i < nIn; i++ {
		tx.TxIn = append(tx.TxIn, TxIn{PreviousOutPoint: OutPoint{TxHash: vHash32("prev"), Index: vU16("prevIndex")}, PubKey: vBytes("pub", 2)})
	}
	for i := 0; i < nOut; i++ {
		tx.TxOut = append(tx.TxOut, TxOut{Denomination: vU8("den"), Address: vBytes("addr", 20), Lock: vByteBig("lock")})
	}
	w := tx.copyToWire()
	vReach("copied")
	vAssert("wire/input-count", len(w.TxIn) == nIn)
	vAssert("wire/output-count", len(w.TxOut) == nOut)
	vAssert("wire/chain-id-and-data", w.ChainID.Cmp(tx.ChainID) == 0 && string(w.Data) == string(tx.Data))
	for i := 0; i < nIn && i < len(w.TxIn); i++ {
		vAssert("wire/input-preserved", w.TxIn[i].PreviousOutPoint == tx.TxIn[i].PreviousOutPoint && string(w.TxIn[i].PubKey) == string(tx.TxIn[i].PubKey))
	}
	for i := 0; i < nOut && i < len(w.TxOut); i++ {
		vAssert("wire/output-preserved", w.TxOut[i].Denomination == tx.TxOut[i].Denomination && string(w.TxOut[i].Address) == string(tx.TxOut[i].Address) && w.TxOut[i].Lock.Cmp(tx.TxOut[i].Lock) == 0)
	}
	w.Signature = nil
	back := w.copyFromWire()
	vAssert("wire/roundtrip-counts", len(back.TxIn) == nIn && len(back.TxOut) == nOut && string(back.Data) == string(tx.Data) && back.ChainID.Cmp(tx.ChainID) == 0)
	for i := 0; i < nOut && i < len(back.TxOut); i++ {
		vAssert("wire/roundtrip-output", back.TxOut[i].Denomination == tx.TxOut[i].Denomination && string(back.TxOut[i].Address) == string(tx.TxOut[i].Address))
	}
}

// secp256k1 point (de)compression is cgo: modelled as a bijection between the 33-byte and the 65-byte
// form of a key (0x04 | x | 31 zero bytes | parity), which is all the codec relies on.
var c14Keys map[*ecdsa.PublicKey][]byte

func stubC14DecompressPubkey(pubkey []byte) (*ecdsa.PublicKey, error) {
	if len(pubkey) != 33 || (pubkey[0] != 2 && pubkey[0] != 3) {
		return nil, errors.New("invalid compressed public key")
	}
	k := new(ecdsa.PublicKey)
	if c14Keys == nil {
		c14Keys = map[*ecdsa.PublicKey][]byte{}
	}
	c14Keys[k] = append([]byte{}, pubkey...)
	return k, nil
}
func stubC14FromECDSAPub(pub *ecdsa.PublicKey) []byte {
	c := c14Keys[pub]
	if c == nil {
		return nil
	}
	out := make([]byte, 65)
	out[0] = 4
	copy(out[1:33], c[1:33])
	out[64] = c[0]
	return out
}
func stubC14UnmarshalPubkey(pub []byte) (*ecdsa.PublicKey, error) {
	if len(pub) != 65 || pub[0] != 4 || (pub[64] != 2 && pub[64] != 3) {
		return nil, errors.New("invalid public key")
	}
	c := make([]byte, 33)
	c[0] = pub[64]
	copy(c[1:], pub[1:33])
	return stubC14DecompressPubkey(c)
}
func stubC14CompressPubkey(pubkey *ecdsa.PublicKey) []byte { return append([]byte{}, c14Keys[pubkey]...) }

// H-C14-x3: protobuf round trip of a Qi transaction, including the optional work fields. One input
// (compressed 33-byte key, arbitrary id byte), 0..1 outputs, arbitrary chain id and data byte, and
// each of ParentHash / MixHash / WorkNonce independently present (arbitrary value) or absent:
// ProtoEncode succeeds, ProtoDecode accepts the encoding, every field comes back (presence and
// value), the re-encoding equals the encoding and the signing data is preserved.
//
// verif:stub crypto.DecompressPubkey => stubC14DecompressPubkey
// verif:stub crypto.FromECDSAPub => stubC14FromECDSAPub
// verif:stub crypto.UnmarshalPubkey => stubC14UnmarshalPubkey
// verif:stub crypto.CompressPubkey => stubC14CompressPubkey
func VerifH_C14_x3() {
	pub := make([]byte, 33)
	pub[0], pub[32] = 2, vU8("pubKeyId")
	in := TxIns{{PreviousOutPoint: OutPoint{TxHash: vHash32("prev"), Index: vU16("prevIndex")}, PubKey: pub}}
	var out TxOuts
	if vBool("hasOutput") {
		out = TxOuts{{Denomination: vU8("den") % 15, Address: vBytes("addr", 20), Lock: vByteBig("lock")}}
	}
	sigBytes := make([]byte, 64)
	sigBytes[31], sigBytes[63] = 1, 1
	sig, serr := schnorr.ParseSignature(sigBytes)
	if serr != nil {
		return
	}
	q := &QiTx{ChainID: vTinyBig("chainId"), TxIn: in, TxOut: out, Data: vBytes("data", 1), Signature: sig}
	if vBool("hasParentHash") {
		h := vHash32("parentHash")
		q.ParentHash = &h
	}
	if vBool("hasMixHash") {
		h := vHash32("mixHash")
		q.MixHash = &h
	}
	if vBool("hasWorkNonce") {
		n := EncodeNonce(vU64("workNonce"))
		q.WorkNonce = &n
	}
	tx := NewTx(q)
	p, err := tx.ProtoEncode()
	vReach("encoded")
	vAssert("encode/ok", err == nil)
	if err != nil {
		return
	}
	got := new(Transaction)
	derr := got.ProtoDecode(p, vLocT)
	vAssert("roundtrip/decode-accepts-own-encoding", derr == nil)
	if derr != nil {
		return
	}
	vReach("decoded")
	vAssert("roundtrip/parent-hash", (got.ParentHash() == nil) == (q.ParentHash == nil) && (q.ParentHash == nil || *got.ParentHash() == *q.ParentHash))
	vAssert("roundtrip/mix-hash", (got.MixHash() == nil) == (q.MixHash == nil) && (q.MixHash == nil || *got.MixHash() == *q.MixHash))
	vAssert("roundtrip/work-nonce", (got.WorkNonce() == nil) == (q.WorkNonce == nil) && (q.WorkNonce == nil || *got.WorkNonce() == *q.WorkNonce))
	vAssert("roundtrip/inputs-outputs-data", len(got.TxIn()) == 1 && len(got.TxIn()[0].PubKey) == 65 && string(got.TxIn()[0].PubKey[1:33]) == string(pub[1:33]) && got.TxIn()[0].PubKey[64] == pub[0] && got.TxIn()[0].PreviousOutPoint == in[0].PreviousOutPoint &&
		len(got.TxOut()) == len(out) && string(got.Data()) == string(q.Data) && got.ChainId().Cmp(q.ChainID) == 0)
	p2, err2 := got.ProtoEncode()
	vAssert("roundtrip/re-encoding-equals-encoding", err2 == nil && vSameValue(p, p2))
	vAssert("roundtrip/signing-data-preserved", vSameValue(tx.ProtoEncodeTxSigningData(), got.ProtoEncodeTxSigningData()))
}

// H-C14-c: a transaction does not alias the buffers it was built from, and a copy does not alias its
// source. NewTx(inner) of an external and of a Quai transaction with arbitrary value, gas price and
// data: overwriting the caller's data buffer and updating the caller's big integers in place
// afterwards leaves every accessor of the transaction unchanged; NewTx(tx.Inner()) followed by
// SetValue on the copy (what the prime chain does when it reprices a conversion ETX) leaves the
// original's value unchanged.
func VerifH_C14_c() {
	to := common.BytesToAddress(append([]byte{0x00, 0x00}, make([]byte, 18)...), vLocT)
	v0, g0, d0 := vU64("value"), vU64("gasPrice"), vU8("dataByte")
	value, price := new(big.Int).SetUint64(v0), new(big.Int).SetUint64(g0)
	data := []byte{d0, 7}
	var tx *Transaction
	external := vBool("external")
	if external {
		vFact("type", "external")
		tx = NewTx(&ExternalTx{Value: value, To: &to, Sender: to, Data: data, Gas: 21000, EtxType: ConversionType})
	} else {
		vFact("type", "quai")
		tx = NewTx(&QuaiTx{ChainID: big.NewInt(9000), Nonce: 1, GasPrice: price, Gas: 21000, To: &to, Value: value, Data: data, V: new(big.Int), R: new(big.Int), S: new(big.Int)})
	}
	// the caller reuses its buffers
	data[0] ^= 0xff
	data[1] = 9
	value.Add(value, big.NewInt(1))
	price.Add(price, big.NewInt(1))
	vReach("source-mutated")
	vAssert("newtx/value-not-aliased", tx.Value().IsUint64() && tx.Value().Uint64() == v0)
	vAssert("newtx/data-not-aliased", len(tx.Data()) == 2 && tx.Data()[0] == d0 && tx.Data()[1] == 7)
	if !external {
		vAssert("newtx/gas-price-not-aliased", tx.GasPrice().IsUint64() && tx.GasPrice().Uint64() == g0)
	}
	// repricing a copy
	cpy := NewTx(tx.Inner())
	if external {
		cpy.SetValue(new(big.Int).SetUint64(vU64("repriced")))
	} else {
		cv := cpy.Value()
		cv.Add(cv, big.NewInt(3))
	}
	vAssert("copy/repricing-leaves-original", tx.Value().IsUint64() && tx.Value().Uint64() == v0)
	cd := cpy.Data()
	if len(cd) > 0 {
		cd[0] ^= 0x55
	}
	vAssert("copy/data-not-aliased", tx.Data()[0] == d0)
}
