//go:build verif

package types

import (
	"errors"
	"math/big"

	"github.com/dominant-strategies/go-quai/common"
)

// stubEcrecover: public-key recovery is an uninterpreted function of (hash, signature); it may fail.
func stubEcrecover(hash, sig []byte) ([]byte, error) {
	if vBool("ecrecoverFails") {
		return nil, errors.New("recovery failed")
	}
	pub := vUF("ecrecover", 64, hash, sig)
	return append([]byte{4}, pub...), nil
}

// H-C03-b2: chain-ID binding and the sender cache. One signed Quai transaction (arbitrary chain id
// ct, V, R, S and payload) is queried with two signers for arbitrary chain ids c1 then c2 (ids of the
// form low8 + {0,1}*2^64, so ids that agree modulo 2^64 are included): a sender is returned for signer ci only if
// ct == ci — in particular the sender cached by the first call is never returned for another chain
// id — and only for V in {0,1} (V = low byte + {0,1}*2^8 + {0,1}*2^64), 0 < R < N, 0 < S <= N/2; two successful calls return the same address.
//
// verif:stub crypto.Ecrecover => stubEcrecover
// verif:bounds bigbits=272
func VerifH_C03_b2() {
	loc := common.Location{0, 0}
	to := common.BytesToAddress(append([]byte{0x00, 0x00}, make([]byte, 18)...), loc)
	// chain ids: an arbitrary 8-bit low part plus an optional 2^64 (ids that agree modulo 2^64)
	chainID := func(tag string) *big.Int {
		id := new(big.Int).SetUint64(uint64(vU8(tag + "Low")))
		if vBool(tag + "High") {
			id.Add(id, new(big.Int).Lsh(big.NewInt(1), 64))
		}
		return id
	}
	ct := chainID("txChainId")
	// R, S below 2^16 here (zero included); the full range check is H-C03-b1's obligation
	// V: an arbitrary low byte plus optional 2^8 and 2^64 (the wire form is a byte string of any width, so values
	// that agree with a valid recovery id modulo 2^8 or modulo 2^64 are included)
	V := new(big.Int).SetUint64(uint64(vU8("V")))
	if vBool("VPlus256") {
		V.Add(V, big.NewInt(256))
	}
	if vBool("VPlus2e64") {
		V.Add(V, new(big.Int).Lsh(big.NewInt(1), 64))
	}
	R, S := vBigN("R", 16), vBigN("S", 16)
	tx := NewTx(&QuaiTx{ChainID: ct, Nonce: vU64("nonce"), GasPrice: big.NewInt(1000), Gas: vU64("gas"), To: &to,
		Value: big.NewInt(5), Data: vBytes("data", vLen("dataLen", 1)), V: V, R: R, S: S})
	c1, c2 := chainID("signer1ChainId"), chainID("signer2ChainId")
	s1, s2 := NewSigner(c1, loc), NewSigner(c2, loc)
	a1, err1 := Sender(s1, tx)
	a2, err2 := Sender(s2, tx)
	vReach("queried")
	n, _ := new(big.Int).SetString("115792089237316195423570985008687907852837564279074904382605163141518161494337", 10)
	halfN, _ := new(big.Int).SetString("57896044618658097711785492504343953926418782139537452191302581570759080747168", 10)
	canonical := V.Cmp(big.NewInt(1)) <= 0 && R.Sign() > 0 && R.Cmp(n) < 0 && S.Sign() > 0 && S.Cmp(halfN) <= 0
	if err1 == nil {
		vReach("first-accepted")
		vAssert("chainid/first-signer-matches-tx", ct.Cmp(c1) == 0)
		vAssert("sig/canonical", canonical)
	}
	if err2 == nil {
		vReach("second-accepted")
		vAssert("chainid/cached-sender-not-returned-for-other-chain", ct.Cmp(c2) == 0)
		vAssert("sig/canonical", canonical)
	}
	if err1 == nil && err2 == nil {
		vAssert("sender/same-address", a1.Equal(a2))
	}
}

var signedFields = []string{"chainId", "nonce", "gasPrice", "gas", "to", "value", "data", "accessList"}

// H-C03-a: the signing hash of a Quai transaction depends on every signed field. For an arbitrary
// transaction t and a copy t' that differs in exactly one chosen signed field (arbitrary new value):
// SignerV1.Hash(t) == SignerV1.Hash(t') implies the field is unchanged. Keccak and the protobuf
// wire encoding are collision-free uninterpreted functions (listed assumption).
func VerifH_C03_a() {
	loc := common.Location{0, 0}
	mkTo := func(tag string) *common.Address {
		var b [20]byte
		copy(b[:], vBytes(tag, 20))
		a := common.Bytes20ToAddress(b, loc)
		return &a
	}
	mkAL := func(tag string) AccessList {
		if !vBool(tag + "Present") {
			return nil
		}
		var b [20]byte
		copy(b[:], vBytes(tag+"Addr", 20))
		return AccessList{{Address: common.Bytes20ToAddress(b, loc), StorageKeys: []common.Hash{common.BytesToHash(vBytes(tag+"Key", 32))}}}
	}
	small := func(tag string) *big.Int { return vBigN(tag, 16) }
	// big integers are one-byte values except the field under test (widened to 16 bits below)
	base := &QuaiTx{ChainID: vByteBig("chainId"), Nonce: vU64("nonce"), GasPrice: vByteBig("gasPrice"), Gas: vU64("gas"), To: mkTo("to"),
		Value: vByteBig("value"), Data: vBytes("data", vLen("dataLen", 1)), AccessList: mkAL("al"),
		V: new(big.Int), R: new(big.Int), S: new(big.Int)}
	k := vLen("field", len(signedFields)-1)
	vFact("field", signedFields[k])
	switch k {
	case 0:
		base.ChainID = small("chainId1")
	case 2:
		base.GasPrice = small("gasPrice1")
	case 5:
		base.Value = small("value1")
	}
	mut := *base
	same := true
	switch k {
	case 0:
		mut.ChainID = small("chainId2")
		same = mut.ChainID.Cmp(base.ChainID) == 0
	case 1:
		mut.Nonce = vU64("nonce2")
		same = mut.Nonce == base.Nonce
	case 2:
		mut.GasPrice = small("gasPrice2")
		same = mut.GasPrice.Cmp(base.GasPrice) == 0
	case 3:
		mut.Gas = vU64("gas2")
		same = mut.Gas == base.Gas
	case 4:
		if vBool("toNil") {
			mut.To = nil
			same = false
		} else {
			mut.To = mkTo("to2")
			same = mut.To.Equal(*base.To)
		}
	case 5:
		mut.Value = small("value2")
		same = mut.Value.Cmp(base.Value) == 0
	case 6:
		mut.Data = vBytes("data2", vLen("dataLen2", 1))
		same = string(mut.Data) == string(base.Data)
	default:
		mut.AccessList = mkAL("al2")
		same = len(mut.AccessList) == len(base.AccessList) && (len(mut.AccessList) == 0 ||
			(mut.AccessList[0].Address.Equal(base.AccessList[0].Address) && mut.AccessList[0].StorageKeys[0] == base.AccessList[0].StorageKeys[0]))
	}
	signer := NewSigner(big.NewInt(9000), loc)
	h1, h2 := signer.Hash(NewTx(base)), signer.Hash(NewTx(&mut))
	vReach("hashed")
	vAssert("signing-hash/covers-field", h1 != h2 || same)
}
