//go:build verif

package types

import (
	"math/big"

	"github.com/dominant-strategies/go-quai/common"
)

// H-C15-a5: the remaining decoders of peer- and disk-supplied messages return a value or an error, never
// panic, under single-site damage of a well-formed encoding (field dropped; bytes absent / emptied / one byte
// short / one byte long; repeated field emptied / shortened / lengthened), and what their consumers call next
// on an accepted value does not panic either:
//   pending ETXs and pending ETX rollups (request / response with the dominant and subordinate chains):
//     header view, commitment hashes, every ETX's destination and hash;
//   the aux template (gossip from the subsidy pool): every accessor;
//   termini, block manifest, spent-UTXO undo record, address-index outpoint, receipts (read back from disk):
//     IsValid-guarded indexing, lengths, lock / denomination / address accessors.
//
// verif:bounds split=1024 paths=400000
func VerifH_C15_a5() {
	wo := &WorkObject{woHeader: c15WoHeader(1), woBody: &WorkObjectBody{}}
	wo.woBody.header = c15Header()
	switch vLen("message", 7) {
	case 0:
		vFact("message", "PendingEtxs")
		m := &PendingEtxs{Header: wo, OutboundEtxs: Transactions{c15SmallEtx(1), c15SmallEtx(2)}}
		p, err := m.ProtoEncode()
		vAssume(err == nil)
		vProtoFault(p, vLen("faultSite", vProtoFaultSites(p)-1))
		out := new(PendingEtxs)
		if out.ProtoDecode(p, vLocT) == nil {
			vReach("accepted")
			c15UsePEtxHeader(out.Header)
			_ = out.Header.OutboundEtxHash()
			c15UseEtxs(out.OutboundEtxs)
		}
	case 1:
		vFact("message", "PendingEtxsRollup")
		m := &PendingEtxsRollup{Header: wo, EtxsRollup: Transactions{c15SmallEtx(1), c15SmallEtx(2)}}
		p, err := m.ProtoEncode()
		vAssume(err == nil)
		vProtoFault(p, vLen("faultSite", vProtoFaultSites(p)-1))
		out := new(PendingEtxsRollup)
		if out.ProtoDecode(p, vLocT) == nil {
			vReach("accepted")
			c15UsePEtxHeader(out.Header)
			_ = out.Header.EtxRollupHash()
			c15UseEtxs(out.EtxsRollup)
		}
	case 2:
		vFact("message", "AuxTemplate")
		at := NewAuxTemplate()
		at.SetPowID(Kawpow)
		at.SetPrevHash([32]byte{1})
		at.SetAuxPow2([]byte{1, 2})
		at.SetVersion(4)
		at.SetNBits(0x1d00ffff)
		at.SetSignatureTime(1700000000)
		at.SetHeight(100)
		at.SetCoinbaseOut([]byte{1, 0, 0})
		at.SetMerkleBranch([][]byte{make([]byte, 32), make([]byte, 32)})
		at.SetSigs([]byte{9, 9})
		p := at.ProtoEncode()
		vProtoFault(p, vLen("faultSite", vProtoFaultSites(p)-1))
		out := NewAuxTemplate()
		if out.ProtoDecode(p) == nil {
			vReach("accepted")
			_, _, _, _ = out.PowID(), out.PrevHash(), out.Version(), out.Bits()
			_, _, _ = out.SignatureTime(), out.Height(), len(out.CoinbaseOut())
			for _, b := range out.MerkleBranch() {
				_ = len(b)
			}
			_ = len(out.Sigs()) + len(out.AuxPow2())
			// (AuxTemplate.Hash clones the message through protobuf reflection: outside the engine)
		}
	case 3:
		vFact("message", "Termini")
		t := EmptyTermini()
		p := t.ProtoEncode()
		vProtoFault(p, vLen("faultSite", vProtoFaultSites(p)-1))
		out := new(Termini)
		if out.ProtoDecode(p) == nil {
			vReach("accepted")
			if out.IsValid() { // every reader checks IsValid before indexing (pcrc, GetTerminiByHash callers)
				_ = out.DomTerminus(common.Location{0, 0})
				_ = out.SubTerminiAtIndex(common.MaxWidth - 1)
				_ = out.DomTerminiAtIndex(common.MaxWidth - 1)
			}
			_ = len(out.DomTermini()) + len(out.SubTermini())
		}
	case 4:
		vFact("message", "BlockManifest")
		m := BlockManifest{common.Hash{1}, common.Hash{2}}
		p, err := m.ProtoEncode()
		vAssume(err == nil)
		vProtoFault(p, vLen("faultSite", vProtoFaultSites(p)-1))
		out := new(BlockManifest)
		if out.ProtoDecode(p) == nil {
			vReach("accepted")
			for _, h := range *out {
				_ = h
			}
			_ = out.Len()
		}
	case 5:
		vFact("message", "SpentUtxoEntry")
		s := &SpentUtxoEntry{OutPoint: OutPoint{TxHash: common.Hash{3}, Index: 1}, UtxoEntry: &UtxoEntry{Denomination: 3, Address: make([]byte, 20), Lock: big.NewInt(5)}}
		p, err := s.ProtoEncode()
		vAssume(err == nil)
		vProtoFault(p, vLen("faultSite", vProtoFaultSites(p)-1))
		out := new(SpentUtxoEntry)
		if out.ProtoDecode(p) == nil {
			vReach("accepted")
			// what the reorg rollback does with an undo record (SetCurrentHeader: CreateUTXO(entry), address index)
			_ = out.OutPoint.TxHash
			_ = out.UtxoEntry.Denomination
			if out.UtxoEntry.Lock != nil {
				_ = out.UtxoEntry.Lock.Sign()
			}
			_ = [20]byte(out.UtxoEntry.Address)
		}
	case 6:
		vFact("message", "OutpointAndDenomination")
		o := OutpointAndDenomination{TxHash: common.Hash{3}, Index: 1, Denomination: 2, Lock: big.NewInt(1)}
		p, err := o.ProtoEncode()
		vAssume(err == nil)
		vProtoFault(p, vLen("faultSite", vProtoFaultSites(p)-1))
		out := new(OutpointAndDenomination)
		if out.ProtoDecode(p) == nil {
			vReach("accepted")
			_ = out.Lock.Sign()
			_ = out.Denomination
		}
	default:
		vFact("message", "ReceiptsForStorage")
		r := &ReceiptForStorage{Status: 1, CumulativeGasUsed: 5, GasUsed: 5, TxHash: common.Hash{7},
			Logs: []*Log{{Address: common.Bytes20ToAddress([20]byte{}, vLocT), Topics: []common.Hash{{1}}, Data: []byte{1, 2}}}, OutboundEtxs: Transactions{c15SmallEtx(3)}}
		rs := ReceiptsForStorage{r}
		p, err := rs.ProtoEncode()
		vAssume(err == nil)
		vProtoFault(p, vLen("faultSite", vProtoFaultSites(p)-1))
		out := new(ReceiptsForStorage)
		if out.ProtoDecode(p, vLocT) == nil {
			vReach("accepted")
			for _, rr := range *out {
				_ = rr.Status
				for _, l := range rr.Logs {
					_ = len(l.Topics) + len(l.Data)
					_ = l.Address.Bytes()
				}
				c15UseEtxs(rr.OutboundEtxs)
			}
		}
	}
	vReach("decoded")
}

func c15UsePEtxHeader(h *WorkObject) {
	if h == nil {
		return
	}
	if h.WorkObjectHeader() != nil {
		_ = h.WorkObjectHeader().NumberU64()
		_ = h.WorkObjectHeader().Location()
	}
	_ = h.Hash()
	_ = h.NumberU64(common.ZONE_CTX)
	_ = h.Location()
}

func c15UseEtxs(txs Transactions) {
	for _, tx := range txs {
		_ = tx.Type()
		if tx.To() != nil {
			_ = tx.To().Location()
		}
		_ = tx.Hash()
		_ = tx.Value().Sign()
	}
}
