//go:build verif

package types

import (
	"math/big"

	"github.com/dominant-strategies/go-quai/common"
)

// concrete well-formed parts: the subject is the structure of the message (which the fault sites
// damage), field values are covered by H-C15-a1..a3
func c15SmallEtx(id byte) *Transaction {
	to := common.BytesToAddress(append([]byte{0x01, 0x00}, append(make([]byte, 17), id)...), common.Location{0, 1})
	var origin common.Hash
	origin[31] = id
	return NewTx(&ExternalTx{Value: big.NewInt(5), To: &to, Sender: to, OriginatingTxHash: origin, ETXIndex: uint16(id), Gas: 21000, Data: []byte{id}})
}

func c15WoHeader(id byte) *WorkObjectHeader {
	var cb [20]byte
	cb[19] = id
	var h common.Hash
	h[31] = id
	return &WorkObjectHeader{
		headerHash: h, parentHash: h, txHash: h,
		number: big.NewInt(int64(id)), difficulty: big.NewInt(1000), primeTerminusNumber: big.NewInt(7),
		primaryCoinbase: common.Bytes20ToAddress(cb, vLocT), location: common.Location{0, 0},
		mixHash: h, time: 1700000000, nonce: EncodeNonce(uint64(id)),
		data: []byte{0}, lock: 0,
		scryptDiffAndCount: NewPowShareDiffAndCount(big.NewInt(1), big.NewInt(2), big.NewInt(3)),
		shaDiffAndCount:    NewPowShareDiffAndCount(big.NewInt(1), big.NewInt(2), big.NewInt(3)),
		shaShareTarget:     big.NewInt(9), scryptShareTarget: big.NewInt(9), kawpowDifficulty: big.NewInt(9),
	}
}

func c15Header() *Header {
	h := EmptyHeader()
	for i := 0; i < common.HierarchyDepth; i++ {
		h.parentEntropy[i], h.parentDeltaEntropy[i], h.parentUncledDeltaEntropy[i] = big.NewInt(1), big.NewInt(2), big.NewInt(3)
	}
	h.number[0], h.number[1] = big.NewInt(4), big.NewInt(5)
	h.gasLimit, h.gasUsed, h.stateLimit, h.stateUsed = 1000, 10, 1000, 10
	h.baseFee, h.uncledEntropy = big.NewInt(1), big.NewInt(1)
	h.extra = []byte{1}
	return h
}

// H-C15-a4: WorkObject.ProtoDecode (the block as it arrives from peers; views BlockObject,
// HeaderObject, WorkShareObject and PEtxObject) never panics under single-site damage of a
// well-formed encoding (work-object header, body header, one transaction, one outbound ETX, one
// uncle, one manifest entry, one interlink hash), and what block validation calls next on an
// accepted object (numbers, location, lists, lock byte, coinbase, data) does not panic either.
//
// verif:bounds split=1024 paths=400000
func VerifH_C15_a4() {
	wo := &WorkObject{woHeader: c15WoHeader(1), woBody: &WorkObjectBody{}}
	wo.woBody.header = c15Header()
	wo.woBody.transactions = Transactions{c15SmallEtx(1)}
	wo.woBody.outboundEtxs = Transactions{c15SmallEtx(2)}
	wo.woBody.uncles = []*WorkObjectHeader{c15WoHeader(2)}
	wo.woBody.manifest = BlockManifest{common.Hash{1}}
	wo.woBody.interlinkHashes = common.Hashes{common.Hash{2}}
	views := []WorkObjectView{BlockObject, HeaderObject, WorkShareObject, PEtxObject}
	view := views[vLen("view", len(views)-1)]
	p, err := wo.ProtoEncode(view)
	vAssume(err == nil)
	n := vProtoFaultSites(p)
	k := vLen("faultSite", n-1)
	vProtoFault(p, k)
	out := new(WorkObject)
	derr := out.ProtoDecode(p, vLocT, view)
	vReach("decoded")
	if derr != nil {
		return
	}
	vReach("accepted")
	if out.WorkObjectHeader() != nil {
		_ = out.WorkObjectHeader().NumberU64()
		_ = out.WorkObjectHeader().Location()
		_ = out.WorkObjectHeader().Lock()
		_ = out.WorkObjectHeader().PrimaryCoinbase().IsInQiLedgerScope()
		_ = len(out.WorkObjectHeader().Data())
		_ = out.WorkObjectHeader().PrimeTerminusNumber().Uint64()
	}
	if out.Body() != nil {
		if h := out.Body().Header(); h != nil {
			_ = h.NumberU64(common.PRIME_CTX)
			_ = h.GasLimit()
		}
		for _, tx := range out.Body().Transactions() {
			_ = tx.Type()
		}
		for _, tx := range out.Body().OutboundEtxs() {
			_ = tx.Type()
		}
		for _, u := range out.Body().Uncles() {
			_ = u.NumberU64()
			_ = u.Location()
		}
		_ = len(out.Body().Manifest())
		_ = len(out.Body().InterlinkHashes())
	}
}

