//go:build verif

package types

import (
	"bytes"

	"github.com/dominant-strategies/go-quai/common"
)

type modelList struct{ n int }

func (l modelList) Len() int { return l.n }
func (l modelList) EncodeIndex(i int, w *bytes.Buffer) {
	w.Write([]byte{0xA0, byte(i >> 8), byte(i)})
}

type recordingHasher struct {
	keys [][]byte
	vals [][]byte
}

func (h *recordingHasher) Reset() { h.keys, h.vals = nil, nil }
func (h *recordingHasher) Update(k, v []byte) {
	h.keys = append(h.keys, append([]byte{}, k...))
	h.vals = append(h.vals, append([]byte{}, v...))
}
func (h *recordingHasher) Hash() common.Hash { return common.Hash{} }

// H-C18-c: DeriveSha (the streaming root of transaction / receipt / ETX lists) feeds every element of
// the list to the hasher exactly once, under the RLP of its index, with its own encoding, in strictly
// increasing key order (the order the stack trie requires) — for every list length 0..300 (the
// index encoding changes width at 128 and 256).
//
// verif:bounds split=512
func VerifH_C18_c() {
	n := vLen("listLength", 300)
	h := &recordingHasher{}
	DeriveSha(modelList{n}, h)
	vReach("derived")
	vAssert("derive/every-element-once", len(h.keys) == n)
	seen := make([]bool, n)
	for j := range h.keys {
		// canonical RLP of an unsigned integer, decoded by hand (the library decoder is reflection-based)
		k := h.keys[j]
		var idx uint64
		switch {
		case len(k) == 1 && k[0] == 0x80:
			idx = 0
		case len(k) == 1 && k[0] >= 1 && k[0] < 0x80:
			idx = uint64(k[0])
		case len(k) == 2 && k[0] == 0x81 && k[1] >= 0x80:
			idx = uint64(k[1])
		case len(k) == 3 && k[0] == 0x82 && k[1] != 0:
			idx = uint64(k[1])<<8 | uint64(k[2])
		default:
			vAssert("derive/key-is-rlp-index", false)
			return
		}
		vAssert("derive/index-in-range", int(idx) < n)
		if int(idx) >= n {
			return
		}
		vAssert("derive/no-duplicate", !seen[idx])
		seen[idx] = true
		vAssert("derive/value-is-element-encoding", len(h.vals[j]) == 3 && h.vals[j][1] == byte(idx>>8) && h.vals[j][2] == byte(idx))
		if j > 0 {
			vAssert("derive/keys-strictly-increasing", bytes.Compare(h.keys[j-1], h.keys[j]) < 0)
		}
	}
}
