//go:build verif

package types

import (
	"github.com/dominant-strategies/go-quai/common"
)

var vNodeLocT = common.Location{0, 0}

func vEtxTo(tag string) *Transaction {
	var b [20]byte
	b[0], b[1] = vU8(tag+"ToZoneByte"), vU8(tag+"ToLedgerByte")
	to := common.Bytes20ToAddress(b, vNodeLocT)
	return NewTx(&ExternalTx{To: &to, Sender: to, EtxType: uint64(vU8(tag + "EtxType")), Gas: 21000})
}

// H-C04-b: FilterToSub routes each ETX of a dominant-chain rollup to exactly the right sub-chain:
// for every list of <= 2 ETXs (arbitrary destination zone/ledger bytes and ETX type) and every
// (node context, block order, target slice): the result is exactly the input ETXs, in input order,
// that satisfy the routing rule — prime node: destination region == slice region; region node on a
// prime-order block: destination == slice; region node on a region-order block: destination ==
// slice and the ETX is a standard one (coinbase and conversion ETXs only travel through prime).
// Hence nothing is delivered to a foreign zone, lists for different sub-slices are disjoint, and
// dominant-chain order is preserved.
func VerifH_C04_b() {
	n := vLen("nEtx", 2)
	in := make(Transactions, n)
	tags := []string{"e0", "e1"}
	for i := 0; i < n; i++ {
		in[i] = vEtxTo(tags[i])
	}
	r, z := vU8("sliceRegion"), vU8("sliceZone")
	vAssume(r < 16 && z < 16)
	var nodeCtx, order int
	var slice common.Location
	switch vLen("case", 2) {
	case 0:
		vFact("node", "prime")
		nodeCtx, order, slice = common.PRIME_CTX, common.PRIME_CTX, common.Location{r}
	case 1:
		vFact("node", "region/prime-order-block")
		nodeCtx, order, slice = common.REGION_CTX, common.PRIME_CTX, common.Location{r, z}
	default:
		vFact("node", "region/region-order-block")
		nodeCtx, order, slice = common.REGION_CTX, common.REGION_CTX, common.Location{r, z}
	}
	out := in.FilterToSub(slice, nodeCtx, order)
	vReach("filtered")
	j := 0
	for i := 0; i < n; i++ {
		toLoc := in[i].To().Location()
		var want bool
		switch {
		case nodeCtx == common.PRIME_CTX:
			want = toLoc.Region() == int(r)
		case order == common.PRIME_CTX:
			want = toLoc.Equal(slice)
		default:
			et := in[i].EtxType()
			want = toLoc.Equal(slice) && et != CoinbaseType && et != ConversionType
		}
		if want {
			vAssert("route/delivered-in-order", j < len(out) && out[j] == in[i])
			j++
		}
	}
	vAssert("route/nothing-else-delivered", j == len(out))
}
