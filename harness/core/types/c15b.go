//go:build verif

package types

import (
	"github.com/dominant-strategies/go-quai/common"
)

// a well-formed merged-mining coinbase transaction around the script produced by the real builder
func c15Coinbase(script []byte) []byte {
	tx := []byte{1, 0, 0, 0, 1}
	tx = append(tx, make([]byte, 32)...)
	tx = append(tx, 0xff, 0xff, 0xff, 0xff)
	tx = append(tx, byte(len(script)))
	tx = append(tx, script...)
	tx = append(tx, 0xff, 0xff, 0xff, 0xff)
	// one output: value(8) | script length 1 | script | locktime(4)
	tx = append(tx, 1, 0x10, 0, 0, 0, 0, 0, 0, 0, 1, 0x51, 0, 0, 0, 0)
	return tx
}

func vSealRoot(tag string) common.Hash {
	var h common.Hash
	h[0], h[15], h[31] = vU8(tag+"First"), vU8(tag+"Mid"), vU8(tag+"Last")
	return h
}

// H-C08-d: what the miner commits in the merged-mining coinbase is what the verifier reads back.
// For every height, extra nonces, committed root (seal hash / aux merkle root; three arbitrary
// bytes), merkle size and signature time: the script built by BuildCoinbaseScriptSigWithNonce,
// embedded in a coinbase transaction, is found by ExtractScriptSigFromCoinbaseTx, and
// ExtractSealHashFromCoinbase, ExtractMerkleSizeAndNonceFromCoinbase,
// ExtractSignatureTimeFromCoinbase, ExtractHeightFromCoinbase return exactly the committed root,
// size, nonce 0, time and height; the transaction passes
// ValidatePrevOutPointIndexAndSequenceOfCoinbase. (So a header whose seal hash differs from the
// committed one is rejected by the equality test in verifyHeader / VerifyUncles.)
//
// verif:bounds split=128
func VerifH_C08_d() {
	height := vU32("height")
	root := vSealRoot("committedRoot")
	size, sigTime := vU32("merkleSize"), vU32("signatureTime")
	script := BuildCoinbaseScriptSigWithNonce(height, vU32("extraNonce1"), vU64("extraNonce2"), root, size, sigTime)
	tx := c15Coinbase(script)
	got := ExtractScriptSigFromCoinbaseTx(tx)
	vReach("built")
	vAssert("coinbase/script-found", string(got) == string(script))
	h, err := ExtractSealHashFromCoinbase(got)
	vAssert("coinbase/seal-hash-read-back", err == nil && h == root)
	ms, mn, err := ExtractMerkleSizeAndNonceFromCoinbase(got)
	vAssert("coinbase/merkle-size-and-nonce-read-back", err == nil && ms == size && mn == 0)
	st, err := ExtractSignatureTimeFromCoinbase(got)
	vAssert("coinbase/signature-time-read-back", err == nil && st == sigTime)
	hh, err := ExtractHeightFromCoinbase(got)
	vAssert("coinbase/height-read-back", err == nil && hh == height)
	vAssert("coinbase/shape-valid", ValidatePrevOutPointIndexAndSequenceOfCoinbase(tx) == nil)
	out := ExtractCoinbaseOutFromCoinbaseTx(tx)
	vAssert("coinbase/outputs-found", len(out) == 15 && out[0] == 1)
}

func c15RunParsers(tx []byte) {
	s := ExtractScriptSigFromCoinbaseTx(tx)
	ExtractCoinbaseOutFromCoinbaseTx(tx)
	ValidatePrevOutPointIndexAndSequenceOfCoinbase(tx)
	ExtractSealHashFromCoinbase(s)
	ExtractMerkleSizeAndNonceFromCoinbase(s)
	ExtractSignatureTimeFromCoinbase(s)
	ExtractHeightFromCoinbase(s)
}

// H-C15-b: the merged-mining coinbase parsers never panic on damaged input. A well-formed coinbase
// transaction (script from the real builder, arbitrary field values, height < 2^16) is truncated at
// an arbitrary length, or has one byte at an arbitrary position replaced by an arbitrary value
// (length prefixes, push opcodes, varints included); all seven parsers are then run as
// verifyHeader / VerifyUncles run them: each returns a value or an error.
//
// verif:bounds split=300 decisions=400 paths=200000
func VerifH_C15_b() {
	script := BuildCoinbaseScriptSigWithNonce(uint32(vU16("height")), vU32("extraNonce1"), vU64("extraNonce2"), vSealRoot("root"), vU32("merkleSize"), vU32("signatureTime"))
	tx := c15Coinbase(script)
	if vBool("truncate") {
		k := vLen("keptLength", len(tx))
		tx = tx[:k]
	} else {
		p := vLen("damagedPosition", len(tx)-1)
		tx = append([]byte{}, tx...)
		tx[p] = vU8("damagedByte")
	}
	vReach("damaged")
	c15RunParsers(tx)
	vReach("parsed")
}
