//go:build verif

package types

import (
	"github.com/btcsuite/btcd/chaincfg/chainhash"
)

// btcd computes sha256d(left || right) through a streaming hasher; the model is the same value through the
// one-shot function (sha256 is an uninterpreted collision-free function in the engine).
func stubBtcHashMerkleBranches(left, right *chainhash.Hash) chainhash.Hash {
	var buf [64]byte
	copy(buf[:32], left[:])
	copy(buf[32:], right[:])
	return chainhash.DoubleHashH(buf[:])
}

// H-C08-f: the donor header's merkle root binds the coinbase (and through it the seal hash the coinbase
// commits to). CalculateMerkleRoot — the only link between a merged-mined header's proof of work and the
// coinbase that names this block — is executed for every donor kind on two coinbase transactions and one
// branch of 0..2 siblings whose lengths are arbitrary in 31..33 bytes (the wire decoder keeps sibling
// lengths as sent): with sha256 collision-free, two different coinbases never lead to the same root, and the
// root is never a value that does not depend on the coinbase (e.g. a constant returned for a malformed
// branch, which a donor header mined once with that constant as merkle root would match for every coinbase).
//
// verif:stub github.com/btcsuite/btcd/blockchain.HashMerkleBranches => stubBtcHashMerkleBranches
func VerifH_C08_f() {
	powID := PowID(vU8("powID"))
	vAssume(powID == Kawpow || powID == SHA_BTC || powID == SHA_BCH || powID == Scrypt)
	tx1 := []byte{0x01, vU8("coinbase1a"), vU8("coinbase1b")}
	tx2 := []byte{0x01, vU8("coinbase2a"), vU8("coinbase2b")}
	vAssume(tx1[1] != tx2[1] || tx1[2] != tx2[2])
	n := vLen("siblings", 2)
	var branch [][]byte
	for i := 0; i < n; i++ {
		sib := make([]byte, 31+vLen([]string{"sibling0LenMinus31", "sibling1LenMinus31"}[i], 2))
		sib[0], sib[30] = vU8([]string{"sibling0a", "sibling1a"}[i]), vU8([]string{"sibling0b", "sibling1b"}[i])
		branch = append(branch, sib)
	}
	r1 := CalculateMerkleRoot(powID, tx1, branch)
	r2 := CalculateMerkleRoot(powID, tx2, branch)
	vReach("computed")
	vAssert("merkle/root-binds-the-coinbase", r1 != r2)
	if n == 0 {
		vAssert("merkle/empty-branch-root-is-the-coinbase-id", r1 == [32]byte(AuxPowTxHash(powID, tx1)))
	}
}
