//go:build verif

package types

import (
	"math/big"

	"github.com/dominant-strategies/go-quai/common"
	"github.com/dominant-strategies/go-quai/crypto"
)

func stubC04TxHash(tx *Transaction, location ...byte) common.Hash {
	h := tx.OriginatingTxHash()
	h[5] = byte(tx.ETXIndex())
	return h
}

// the root of a list is a collision-free function of the sequence of its elements (H-C18-c)
func stubC04DeriveSha(list DerivableList, hasher TrieHasher) common.Hash {
	var buf []byte
	if txs, ok := list.(Transactions); ok {
		for _, tx := range txs {
			buf = append(buf, tx.Hash().Bytes()...)
		}
	}
	return crypto.Keccak256Hash(buf)
}

func c04IdEtx(tag string) *Transaction {
	var origin common.Hash
	origin[0], origin[31] = 0xE7, vU8(tag)
	to := common.BytesToAddress(append([]byte{0x01, 0x00}, make([]byte, 18)...), common.Location{0, 1})
	return NewTx(&ExternalTx{Value: big.NewInt(1), To: &to, Sender: to, OriginatingTxHash: origin, ETXIndex: uint16(vU8(tag + "Index")), Gas: 21000})
}

// H-C04-d: the outbound ETX set a zone hands to its dominant chains is accepted only if it is exactly
// the set the zone block's header commits to. The header commits to a list of 0..2 ETXs of arbitrary
// identity; PendingEtxs.IsValid is asked about: that list; an empty non-nil list; a nil list; the
// list with one ETX altered; the list with the last ETX dropped; the list with one ETX added. It
// answers true exactly when the offered list is non-nil and equals the committed list.
//
// verif:stub core/types.DeriveSha => stubC04DeriveSha
// verif:stub (*core/types.Transaction).Hash => stubC04TxHash
func VerifH_C04_d() {
	n := vLen("committed", 2)
	committed := make(Transactions, n)
	for i := range committed {
		committed[i] = c04IdEtx("etx" + string(rune('A'+i)))
	}
	wo := EmptyWorkObject(common.ZONE_CTX)
	wo.Header().SetOutboundEtxHash(stubC04DeriveSha(committed, nil))
	offered := append(Transactions{}, committed...)
	same := true
	switch vLen("offer", 5) {
	case 0:
		vFact("offered", "the-committed-list")
	case 1:
		vFact("offered", "empty-non-nil-list")
		offered = Transactions{}
		same = n == 0
	case 2:
		vFact("offered", "nil-list")
		offered = nil
		same = false
	case 3:
		vFact("offered", "one-etx-altered")
		vAssume(n >= 1)
		k := vLen("which", n-1)
		alt := c04IdEtx("altered")
		vAssume(stubC04TxHash(alt) != stubC04TxHash(offered[k]))
		offered[k] = alt
		same = false
	case 4:
		vFact("offered", "last-etx-dropped")
		vAssume(n >= 1)
		offered = offered[:n-1]
		same = false
	default:
		vFact("offered", "one-etx-added")
		offered = append(offered, c04IdEtx("added"))
		same = false
	}
	p := &PendingEtxs{Header: wo, OutboundEtxs: offered}
	ok := p.IsValid(nil)
	vReach("asked")
	vAssert("pending-etxs/valid-iff-exactly-the-committed-set", ok == same)
	vAssert("pending-etxs/nil-receiver-or-header-invalid", !(*PendingEtxs)(nil).IsValid(nil) && !(&PendingEtxs{OutboundEtxs: offered}).IsValid(nil))
}
