//go:build verif

package types

import (
	"crypto/ecdsa"
	"errors"
	"math/big"

	"github.com/dominant-strategies/go-quai/common"
)

var vLocT = common.Location{0, 0}

func vTinyBig(tag string) *big.Int { return vByteBig(tag) }

// vHeader: a body header with every list the right length and arbitrary one-byte numbers.
func vHeader() *Header {
	h := EmptyHeader()
	for i := 0; i < common.HierarchyDepth; i++ {
		h.parentEntropy[i], h.parentDeltaEntropy[i], h.parentUncledDeltaEntropy[i] = vTinyBig("pe"), vTinyBig("pde"), vTinyBig("pude")
	}
	h.number[0], h.number[1] = vTinyBig("numPrime"), vTinyBig("numRegion")
	h.gasLimit, h.gasUsed, h.stateLimit, h.stateUsed = vU64("gasLimit"), vU64("gasUsed"), vU64("stateLimit"), vU64("stateUsed")
	h.baseFee, h.uncledEntropy = vTinyBig("baseFee"), vTinyBig("uncledEntropy")
	h.efficiencyScore, h.thresholdCount, h.expansionNumber = vU16("efficiencyScore"), vU16("thresholdCount"), vU8("expansionNumber")
	h.extra = vBytes("extra", 1)
	return h
}

func decodeMustNotPanic(what string, f func() error) {
	err := f()
	if err != nil {
		vReach(what + "/rejected")
	} else {
		vReach(what + "/accepted")
	}
}

// H-C15-a1: Header.ProtoDecode returns a value or an error, never panics, for every message that
// differs from a well-formed header encoding in one site: any optional or message field missing, any
// bytes field emptied / one byte short / one byte long, any repeated field one element short / long
// / empty, or one of its elements missing (sites enumerated from the message type, so new fields
// are covered automatically). An escaping panic is the violation (label no-panic).
//
// verif:bounds split=512
func VerifH_C15_a1() {
	h := vHeader()
	p, err := h.ProtoEncode()
	vAssume(err == nil)
	n := vProtoFaultSites(p)
	k := vLen("faultSite", n-1)
	vProtoFault(p, k)
	out := new(Header)
	derr := out.ProtoDecode(p, vLocT)
	vReach("decoded")
	if derr == nil {
		// what the validation path calls next on an accepted header
		_ = out.NumberU64(common.PRIME_CTX)
		_ = out.ParentEntropy(common.ZONE_CTX)
		_ = out.ManifestHash(common.ZONE_CTX)
		_ = out.ParentHash(common.REGION_CTX)
	}
}

func vWoHeaderSmall() *WorkObjectHeader {
	var cb [20]byte
	cb[0], cb[1] = vU8("cbZone"), vU8("cbLedger")
	return &WorkObjectHeader{
		headerHash: vHash32("headerHash"), parentHash: vHash32("parentHash"), txHash: vHash32("txHash"),
		number: vTinyBig("number"), difficulty: vTinyBig("difficulty"), primeTerminusNumber: new(big.Int).SetUint64(uint64(vU32("ptn")) % (1 << 22)),
		primaryCoinbase: common.Bytes20ToAddress(cb, vLocT), location: common.Location{0, 0},
		mixHash: vHash32("mixHash"), time: vU64("time"), nonce: EncodeNonce(vU64("nonce")),
		data: vBytes("data", 1), lock: vU8("lock"),
		scryptDiffAndCount: NewPowShareDiffAndCount(vTinyBig("sd"), vTinyBig("sc"), vTinyBig("su")),
		shaDiffAndCount:    NewPowShareDiffAndCount(vTinyBig("hd"), vTinyBig("hc"), vTinyBig("hu")),
		shaShareTarget:     vTinyBig("shaTarget"), scryptShareTarget: vTinyBig("scryptTarget"), kawpowDifficulty: vTinyBig("kawpowDifficulty"),
	}
}

// H-C15-a2: WorkObjectHeader.ProtoDecode never panics under single-site damage (as H-C15-a1), and a header
// it accepts after the KawPow fork carries every share-difficulty value that header, uncle and work-share
// validation dereference without a nil check (the decoder is their only guard).
//
// verif:bounds split=512
func VerifH_C15_a2() {
	wh := vWoHeaderSmall()
	p, err := wh.ProtoEncode()
	vAssume(err == nil)
	n := vProtoFaultSites(p)
	k := vLen("faultSite", n-1)
	vProtoFault(p, k)
	out := new(WorkObjectHeader)
	derr := out.ProtoDecode(p, vLocT)
	vReach("decoded")
	if derr == nil {
		_ = out.NumberU64()
		_ = out.Location()
		if out.KawpowActivationHappened() {
			// what header / uncle / work-share validation dereferences on every accepted post-fork header
			// (verifyHeader, VerifyUncles, CalculateKawpowShareDiff, the gossip validator)
			vReach("decoded/post-fork")
			sd, sc := out.ShaDiffAndCount(), out.ScryptDiffAndCount()
			vAssert("decoder/post-fork-share-fields-complete", sd != nil && sc != nil && sd.Difficulty() != nil && sd.Count() != nil && sd.Uncled() != nil &&
				sc.Difficulty() != nil && sc.Count() != nil && sc.Uncled() != nil &&
				out.ShaShareTarget() != nil && out.ScryptShareTarget() != nil && out.KawpowDifficulty() != nil)
			_ = sd.Difficulty().Cmp(sc.Difficulty()) + sd.Count().Cmp(sc.Count()) + sd.Uncled().Cmp(sc.Uncled())
			_ = out.ShaShareTarget().Cmp(out.ScryptShareTarget()) + out.KawpowDifficulty().Sign()
		}
	}
}

func vTxForCodec() *Transaction {
	to := common.BytesToAddress(append([]byte{vU8("toZone"), vU8("toLedger")}, make([]byte, 18)...), vLocT)
	al := AccessList{
		{Address: to, StorageKeys: []common.Hash{vHash32("k0"), vHash32("k1")}},
		{Address: to, StorageKeys: []common.Hash{vHash32("k2")}},
	}
	switch vLen("txKind", 2) {
	case 0:
		vFact("tx", "quai")
		return NewTx(&QuaiTx{ChainID: vTinyBig("chainId"), Nonce: vU64("nonce"), GasPrice: vTinyBig("gasPrice"), Gas: vU64("gas"), To: &to,
			Value: vTinyBig("value"), Data: vBytes("data", 1), AccessList: al, V: new(big.Int).SetUint64(uint64(vU8("V") % 2)), R: vTinyBig("R"), S: vTinyBig("S")})
	case 1:
		vFact("tx", "external")
		return NewTx(&ExternalTx{OriginatingTxHash: vHash32("origin"), ETXIndex: vU16("etxIndex"), Gas: vU64("gas"), To: &to, Value: vTinyBig("value"),
			Data: vBytes("data", 1), AccessList: al, Sender: to, EtxType: uint64(vU8("etxType"))})
	default:
		vFact("tx", "qi")
		in := TxIns{{PreviousOutPoint: OutPoint{TxHash: vHash32("prev"), Index: vU16("prevIndex")}, PubKey: vBytes("pub", 33)}}
		out := TxOuts{{Denomination: vU8("den0"), Address: vBytes("addr0", 20), Lock: vTinyBig("lock0")}, {Denomination: vU8("den1"), Address: vBytes("addr1", 20), Lock: new(big.Int)}}
		return NewTx(&QiTx{ChainID: vTinyBig("chainId"), TxIn: in, TxOut: out, Data: vBytes("data", 1)})
	}
}

// secp256k1 point decompression (cgo) either fails or yields a key whose 65-byte encoding is arbitrary.
func stubDecompressPubkey(pubkey []byte) (*ecdsa.PublicKey, error) {
	if vBool("pubkeyNotOnCurve") {
		return nil, errPubkey
	}
	return &ecdsa.PublicKey{}, nil
}
func stubFromECDSAPub(pub *ecdsa.PublicKey) []byte {
	return append([]byte{4}, vBytes("uncompressed", 64)...)
}

var errPubkey = errors.New("invalid public key")

// H-C15-a3: Transaction.ProtoDecode (Quai, external, Qi) never panics under single-site damage, and
// what consumers call next on an accepted transaction does not panic either.
//
// verif:stub crypto.Ecrecover => stubEcrecover
// verif:stub crypto.DecompressPubkey => stubDecompressPubkey
// verif:stub crypto.FromECDSAPub => stubFromECDSAPub
// verif:bounds paths=400000 split=512
func VerifH_C15_a3() {
	tx := vTxForCodec()
	p, err := tx.ProtoEncode()
	vAssume(err == nil)
	n := vProtoFaultSites(p)
	k := vLen("faultSite", n-1)
	vProtoFault(p, k)
	out := new(Transaction)
	derr := out.ProtoDecode(p, vLocT)
	vReach("decoded")
	if derr == nil {
		_ = out.Type()
		_ = out.Data()
		if out.Type() != QiTxType {
			_ = out.To()
			_ = out.Value()
		}
		if out.Type() == QiTxType {
			for _, o := range out.TxOut() {
				_ = common.BytesToAddress(o.Address, vLocT)
			}
			_ = CalculateBlockQiTxGas(out, 1.0, vLocT)
		}
	}
}
