//go:build verif

package core

import (
	"math/big"

	"github.com/dominant-strategies/go-quai/common"
	"github.com/dominant-strategies/go-quai/core/types"
	"github.com/dominant-strategies/go-quai/ethdb"
	"github.com/dominant-strategies/go-quai/params"
)

type createdUtxo struct {
	hash  common.Hash
	index uint16
	entry *types.UtxoEntry
}

var c04Created []createdUtxo

func stubC04CreateUTXO(db ethdb.KeyValueWriter, txHash common.Hash, index uint16, utxo *types.UtxoEntry) error {
	c04Created = append(c04Created, createdUtxo{txHash, index, utxo})
	return nil
}

// inbound ETX of a given kind, addressed to this zone
func c04Etx(i int, kind int, tag string) *types.Transaction {
	qiTo := common.BytesToAddress(append([]byte{0x00, 0x80}, append(make([]byte, 17), byte(0x10+i))...), qiLoc)
	quaiTo := common.BytesToAddress(append([]byte{0x00, 0x00}, append(make([]byte, 17), byte(0x20+i))...), qiLoc)
	otherZoneQi := common.BytesToAddress(append([]byte{0x01, 0x80}, append(make([]byte, 17), byte(0x30+i))...), common.Location{0, 1})
	thisZoneQuai := common.BytesToAddress(append([]byte{0x00, 0x00}, append(make([]byte, 17), byte(0x40+i))...), qiLoc)
	var origin common.Hash
	origin[0], origin[31] = 0xE7, byte(i)
	switch kind {
	case 0: // Qi transfer from another zone: value is a denomination
		return types.NewTx(&types.ExternalTx{Value: big.NewInt(int64(vU8(tag+"Denomination") % 15)), To: &qiTo, Sender: otherZoneQi, EtxType: types.DefaultType, OriginatingTxHash: origin, ETXIndex: uint16(i), Gas: 21000})
	case 1: // Quai coinbase, plain (lockup byte + 32 bytes)
		lb := vU8(tag+"LockupByte") % 4
		return types.NewTx(&types.ExternalTx{Value: vBigN(tag+"Reward", 64), To: &quaiTo, Sender: quaiTo, EtxType: types.CoinbaseType, OriginatingTxHash: origin, ETXIndex: uint16(i), Gas: 21000, Data: append([]byte{lb}, make([]byte, 32)...)})
	case 2: // Qi->Quai conversion arriving at its Quai beneficiary
		return types.NewTx(&types.ExternalTx{Value: vBigN(tag+"Converted", 64), To: &quaiTo, Sender: common.ZeroAddress(qiLoc), EtxType: types.ConversionType, OriginatingTxHash: origin, ETXIndex: uint16(i), Gas: uint64(vU32(tag + "Gas"))})
	case 3: // Qi coinbase
		lb := vU8(tag+"LockupByte") % 4
		rw := vBigN(tag+"Reward", 8)
		vAssume(rw.Cmp(big.NewInt(30)) < 0)
		return types.NewTx(&types.ExternalTx{Value: rw, To: &qiTo, Sender: qiTo, EtxType: types.CoinbaseType, OriginatingTxHash: origin, ETXIndex: uint16(i), Gas: 21000, Data: append([]byte{lb}, make([]byte, 32)...)})
	case 5: // refused Quai->Qi conversion coming back: the Quai is credited back to its sender
		return types.NewTx(&types.ExternalTx{Value: vBigN(tag+"Refund", 64), To: &qiTo, Sender: thisZoneQuai, EtxType: types.ConversionRevertType, OriginatingTxHash: origin, ETXIndex: uint16(i), Gas: uint64(vU32(tag + "Gas"))})
	case 6: // refused Qi->Quai conversion coming back: the Qi is re-created for the refund address carried in the data
		v := vBigN(tag+"RefundQits", 16)
		vAssume(v.Cmp(big.NewInt(1000)) >= 0 && v.Cmp(big.NewInt(1030)) < 0)
		data := make([]byte, 22)
		copy(data[2:22], qiTo.Bytes())
		return types.NewTx(&types.ExternalTx{Value: v, To: &quaiTo, Sender: common.ZeroAddress(qiLoc), EtxType: types.ConversionRevertType, OriginatingTxHash: origin, ETXIndex: uint16(i), Gas: uint64(vU32(tag + "Gas")), Data: data})
	default: // Quai->Qi conversion (sender and beneficiary in this zone): value in qits, split into denominations
		v := vBigN(tag+"Qits", 8)
		vAssume(v.Cmp(big.NewInt(30)) < 0)
		return types.NewTx(&types.ExternalTx{Value: v, To: &qiTo, Sender: thisZoneQuai, EtxType: types.ConversionType, OriginatingTxHash: origin, ETXIndex: uint16(i), Gas: uint64(vU32(tag + "Gas"))})
	}
}

// H-C04-c: an inbound ETX is executed at its destination exactly once, with exactly its value, by the
// real StateProcessor.Process (shell of H-C07-p; zone, height 2, pre-TimeToStartTx regime, before and
// after the controller kick-in). The queue holds 1..2 ETXs of arbitrary kind (Qi transfer from
// another zone; plain Quai coinbase; Qi->Quai conversion; Qi coinbase; a refused conversion coming back in
// either direction; Quai->Qi conversion of < 30
// qits with arbitrary gas; a refused conversion coming back in either direction), the block carries all of them in order. Then: the block is accepted,
// every ETX was popped (queue empty) and has exactly one receipt; a Qi transfer creates exactly one
// output of its denomination at (originating hash, index) for its recipient, unlocked; a Quai->Qi
// conversion creates outputs under the ETX hash, all for its recipient, all locked for the
// conversion period, whose total never exceeds the ETX value and equals it when the receipt is not
// failed; a Qi coinbase before the controller kick-in creates nothing; coinbase and Qi->Quai
// conversion ETXs create no output and credit no balance now (they are redeemed at unlock, H-C13-a);
// block gas used is exactly the sum of the per-kind charges.
//
// verif:stub (*core.HeaderChain).GetBlock => stubHcGetBlock
// verif:stub (*core.HeaderChain).GetHeaderByHash => stubC07GetHeaderByHash
// verif:stub (*core.HeaderChain).NodeLocation => stubHcNodeLocationZone
// verif:stub (*core.HeaderChain).NodeCtx => stubHcNodeCtx
// verif:stub (*core.HeaderChain).IsGenesisHash => stubHcIsGenesisHash
// verif:stub (*core.HeaderChain).ComputeAverageTxFees => stubComputeAverageTxFees
// verif:stub (*core.HeaderChain).Finalize => stubHcFinalize
// verif:stub core/rawdb.ReadUTXOSetSize => stubReadUTXOSetSize
// verif:stub core/rawdb.ReadInboundEtxs => stubReadInboundEtxs
// verif:stub core/rawdb.CreateUTXO => stubC04CreateUTXO
// verif:stub core/rawdb.WriteSpentUTXOs => stubWriteSpentUTXOs
// verif:stub core/rawdb.WriteCreatedUTXOKeys => stubWriteCreatedUTXOKeys
// verif:stub core/rawdb.WriteCreatedCoinbaseLockupKeys => stubWriteCreatedCoinbaseLockupKeys
// verif:stub core/rawdb.WriteDeletedCoinbaseLockups => stubWriteDeletedCoinbaseLockups
// verif:stub core/types.UTXOHash => stubC07UTXOHash
// verif:stub core.NewEVMBlockContext => stubNewEVMBlockContext
// verif:stub core.RedeemLockedQuai => stubRedeemLockedQuai
// verif:stub consensus/misc.QiToQuai => stubQiToQuaiCore
// verif:stub (*core/state.StateDB).PushETXs => stubPushETXs
// verif:stub (*core/state.StateDB).PopETX => stubPopETX
// verif:stub (*core/state.StateDB).GetOldestIndex => stubGetOldestIndex
// verif:stub (*core/state.StateDB).ReadETX => stubReadETX
// verif:bounds decisions=600 paths=20000
func VerifH_C04_c() { c04Delivery(1) }

// H-C04-c2: as H-C04-c with two ETXs in the queue and the block (order, accumulation of gas, cursor
// of created outputs across ETXs).
//
// verif:tier thorough
// verif:stub (*core.HeaderChain).GetBlock => stubHcGetBlock
// verif:stub (*core.HeaderChain).GetHeaderByHash => stubC07GetHeaderByHash
// verif:stub (*core.HeaderChain).NodeLocation => stubHcNodeLocationZone
// verif:stub (*core.HeaderChain).NodeCtx => stubHcNodeCtx
// verif:stub (*core.HeaderChain).IsGenesisHash => stubHcIsGenesisHash
// verif:stub (*core.HeaderChain).ComputeAverageTxFees => stubComputeAverageTxFees
// verif:stub (*core.HeaderChain).Finalize => stubHcFinalize
// verif:stub core/rawdb.ReadUTXOSetSize => stubReadUTXOSetSize
// verif:stub core/rawdb.ReadInboundEtxs => stubReadInboundEtxs
// verif:stub core/rawdb.CreateUTXO => stubC04CreateUTXO
// verif:stub core/rawdb.WriteSpentUTXOs => stubWriteSpentUTXOs
// verif:stub core/rawdb.WriteCreatedUTXOKeys => stubWriteCreatedUTXOKeys
// verif:stub core/rawdb.WriteCreatedCoinbaseLockupKeys => stubWriteCreatedCoinbaseLockupKeys
// verif:stub core/rawdb.WriteDeletedCoinbaseLockups => stubWriteDeletedCoinbaseLockups
// verif:stub core/types.UTXOHash => stubC07UTXOHash
// verif:stub core.NewEVMBlockContext => stubNewEVMBlockContext
// verif:stub core.RedeemLockedQuai => stubRedeemLockedQuai
// verif:stub consensus/misc.QiToQuai => stubQiToQuaiCore
// verif:stub (*core/state.StateDB).PushETXs => stubPushETXs
// verif:stub (*core/state.StateDB).PopETX => stubPopETX
// verif:stub (*core/state.StateDB).GetOldestIndex => stubGetOldestIndex
// verif:stub (*core/state.StateDB).ReadETX => stubReadETX
// verif:bounds decisions=900 paths=400000 budget=40m
func VerifH_C04_c2() { c04Delivery(2) }

func c04Delivery(n int) {
	w := newC07World()
	c04Created = nil
	etxQueueBase = int64(vU16("oldestIndex"))
	kinds := make([]int, n)
	all := make([]*types.Transaction, n)
	for i := 0; i < n; i++ {
		tag := "etx" + string(rune('A'+i))
		if i == 0 {
			kinds[i] = vLen(tag+"Kind", 6)
		} else {
			kinds[i] = vLen(tag+"Kind", 3)
		}
		all[i] = c04Etx(i, kinds[i], tag)
	}
	etxQueueInitial = all
	c07AvgFees = big.NewInt(0)
	blk := w.block(append(types.Transactions{}, all...), big.NewInt(0), big.NewInt(0))
	afterKickIn := vBool("afterControllerKickIn")
	if afterKickIn {
		blk.WorkObjectHeader().SetPrimeTerminusNumber(new(big.Int).SetUint64(params.ControllerKickInBlock + 1))
	} else {
		blk.WorkObjectHeader().SetPrimeTerminusNumber(big.NewInt(1))
	}

	receipts, _, _, statedb, usedGas, _, _, _, _, err := w.p.Process(blk, c07Batch{})

	vReach("processed")
	vAssert("delivery/block-accepted", err == nil)
	if err != nil {
		return
	}
	vReach("accepted")
	vAssert("delivery/every-etx-popped", len(queueOf(statedb).items) == 0 && queueOf(statedb).oldest == etxQueueBase+int64(n))
	vAssert("delivery/one-receipt-each", len(receipts) == n)
	if len(receipts) != n {
		return
	}
	var gasSum uint64
	ci := 0 // cursor into c04Created: outputs are created in ETX order
	for i := 0; i < n; i++ {
		etx := all[i]
		r := receipts[i]
		vAssert("delivery/receipt-names-the-etx", r.TxHash == etx.Hash())
		switch kinds[i] {
		case 0:
			vAssert("qi-transfer/one-output", ci < len(c04Created))
			if ci >= len(c04Created) {
				return
			}
			c := c04Created[ci]
			ci++
			vAssert("qi-transfer/keyed-by-origin", c.hash == etx.OriginatingTxHash() && c.index == etx.ETXIndex())
			vAssert("qi-transfer/exact-denomination-recipient-unlocked", uint64(c.entry.Denomination) == etx.Value().Uint64() && string(c.entry.Address) == string(etx.To().Bytes()) && (c.entry.Lock == nil || c.entry.Lock.Sign() == 0))
			vAssert("qi-transfer/successful", r.Status == types.ReceiptStatusSuccessful)
			gasSum += params.CallValueTransferGas
		case 1:
			vAssert("coinbase/locked-not-paid-now", r.Status == types.ReceiptStatusLocked && r.GasUsed == 0)
			a, _ := etx.To().InternalAddress()
			vAssert("coinbase/no-balance-credited-now", statedb.GetBalance(a).Sign() == 0)
		case 2:
			vAssert("qi-to-quai/locked-not-paid-now", r.Status == types.ReceiptStatusLocked)
			a, _ := etx.To().InternalAddress()
			vAssert("qi-to-quai/no-balance-credited-now", statedb.GetBalance(a).Sign() == 0)
			gasSum += params.QiToQuaiConversionGas
		case 3:
			if !afterKickIn {
				vAssert("qi-coinbase/before-controller-nothing-created", r.Status == types.ReceiptStatusFailed)
			} else {
				// outputs under the ETX hash, locked at least the conversion period, total = lockup-adjusted reward
				total := new(big.Int)
				for ci < len(c04Created) && c04Created[ci].hash == etx.Hash() {
					c := c04Created[ci]
					ci++
					vAssert("qi-coinbase/recipient-and-lock", string(c.entry.Address) == string(etx.To().Bytes()) && c.entry.Lock != nil && c.entry.Lock.Uint64() >= 2+params.ConversionLockPeriod)
					total.Add(total, types.Denominations[c.entry.Denomination])
				}
				want := params.CalculateCoinbaseValueWithLockup(new(big.Int).Set(etx.Value()), etx.Data()[0], 2)
				vAssert("qi-coinbase/total-equals-adjusted-reward", total.Cmp(want) == 0)
			}
		case 5:
			// refund in Quai: exactly the ETX value is credited to the original sender, nothing is created
			vAssert("refund-quai/successful", r.Status == types.ReceiptStatusSuccessful)
			a, _ := etx.ETXSender().InternalAddress()
			vAssert("refund-quai/sender-credited-exactly", statedb.GetBalance(a).Cmp(etx.Value()) == 0)
			gasSum += params.QiToQuaiConversionGas
		case 6:
			// refund in Qi: outputs for the refund address, locked for the conversion period, never
			// more than the refunded amount
			total := new(big.Int)
			for ci < len(c04Created) && c04Created[ci].hash == etx.Hash() {
				c := c04Created[ci]
				ci++
				vAssert("refund-qi/recipient-and-lock", string(c.entry.Address) == string(etx.Data()[2:22]) && c.entry.Lock != nil && c.entry.Lock.Uint64() == 2+params.ConversionLockPeriod)
				total.Add(total, types.Denominations[c.entry.Denomination])
				gasSum += params.CallValueTransferGas
			}
			vAssert("refund-qi/never-more-than-refunded", total.Cmp(etx.Value()) <= 0)
			vAssert("refund-qi/receipt-gas-within-etx-gas", r.GasUsed <= etx.Gas())
		default:
			total := new(big.Int)
			k := uint16(0)
			for ci < len(c04Created) && c04Created[ci].hash == etx.Hash() {
				c := c04Created[ci]
				ci++
				vAssert("quai-to-qi/index-sequence", c.index == k)
				k++
				vAssert("quai-to-qi/recipient-and-lock", string(c.entry.Address) == string(etx.To().Bytes()) && c.entry.Lock != nil && c.entry.Lock.Uint64() == 2+params.ConversionLockPeriod)
				total.Add(total, types.Denominations[c.entry.Denomination])
			}
			if !afterKickIn {
				vAssert("quai-to-qi/before-controller-nothing-created", k == 0 && r.Status == types.ReceiptStatusFailed)
			} else {
				vAssert("quai-to-qi/never-more-than-value", total.Cmp(etx.Value()) <= 0)
				if r.Status != types.ReceiptStatusFailed {
					vAssert("quai-to-qi/exact-value", total.Cmp(etx.Value()) == 0)
				}
				vAssert("quai-to-qi/receipt-gas-within-etx-gas", r.GasUsed <= etx.Gas())
			}
			// block gas: the whole ETX gas if it cannot even pay the base cost, else base cost + one
			// transfer charge per output created (before the controller nothing is charged)
			if afterKickIn {
				if etx.Gas() < params.TxGas {
					gasSum += etx.Gas()
				} else {
					gasSum += params.TxGas + uint64(k)*params.CallValueTransferGas
				}
			}
		}
	}
	vAssert("delivery/no-other-outputs", ci == len(c04Created))
	vAssert("gas/used-equals-per-kind-charges", usedGas == gasSum)
}
