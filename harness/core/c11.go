//go:build verif

package core

import (
	"errors"

	"github.com/dominant-strategies/go-quai/common"
	"github.com/dominant-strategies/go-quai/core/rawdb"
	"github.com/dominant-strategies/go-quai/core/types"
	"github.com/dominant-strategies/go-quai/ethdb"
	"github.com/dominant-strategies/go-quai/params"
)

// ---- crash model: every durable write is logged; a batch commit is one atomic entry ----

type dbOp struct {
	key, val []byte
	del      bool
}

type crashLog struct {
	entries [][]dbOp
}

type crashDB struct {
	ethdb.Database
	log *crashLog
}

func (d *crashDB) Put(key, value []byte) error {
	d.log.entries = append(d.log.entries, []dbOp{{key: append([]byte{}, key...), val: append([]byte{}, value...)}})
	return d.Database.Put(key, value)
}
func (d *crashDB) Delete(key []byte) error {
	d.log.entries = append(d.log.entries, []dbOp{{key: append([]byte{}, key...), del: true}})
	return d.Database.Delete(key)
}
func (d *crashDB) NewBatch() ethdb.Batch {
	return &crashBatch{Batch: d.Database.NewBatch(), db: d}
}

type crashBatch struct {
	ethdb.Batch
	db  *crashDB
	ops []dbOp
}

func (b *crashBatch) Put(key, value []byte) error {
	b.ops = append(b.ops, dbOp{key: append([]byte{}, key...), val: append([]byte{}, value...)})
	return b.Batch.Put(key, value)
}
func (b *crashBatch) Delete(key []byte) error {
	b.ops = append(b.ops, dbOp{key: append([]byte{}, key...), del: true})
	return b.Batch.Delete(key)
}
func (b *crashBatch) Write() error {
	b.db.log.entries = append(b.db.log.entries, b.ops)
	b.ops = nil
	return b.Batch.Write()
}
func (b *crashBatch) Reset() {
	b.ops = nil
	b.Batch.Reset()
}

// applyPrefix rebuilds the database image that survives a crash after the first k durable entries.
func applyPrefix(initial []dbOp, log *crashLog, k int) ethdb.Database {
	db := rawdb.NewMemoryDatabase(nil)
	for _, op := range initial {
		db.Put(op.key, op.val)
	}
	for i := 0; i < k; i++ {
		for _, op := range log.entries[i] {
			if op.del {
				db.Delete(op.key)
			} else {
				db.Put(op.key, op.val)
			}
		}
	}
	return db
}

var applyEffects []dbOp
var applyFails bool

// stubProcessorApply: the block's state effects as a list of puts/deletes into the block batch
// (what StateProcessor.Apply does through rawdb writers), or a validation error.
func stubProcessorApply(p *StateProcessor, batch ethdb.Batch, block *types.WorkObject) ([]*types.Log, []common.Unlock, error) {
	for _, op := range applyEffects {
		if op.del {
			batch.Delete(op.key)
		} else {
			batch.Put(op.key, op.val)
		}
	}
	if applyFails {
		return nil, nil, errors.New("block failed validation")
	}
	// as the real Apply: the processed marker goes into the same batch as the block's effects
	rawdb.WriteProcessedState(batch, block.Hash())
	return nil, nil, nil
}

func stubWriteTxLookupEntriesByBlock(db ethdb.KeyValueWriter, wo *types.WorkObject, nodeCtx int) {}

// crashInvariant: the restart view of an image — the head pointer names a block whose Qi-ledger
// effects are exactly present: head == A2 => every effect of A2 is applied; head == A1 => none is.
func crashInvariant(img ethdb.Database, hA1, hA2 common.Hash, effects []dbOp, before map[string][]byte) (headKnown, consistent bool) {
	head := rawdb.ReadHeadBlockHash(img)
	headKnown = head == hA1 || head == hA2
	consistent = true
	for _, op := range effects {
		v, _ := img.Get(op.key)
		if head == hA2 {
			if op.del {
				consistent = consistent && len(v) == 0
			} else {
				consistent = consistent && string(v) == string(op.val)
			}
		} else {
			consistent = consistent && string(v) == string(before[string(op.key)])
		}
	}
	return
}

// H-C11-a: a crash at any point while appending a block or rolling one back leaves a database whose
// head pointer names a block with exactly that block's ledger effects present. Chain G <- A1 <- A2.
// Every durable write issued by the real SetCurrentHeader (extension A1 -> A2 through the real
// AppendBlock / BodyDb.Append with the block's effects applied by a stubbed processor; or rollback
// A2 -> A1 with A2's undo records) is logged, a batch commit being one atomic entry; for every prefix
// of that log (every crash point) the surviving image is rebuilt and the restart invariant checked.
// Block effects: up to two UTXO creations and one deletion of a pre-existing output, arbitrary keys.
//
// verif:stub (*core/types.WorkObject).Hash => stubWoHash
// verif:stub core/rawdb.FindCommonAncestor => stubFindCommonAncestor
// verif:stub (*core.HeaderChain).GetHeaderByHash => stubHcGetHeaderByHash
// verif:stub (*core.HeaderChain).IsGenesisHash => stubHcIsGenesisHash
// verif:stub (*core.HeaderChain).NodeCtx => stubHcNodeCtx
// verif:stub core/rawdb.ReadSpentUTXOs => stubReadSpentUTXOs
// verif:stub core/rawdb.ReadTrimmedUTXOs => stubReadTrimmedUTXOs
// verif:stub core/rawdb.ReadCreatedUTXOKeys => stubReadCreatedUTXOKeys
// verif:stub core/rawdb.ReadDeletedCoinbaseLockups => stubReadDeletedCoinbaseLockups
// verif:stub core/rawdb.ReadCreatedCoinbaseLockupKeys => stubReadCreatedCoinbaseLockupKeys
// verif:stub core/rawdb.CreateUTXO => stubCreateUTXOForUndo
// verif:stub (*core.StateProcessor).Apply => stubProcessorApply
// verif:stub core/rawdb.WriteTxLookupEntriesByBlock => stubWriteTxLookupEntriesByBlock
func VerifH_C11_a() {
	g := mkWo(0, 0, nil)
	a1 := mkWo(1, 1, g)
	a2 := mkWo(1, 2, a1)
	hA1, hA2 := stubWoHash(a1), stubWoHash(a2)
	reorgHeaders = map[common.Hash]*types.WorkObject{stubWoHash(g): g, hA1: a1, hA2: a2}
	reorgCommon = a1
	undoBlock = hA2
	undoSpent, undoTrimmed, undoCreatedKeys, undoDeletedLockups, undoCreatedLockupKeys = nil, nil, nil, nil, nil
	// block A2: creates c0 (and maybe c1), spends the pre-existing output s0
	c0, c1, s0 := vOutpoint("c0"), vOutpoint("c1"), vOutpoint("s0")
	vAssume(c0 != c1 && c0 != s0 && c1 != s0)
	twoCreated := vBool("twoCreated")
	kC0, kC1, kS0 := rawdb.UtxoKey(c0.TxHash, c0.Index), rawdb.UtxoKey(c1.TxHash, c1.Index), rawdb.UtxoKey(s0.TxHash, s0.Index)
	effects := []dbOp{{key: kC0, val: []byte{0xE0, 1}}, {key: kS0, del: true}}
	if twoCreated {
		effects = append(effects, dbOp{key: kC1, val: []byte{0xE0, 2}})
	}
	before := map[string][]byte{string(kS0): {0xE0, 3}}

	inner := rawdb.NewMemoryDatabase(nil)
	log := &crashLog{}
	db := &crashDB{Database: inner, log: log}
	cfg := &params.ChainConfig{Location: qiLoc}
	hc := &HeaderChain{headerDb: db, processingState: true, config: cfg}
	hc.bc = &BodyDb{chainConfig: cfg, db: db, slicesRunning: []common.Location{qiLoc}, processor: &StateProcessor{}}
	var initial []dbOp
	put := func(k, v []byte) {
		initial = append(initial, dbOp{key: k, val: v})
		inner.Put(k, v)
	}
	rollback := vBool("rollback")
	applyFails = false
	if rollback {
		vFact("op", "rollback")
		// state after A2, head = A2
		put(kC0, []byte{0xE0, 1})
		if twoCreated {
			put(kC1, []byte{0xE0, 2})
		}
		capture := &crashLog{}
		tmp := &crashDB{Database: rawdb.NewMemoryDatabase(nil), log: capture}
		rawdb.WriteCanonicalHash(tmp, hA1, 1)
		rawdb.WriteCanonicalHash(tmp, hA2, 2)
		rawdb.WriteHeadBlockHash(tmp, hA2)
		for _, e := range capture.entries {
			put(e[0].key, e[0].val)
		}
		undoSpent = []*types.SpentUtxoEntry{{OutPoint: s0, UtxoEntry: &types.UtxoEntry{Denomination: 3, Address: make([]byte, 20)}}}
		undoCreatedKeys = [][]byte{rawdb.UtxoKeyWithDenomination(c0.TxHash, c0.Index, 1)}
		if twoCreated {
			undoCreatedKeys = append(undoCreatedKeys, rawdb.UtxoKeyWithDenomination(c1.TxHash, c1.Index, 2))
		}
		hc.currentHeader.Store(a2)
		vAssert("op/no-error", hc.SetCurrentHeader(a1) == nil)
	} else {
		vFact("op", "append")
		put(kS0, []byte{0xE0, 3})
		capture := &crashLog{}
		tmp := &crashDB{Database: rawdb.NewMemoryDatabase(nil), log: capture}
		rawdb.WriteCanonicalHash(tmp, hA1, 1)
		rawdb.WriteHeadBlockHash(tmp, hA1)
		for _, e := range capture.entries {
			put(e[0].key, e[0].val)
		}
		applyEffects = effects
		applyFails = vBool("blockInvalid")
		hc.currentHeader.Store(a1)
		err := hc.SetCurrentHeader(a2)
		vAssert("op/error-iff-invalid", (err != nil) == applyFails)
	}
	vReach("operation-done")
	n := len(log.entries)
	vAssert("crash/log-not-empty", n > 0)
	// (checked before the crash points: an assertion that is false on a whole path ends the path)
	if applyFails {
		final := applyPrefix(initial, log, n)
		vAssert("reject/no-trace", rawdb.ReadCanonicalHash(final, 2) == (common.Hash{}) && rawdb.ReadHeadBlockHash(final) == hA1)
	}
	for k := 0; k <= n; k++ {
		img := applyPrefix(initial, log, k)
		known, ok := crashInvariant(img, hA1, hA2, effects, before)
		vAssert("crash/head-pointer-valid", known)
		if !ok {
			if k == n {
				vFact("crash-point", "none (final state)")
			} else if rollback {
				vFact("crash-point", "during-rollback")
			} else if rawdb.ReadHeadBlockHash(img) == hA1 {
				// F8: the block batch is durable, the head pointer still names the parent
				vFact("crash-point", "between-block-batch-and-head-pointer")
			} else {
				vFact("crash-point", "head-pointer-names-the-block-before-its-effects-are-durable")
			}
		}
		vAssert("crash/head-names-a-block-whose-effects-are-exactly-present", ok)
	}
}
