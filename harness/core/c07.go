//go:build verif

package core

import (
	"math/big"

	"github.com/dominant-strategies/go-quai/common"
	"github.com/dominant-strategies/go-quai/core/rawdb"
	"github.com/dominant-strategies/go-quai/core/state"
	"github.com/dominant-strategies/go-quai/core/types"
	"github.com/dominant-strategies/go-quai/core/vm"
	"github.com/dominant-strategies/go-quai/crypto"
	"github.com/dominant-strategies/go-quai/crypto/multiset"
	"github.com/dominant-strategies/go-quai/ethdb"
	"github.com/dominant-strategies/go-quai/params"
)

// ---- the inbound ETX queue of the destination chain (decided to be a FIFO queue in H-C04-a) ----
//
// The queue is keyed by the StateDB it lives in, so that the worker's state and the validator's
// state (two StateDB objects opened on the same parent) each consume their own copy.
type etxQueue struct {
	items  []*types.Transaction
	oldest int64
}

var etxQueues map[*state.StateDB]*etxQueue
var etxQueueInitial []*types.Transaction // content of the parent's ETX set
var etxQueueBase int64                   // oldest index in the parent's ETX set

func queueOf(s *state.StateDB) *etxQueue {
	if etxQueues == nil {
		etxQueues = map[*state.StateDB]*etxQueue{}
	}
	q := etxQueues[s]
	if q == nil {
		q = &etxQueue{items: append([]*types.Transaction{}, etxQueueInitial...), oldest: etxQueueBase}
		etxQueues[s] = q
	}
	return q
}

func stubPushETXs(s *state.StateDB, etxs []*types.Transaction) error {
	q := queueOf(s)
	q.items = append(q.items, etxs...)
	return nil
}
func stubPopETX(s *state.StateDB) (*types.Transaction, error) {
	q := queueOf(s)
	if len(q.items) == 0 {
		return nil, nil
	}
	e := q.items[0]
	q.items = q.items[1:]
	q.oldest++
	return e, nil
}
func stubGetOldestIndex(s *state.StateDB) (*big.Int, error) {
	return big.NewInt(queueOf(s).oldest), nil
}
func stubReadETX(s *state.StateDB, index *big.Int) (*types.Transaction, error) {
	q := queueOf(s)
	i := index.Int64() - q.oldest
	if i < 0 || i >= int64(len(q.items)) {
		return nil, nil
	}
	return q.items[i], nil
}

// ---- environment of StateProcessor.Process ----
var c07Parent, c07PrimeTerminus *types.WorkObject
var c07PrevInbound types.Transactions
var c07AvgFees *big.Int
var c07Finalized bool
var c07Written int

func stubHcGetBlock(hc *HeaderChain, hash common.Hash, number uint64) *types.WorkObject {
	return c07Parent
}
func stubC07GetHeaderByHash(hc *HeaderChain, hash common.Hash) *types.WorkObject {
	return c07PrimeTerminus
}
func stubReadUTXOSetSize(db ethdb.Reader, blockHash common.Hash) uint64 { return 1000 }
func stubReadInboundEtxs(db ethdb.Reader, hash common.Hash) types.Transactions {
	return c07PrevInbound
}
func stubNewEVMBlockContext(header *types.WorkObject, parent *types.WorkObject, chain ChainContext, author *common.Address) (vm.BlockContext, error) {
	return vm.BlockContext{CanTransfer: CanTransfer, Transfer: Transfer, BlockNumber: big.NewInt(2), BaseFee: big.NewInt(1), QuaiStateSize: big.NewInt(1 << 20), GasLimit: 1 << 40}, nil
}
func stubRedeemLockedQuai(hc *HeaderChain, header *types.WorkObject, parent *types.WorkObject, statedb *state.StateDB, vmenv *vm.EVM) ([]common.Unlock, error) {
	return nil, nil
}
func stubComputeAverageTxFees(hc *HeaderChain, parent *types.WorkObject, totalTxFeesInQuai *big.Int) *big.Int {
	return new(big.Int).Add(c07AvgFees, totalTxFeesInQuai)
}
func stubQiToQuaiCore(block *types.WorkObject, exchangeRate *big.Int, difficulty *big.Int, qiAmt *big.Int) *big.Int {
	return new(big.Int).Mul(qiAmt, big.NewInt(3))
}
func stubHcFinalize(hc *HeaderChain, batch ethdb.Batch, header *types.WorkObject, st *state.StateDB, setRoots bool, utxoSetSize uint64, utxosCreate, utxosDelete []common.Hash, supplyRemovedQi *big.Int) (*multiset.MultiSet, uint64, []*types.SpentUtxoEntry, error) {
	c07Finalized = true
	return nil, utxoSetSize + uint64(len(utxosCreate)) - uint64(len(utxosDelete)), nil, nil
}
func stubWriteSpentUTXOs(db ethdb.KeyValueWriter, blockHash common.Hash, spentUTXOs []*types.SpentUtxoEntry) error {
	c07Written++
	return nil
}
func stubWriteCreatedUTXOKeys(db ethdb.KeyValueWriter, blockHash common.Hash, createdUTXOKeys [][]byte) error {
	c07Written++
	return nil
}
func stubWriteCreatedCoinbaseLockupKeys(db ethdb.KeyValueWriter, blockHash common.Hash, keys [][]byte) error {
	c07Written++
	return nil
}
func stubWriteDeletedCoinbaseLockups(db ethdb.KeyValueWriter, blockHash common.Hash, deletedLockups []rawdb.DeletedCoinbaseLockup) error {
	c07Written++
	return nil
}
func stubC07CreateUTXO(db ethdb.KeyValueWriter, txHash common.Hash, index uint16, utxo *types.UtxoEntry) error {
	return nil
}
func stubC07UTXOHash(txHash common.Hash, index uint16, utxo *types.UtxoEntry) common.Hash {
	return common.Hash{}
}

// a cheap inbound ETX: a Qi transfer from another zone to an in-zone Qi address (one output, no EVM)
func c07Etx(i int, denom *big.Int) *types.Transaction {
	to := common.BytesToAddress(append([]byte{0x00, 0x80}, append(make([]byte, 17), byte(i))...), qiLoc)
	from := common.BytesToAddress(append([]byte{0x01, 0x80}, append(make([]byte, 17), byte(i))...), common.Location{0, 1})
	var origin common.Hash
	origin[0], origin[30], origin[31] = 0xE7, byte(i>>8), byte(i)
	return types.NewTx(&types.ExternalTx{Value: denom, To: &to, Sender: from, EtxType: types.DefaultType, OriginatingTxHash: origin, ETXIndex: uint16(i), Gas: 21000})
}

type c07World struct {
	p      *StateProcessor
	hc     *HeaderChain
	parent *types.WorkObject
}

func newC07World() *c07World {
	cfg := &params.ChainConfig{Location: qiLoc, ChainID: big.NewInt(9000)}
	hc := &HeaderChain{config: cfg}
	hc.bc = &BodyDb{chainConfig: cfg}
	hc.pool = &TxPool{}
	p := &StateProcessor{config: cfg, hc: hc}
	p.stateCache = state.NewDatabase(rawdb.NewMemoryDatabase(nil))
	p.etxCache = state.NewDatabase(rawdb.NewMemoryDatabase(nil))
	hc.bc.processor = p
	parent := types.EmptyWorkObject(common.ZONE_CTX)
	parent.WorkObjectHeader().SetNumber(big.NewInt(1))
	parent.Header().SetQuaiStateSize(big.NewInt(1 << 20))
	c07Parent = parent
	c07PrimeTerminus = types.EmptyWorkObject(common.ZONE_CTX)
	c07PrevInbound = nil
	c07Finalized = false
	c07Written = 0
	etxQueues = nil
	return &c07World{p: p, hc: hc, parent: parent}
}

// block at height 2 (before TimeToStartTx, before the reward window) carrying txs
func (w *c07World) block(txs types.Transactions, avgFees, totalFees *big.Int) *types.WorkObject {
	b := types.EmptyWorkObject(common.ZONE_CTX)
	b.WorkObjectHeader().SetNumber(big.NewInt(2))
	b.Header().SetGasLimit(1 << 40)
	b.Header().SetBaseFee(big.NewInt(1))
	b.Header().SetAvgTxFees(avgFees)
	b.Header().SetTotalFees(totalFees)
	b.Body().SetTransactions(txs)
	return b
}

// H-C07-p: the validator's rules on the inbound-ETX part of a block (StateProcessor.Process, real code
// from its first instruction to its return, pre-TimeToStartTx regime, height 2): the parent's ETX
// set holds Q entries (0..3) and the parent's own inbound ETXs add P (0..1) more. A block that carries
// the first n queue entries in order, with the fee totals re-execution yields, is accepted exactly
// when the count rule allows (n within [MinEtxCount, MaxEtxCount] or the queue is drained);
// a block that drops queued ETXs while some remain, reorders two, alters one (value), carries one
// that is not queued, or declares a wrong avgTxFees/totalFees is rejected, and a rejected block
// never reaches Finalize or the undo-record writes.
//
// verif:stub (*core.HeaderChain).GetBlock => stubHcGetBlock
// verif:stub (*core.HeaderChain).GetHeaderByHash => stubC07GetHeaderByHash
// verif:stub (*core.HeaderChain).NodeLocation => stubHcNodeLocationZone
// verif:stub (*core.HeaderChain).NodeCtx => stubHcNodeCtx
// verif:stub (*core.HeaderChain).IsGenesisHash => stubHcIsGenesisHash
// verif:stub (*core.HeaderChain).ComputeAverageTxFees => stubComputeAverageTxFees
// verif:stub (*core.HeaderChain).Finalize => stubHcFinalize
// verif:stub core/rawdb.ReadUTXOSetSize => stubReadUTXOSetSize
// verif:stub core/rawdb.ReadInboundEtxs => stubReadInboundEtxs
// verif:stub core/rawdb.CreateUTXO => stubC07CreateUTXO
// verif:stub core/rawdb.WriteSpentUTXOs => stubWriteSpentUTXOs
// verif:stub core/rawdb.WriteCreatedUTXOKeys => stubWriteCreatedUTXOKeys
// verif:stub core/rawdb.WriteCreatedCoinbaseLockupKeys => stubWriteCreatedCoinbaseLockupKeys
// verif:stub core/rawdb.WriteDeletedCoinbaseLockups => stubWriteDeletedCoinbaseLockups
// verif:stub core/types.UTXOHash => stubC07UTXOHash
// verif:stub core.NewEVMBlockContext => stubNewEVMBlockContext
// verif:stub core.RedeemLockedQuai => stubRedeemLockedQuai
// verif:stub consensus/misc.QiToQuai => stubQiToQuaiCore
// verif:stub (*core/state.StateDB).PushETXs => stubPushETXs
// verif:stub (*core/state.StateDB).PopETX => stubPopETX
// verif:stub (*core/state.StateDB).GetOldestIndex => stubGetOldestIndex
// verif:stub (*core/state.StateDB).ReadETX => stubReadETX
// verif:bounds decisions=400 paths=4000
func VerifH_C07_p() {
	w := newC07World()
	Q := vLen("queuedInParentSet", 3)
	P := vLen("parentInbound", 1)
	etxQueueBase = int64(vU16("oldestIndex"))
	all := make([]*types.Transaction, 0, 4)
	for i := 0; i < Q+P; i++ {
		all = append(all, c07Etx(i, big.NewInt(int64(vU8("denomination")%15))))
	}
	etxQueueInitial = all[:Q]
	c07PrevInbound = all[Q:]
	c07AvgFees = vBigN("avgFeesOfParentWindow", 32)

	n := vLen("carried", Q+P)
	txs := append(types.Transactions{}, all[:n]...)
	avg, total := new(big.Int).Set(c07AvgFees), big.NewInt(0)
	tamper := vLen("tamper", 6)
	switch tamper {
	case 0:
		vFact("block", "honest-prefix-of-queue")
	case 1:
		vFact("block", "two-etxs-swapped")
		vAssume(n >= 2)
		txs[0], txs[1] = txs[1], txs[0]
	case 2:
		vFact("block", "etx-value-altered")
		vAssume(n >= 1)
		k := vLen("alteredIndex", n-1)
		in := txs[k]
		to := *in.To()
		d := vU8("alteredDenomination") % 15
		vAssume(big.NewInt(int64(d)).Cmp(in.Value()) != 0)
		txs[k] = types.NewTx(&types.ExternalTx{Value: big.NewInt(int64(d)), To: &to, Sender: in.ETXSender(), EtxType: types.DefaultType, OriginatingTxHash: in.OriginatingTxHash(), ETXIndex: in.ETXIndex(), Gas: in.Gas()})
	case 3:
		vFact("block", "etx-not-in-queue-added")
		txs = append(txs, c07Etx(200, big.NewInt(1)))
	case 4:
		vFact("block", "first-queued-etx-skipped")
		vAssume(n >= 1)
		txs = txs[1:]
	case 5:
		vFact("block", "wrong-avg-tx-fees")
		avg = new(big.Int).Add(avg, big.NewInt(int64(vU8("avgFeesDelta"))+1))
	default:
		vFact("block", "wrong-total-fees")
		total = big.NewInt(int64(vU8("totalFeesDelta")) + 1)
	}
	blk := w.block(txs, avg, total)

	_, _, _, _, _, _, _, _, _, err := w.p.Process(blk, c07Batch{})

	vReach("processed")
	remaining := Q + P - n
	if tamper == 0 {
		okCount := !(remaining > 0 && n < params.MinEtxCount) && n <= params.MaxEtxCount
		if okCount {
			vReach("honest-accepted")
			vAssert("own-block/accepted", err == nil)
			vAssert("own-block/finalized-and-undo-records-written", c07Finalized && c07Written == 4)
		} else {
			vAssert("dropped-etxs/rejected", err != nil)
		}
	} else {
		vAssert("tampered/rejected", err != nil)
	}
	if err != nil {
		vAssert("rejected/never-finalized-nor-written", !c07Finalized && c07Written == 0)
	}
}

type c07Batch struct{ ethdb.Batch }

func (c07Batch) SetPending(bool) {}

// ---- the worker's side ----
var c07Committed int

// identity of an inbound ETX in the agreement harnesses: (originating tx hash, index) - what the
// real hash binds among other fields (decided in H-C07-p with the real hash)
func stubC07TxHash(tx *types.Transaction, location ...byte) common.Hash {
	h := tx.OriginatingTxHash()
	h[5] = byte(tx.ETXIndex())
	return h
}

func stubWorkerCommitTransaction(w *worker, env *environment, parent *types.WorkObject, tx *types.Transaction) ([]*types.Log, bool, error) {
	c07Committed++
	env.txs = append(env.txs, tx)
	return nil, false, nil
}

// H-C07-w: own blocks validate, inbound-ETX selection (pre-TimeToStartTx regime). The worker's real
// commitTransactions selects ETXs from a queue of arbitrary length L (0..110; the rule's constants
// are 50 and 100) with an empty mempool; the block made of exactly what the worker selected, on the
// same parent, is then given to the real StateProcessor.Process (shell of H-C07-p): it must be
// accepted. (commitTransaction, i.e. the execution of one ETX, is stubbed to "included".)
//
// verif:tier thorough
// verif:stub (*core.worker).commitTransaction => stubWorkerCommitTransaction
// verif:stub (*core/types.Transaction).Hash => stubC07TxHash
// verif:stub (*core.HeaderChain).GetBlock => stubHcGetBlock
// verif:stub (*core.HeaderChain).GetHeaderByHash => stubC07GetHeaderByHash
// verif:stub (*core.HeaderChain).NodeLocation => stubHcNodeLocationZone
// verif:stub (*core.HeaderChain).NodeCtx => stubHcNodeCtx
// verif:stub (*core.HeaderChain).IsGenesisHash => stubHcIsGenesisHash
// verif:stub (*core.HeaderChain).ComputeAverageTxFees => stubComputeAverageTxFees
// verif:stub (*core.HeaderChain).Finalize => stubHcFinalize
// verif:stub core/rawdb.ReadUTXOSetSize => stubReadUTXOSetSize
// verif:stub core/rawdb.ReadInboundEtxs => stubReadInboundEtxs
// verif:stub core/rawdb.CreateUTXO => stubC07CreateUTXO
// verif:stub core/rawdb.WriteSpentUTXOs => stubWriteSpentUTXOs
// verif:stub core/rawdb.WriteCreatedUTXOKeys => stubWriteCreatedUTXOKeys
// verif:stub core/rawdb.WriteCreatedCoinbaseLockupKeys => stubWriteCreatedCoinbaseLockupKeys
// verif:stub core/rawdb.WriteDeletedCoinbaseLockups => stubWriteDeletedCoinbaseLockups
// verif:stub core/types.UTXOHash => stubC07UTXOHash
// verif:stub core.NewEVMBlockContext => stubNewEVMBlockContext
// verif:stub core.RedeemLockedQuai => stubRedeemLockedQuai
// verif:stub consensus/misc.QiToQuai => stubQiToQuaiCore
// verif:stub (*core/state.StateDB).PushETXs => stubPushETXs
// verif:stub (*core/state.StateDB).PopETX => stubPopETX
// verif:stub (*core/state.StateDB).GetOldestIndex => stubGetOldestIndex
// verif:stub (*core/state.StateDB).ReadETX => stubReadETX
// verif:bounds decisions=4000 steps=40000000 paths=400 split=128
func VerifH_C07_w() {
	c07WorkerAgreement(vLen("queueLength", 110))
}

// H-C07-w2: the same agreement at the lengths around the rule's constants (quick tier).
//
// verif:stub (*core.worker).commitTransaction => stubWorkerCommitTransaction
// verif:stub (*core/types.Transaction).Hash => stubC07TxHash
// verif:stub (*core.HeaderChain).GetBlock => stubHcGetBlock
// verif:stub (*core.HeaderChain).GetHeaderByHash => stubC07GetHeaderByHash
// verif:stub (*core.HeaderChain).NodeLocation => stubHcNodeLocationZone
// verif:stub (*core.HeaderChain).NodeCtx => stubHcNodeCtx
// verif:stub (*core.HeaderChain).IsGenesisHash => stubHcIsGenesisHash
// verif:stub (*core.HeaderChain).ComputeAverageTxFees => stubComputeAverageTxFees
// verif:stub (*core.HeaderChain).Finalize => stubHcFinalize
// verif:stub core/rawdb.ReadUTXOSetSize => stubReadUTXOSetSize
// verif:stub core/rawdb.ReadInboundEtxs => stubReadInboundEtxs
// verif:stub core/rawdb.CreateUTXO => stubC07CreateUTXO
// verif:stub core/rawdb.WriteSpentUTXOs => stubWriteSpentUTXOs
// verif:stub core/rawdb.WriteCreatedUTXOKeys => stubWriteCreatedUTXOKeys
// verif:stub core/rawdb.WriteCreatedCoinbaseLockupKeys => stubWriteCreatedCoinbaseLockupKeys
// verif:stub core/rawdb.WriteDeletedCoinbaseLockups => stubWriteDeletedCoinbaseLockups
// verif:stub core/types.UTXOHash => stubC07UTXOHash
// verif:stub core.NewEVMBlockContext => stubNewEVMBlockContext
// verif:stub core.RedeemLockedQuai => stubRedeemLockedQuai
// verif:stub consensus/misc.QiToQuai => stubQiToQuaiCore
// verif:stub (*core/state.StateDB).PushETXs => stubPushETXs
// verif:stub (*core/state.StateDB).PopETX => stubPopETX
// verif:stub (*core/state.StateDB).GetOldestIndex => stubGetOldestIndex
// verif:stub (*core/state.StateDB).ReadETX => stubReadETX
// verif:bounds decisions=4000 steps=40000000 paths=40 split=128
func VerifH_C07_w2() {
	switch vLen("queueLengthCase", 5) {
	case 0:
		c07WorkerAgreement(0)
	case 1:
		c07WorkerAgreement(1 + vLen("short", 1))
	case 2:
		c07WorkerAgreement(params.MinEtxCount - 1 + vLen("aroundMin", 3))
	case 3:
		c07WorkerAgreement(params.MaxEtxCount - 1 + vLen("aroundMax", 1))
	case 4:
		c07WorkerAgreement(params.MaxEtxCount + 1)
	default:
		c07WorkerAgreement(params.MaxEtxCount + 10)
	}
}

func c07WorkerAgreement(L int) {
	w := newC07World()
	etxQueueBase = int64(vU16("oldestIndex"))
	all := make([]*types.Transaction, 0, L)
	d := big.NewInt(3)
	for i := 0; i < L; i++ {
		all = append(all, c07Etx(i, d))
	}
	etxQueueInitial = all
	c07AvgFees = big.NewInt(0)
	c07Committed = 0

	wk := &worker{hc: w.hc, chainConfig: w.p.config}
	pending := types.EmptyWorkObject(common.ZONE_CTX)
	pending.WorkObjectHeader().SetNumber(big.NewInt(2))
	pending.Header().SetGasLimit(1 << 40)
	env := &environment{wo: pending, state: newRealStateCore(), signer: types.LatestSigner(w.p.config)}
	txs := types.NewTransactionsByPriceAndNonce(env.signer, nil, map[common.AddressBytes]types.Transactions{})
	err := wk.commitTransactions(env, c07PrimeTerminus, w.parent, txs)
	vReach("worker-selected")
	vAssert("worker/no-error", err == nil)
	vAssert("worker/selected-what-it-committed", len(env.txs) == c07Committed && len(env.txs) <= L)
	for i := range env.txs {
		vAssert("worker/queue-order", env.txs[i] == all[i])
	}

	blk := w.block(append(types.Transactions{}, env.txs...), big.NewInt(0), big.NewInt(0))
	_, _, _, _, _, _, _, _, _, perr := w.p.Process(blk, c07Batch{})
	vReach("validated")
	vAssert("own-block/passes-own-validation", perr == nil)
}

// ---- ValidateState: every declared result is compared with the recomputed one ----
var vsReceiptRoot, vsEtxRoot, vsEvmRoot, vsUtxoRoot, vsEtxSetRoot common.Hash
var vsStateSize, vsUncledEntropy *big.Int

func stubDeriveSha(list types.DerivableList, hasher types.TrieHasher) common.Hash {
	if _, ok := list.(types.Receipts); ok {
		return vsReceiptRoot
	}
	return vsEtxRoot
}
func stubIntermediateRoot(s *state.StateDB, deleteEmptyObjects bool) common.Hash { return vsEvmRoot }
func stubGetQuaiTrieSize(s *state.StateDB) *big.Int                              { return new(big.Int).Set(vsStateSize) }
func stubETXRoot(s *state.StateDB) common.Hash                                   { return vsEtxSetRoot }
func stubVsMultiSetHash(m multiset.MultiSet) common.Hash                        { return vsUtxoRoot }
func stubUncledLogEntropy(hc *HeaderChain, block *types.WorkObject) *big.Int {
	return new(big.Int).Set(vsUncledEntropy)
}

func vHash(tag string) common.Hash {
	// arbitrary in two bytes (first and last), fixed elsewhere
	var h common.Hash
	h[0], h[31] = vU8(tag+"First"), vU8(tag+"Last")
	return h
}

// H-C07-b: BlockValidator.ValidateState accepts a block only if every declared result equals the
// recomputed one: gas used, state used, receipt root, EVM root, Quai state size, UTXO root, ETX set
// root, outbound ETX root, uncled entropy. Declared and recomputed values are arbitrary and
// independent; accepted <=> all nine are equal.
//
// verif:stub core/types.DeriveSha => stubDeriveSha
// verif:stub (*core/state.StateDB).IntermediateRoot => stubIntermediateRoot
// verif:stub (*core/state.StateDB).GetQuaiTrieSize => stubGetQuaiTrieSize
// verif:stub (*core/state.StateDB).ETXRoot => stubETXRoot
// verif:stub (crypto/multiset.MultiSet).Hash => stubVsMultiSetHash
// verif:stub (*core.HeaderChain).UncledLogEntropy => stubUncledLogEntropy
// verif:bounds decisions=200 paths=4000
func VerifH_C07_b() {
	vsReceiptRoot, vsEtxRoot, vsEvmRoot, vsUtxoRoot, vsEtxSetRoot = vHash("localReceiptRoot"), vHash("localOutboundEtxRoot"), vHash("localEvmRoot"), vHash("localUtxoRoot"), vHash("localEtxSetRoot")
	vsStateSize, vsUncledEntropy = vBigN("localStateSize", 64), vBigN("localUncledEntropy", 64)
	usedGas, usedState := vU64("localGasUsed"), vU64("localStateUsed")

	b := types.EmptyWorkObject(common.ZONE_CTX)
	h := b.Header()
	dGas, dState := vU64("declaredGasUsed"), vU64("declaredStateUsed")
	h.SetGasUsed(dGas)
	h.SetStateUsed(dState)
	dRec, dEtx, dEvm, dUtxo, dSet := vHash("declaredReceiptRoot"), vHash("declaredOutboundEtxRoot"), vHash("declaredEvmRoot"), vHash("declaredUtxoRoot"), vHash("declaredEtxSetRoot")
	h.SetReceiptHash(dRec)
	h.SetOutboundEtxHash(dEtx)
	h.SetEVMRoot(dEvm)
	h.SetUTXORoot(dUtxo)
	h.SetEtxSetRoot(dSet)
	dSize, dEnt := vBigN("declaredStateSize", 64), vBigN("declaredUncledEntropy", 64)
	h.SetQuaiStateSize(dSize)
	h.SetUncledEntropy(dEnt)

	v := &BlockValidator{hc: &HeaderChain{}}
	err := v.ValidateState(b, newRealStateCore(), types.Receipts{}, types.Transactions{}, &multiset.MultiSet{}, usedGas, usedState)
	vReach("validated")
	allEqual := dGas == usedGas && dState == usedState && dRec == vsReceiptRoot && dEtx == vsEtxRoot && dEvm == vsEvmRoot && dUtxo == vsUtxoRoot && dSet == vsEtxSetRoot && dSize.Cmp(vsStateSize) == 0 && dEnt.Cmp(vsUncledEntropy) == 0
	if err == nil {
		vReach("accepted")
		vAssert("state/accepted-only-if-every-declared-result-matches", allEqual)
	} else {
		vAssert("state/own-results-accepted", !allEqual)
	}
}

// ---- ValidateBody: the body is bound to the header ----
func stubDeriveShaOfIds(list types.DerivableList, hasher types.TrieHasher) common.Hash {
	// the root of a list is a collision-free function of the sequence of its elements (H-C18-c: DeriveSha
	// feeds every element, under its index, in order; the trie hash itself is keccak)
	var buf []byte
	if txs, ok := list.(types.Transactions); ok {
		for _, tx := range txs {
			buf = append(buf, tx.Hash().Bytes()...)
		}
	}
	return crypto.Keccak256Hash(buf)
}
func stubVerifyUncles(hc *HeaderChain, block *types.WorkObject) error { return nil }

var vbUncleHash common.Hash

func stubCalcUncleHash(uncles []*types.WorkObjectHeader) common.Hash { return vbUncleHash }

func c07IdTx(tag string) *types.Transaction {
	t := c07Etx(0, big.NewInt(1))
	var origin common.Hash
	origin[0], origin[31] = 0xE7, vU8(tag)
	to := *t.To()
	return types.NewTx(&types.ExternalTx{Value: big.NewInt(1), To: &to, Sender: t.ETXSender(), OriginatingTxHash: origin, ETXIndex: uint16(vU8(tag + "Index")), Gas: 21000})
}

// H-C07-v: BlockValidator.ValidateBody (zone context) binds the body to the header: with the header's
// transaction root, outbound-ETX root and uncle hash computed from a body of 0..3 transactions and
// 0..2 outbound ETXs (arbitrary identities), the untouched body is accepted, and a body with one
// transaction altered, dropped, duplicated/added, or two swapped (when they differ), or an outbound
// ETX altered/dropped, or a different uncle list hash, is rejected.
//
// verif:stub core/types.DeriveSha => stubDeriveShaOfIds
// verif:stub core/types.CalcUncleHash => stubCalcUncleHash
// verif:stub (*core.HeaderChain).VerifyUncles => stubVerifyUncles
// verif:stub (*core/types.Transaction).Hash => stubC07TxHash
// verif:bounds decisions=300 paths=6000
func VerifH_C07_v() {
	cfg := &params.ChainConfig{Location: qiLoc, ChainID: big.NewInt(9000)}
	v := &BlockValidator{config: cfg, hc: &HeaderChain{config: cfg}}
	n := vLen("transactions", 3)
	m := vLen("outboundEtxs", 2)
	txs := make(types.Transactions, n)
	for i := range txs {
		txs[i] = c07IdTx("tx" + string(rune('A'+i)))
	}
	etxs := make(types.Transactions, m)
	for i := range etxs {
		etxs[i] = c07IdTx("etx" + string(rune('A'+i)))
	}
	vbUncleHash = vHash("uncleHash")
	b := types.EmptyWorkObject(common.ZONE_CTX)
	b.Header().SetTxHash(stubDeriveShaOfIds(txs, nil))
	b.Header().SetOutboundEtxHash(stubDeriveShaOfIds(etxs, nil))
	b.Header().SetUncleHash(vbUncleHash)

	same := true
	switch vLen("tamper", 6) {
	case 0:
		vFact("body", "untouched")
	case 1:
		vFact("body", "transaction-altered")
		vAssume(n >= 1)
		k := vLen("which", n-1)
		alt := c07IdTx("altered")
		vAssume(stubC07TxHash(alt) != stubC07TxHash(txs[k]))
		txs = append(types.Transactions{}, txs...)
		txs[k] = alt
		same = false
	case 2:
		vFact("body", "transaction-dropped")
		vAssume(n >= 1)
		k := vLen("which", n-1)
		txs = append(append(types.Transactions{}, txs[:k]...), txs[k+1:]...)
		same = false
	case 3:
		vFact("body", "transaction-added")
		k := vLen("where", n)
		add := c07IdTx("added")
		nt := append(types.Transactions{}, txs[:k]...)
		nt = append(nt, add)
		txs = append(nt, txs[k:]...)
		same = false
	case 4:
		vFact("body", "transactions-swapped")
		vAssume(n >= 2)
		k := vLen("which", n-2)
		vAssume(stubC07TxHash(txs[k]) != stubC07TxHash(txs[k+1]))
		txs = append(types.Transactions{}, txs...)
		txs[k], txs[k+1] = txs[k+1], txs[k]
		same = false
	case 5:
		vFact("body", "outbound-etx-altered-or-dropped")
		vAssume(m >= 1)
		if vBool("dropLast") {
			etxs = etxs[:m-1]
		} else {
			alt := c07IdTx("alteredEtx")
			vAssume(stubC07TxHash(alt) != stubC07TxHash(etxs[0]))
			etxs = append(types.Transactions{alt}, etxs[1:]...)
		}
		same = false
	default:
		vFact("body", "other-uncles")
		other := vHash("otherUncleHash")
		vAssume(other != vbUncleHash)
		vbUncleHash = other
		same = false
	}
	b.Body().SetTransactions(txs)
	b.Body().SetOutboundEtxs(etxs)
	err := v.ValidateBody(b)
	vReach("validated")
	if same {
		vReach("accepted")
		vAssert("body/own-body-accepted", err == nil)
	} else {
		vAssert("body/tampered-rejected", err != nil)
	}
}
