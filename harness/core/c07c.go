//go:build verif

package core

import (
	"github.com/dominant-strategies/go-quai/common"
	"github.com/dominant-strategies/go-quai/core/rawdb"
	"github.com/dominant-strategies/go-quai/params"
)

// H-C07-c: a rejected block leaves no trace — not immediately and not later. The real BodyDb.Append is
// given a first block whose processing queues arbitrary ledger writes (two creations and one
// deletion on arbitrary keys) and then fails validation or not, and then a second block with its
// own writes that is valid. Every durable write is logged. If the first block was rejected: right
// after the rejection the database is unchanged, and after the second block has been appended the
// database holds exactly the initial content plus the second block's effects — none of the rejected
// block's writes has reached it. If the first block was valid, both blocks' effects are present.
//
// verif:stub (*core/types.WorkObject).Hash => stubWoHash
// verif:stub (*core.StateProcessor).Apply => stubProcessorApply
// verif:stub core/rawdb.WriteTxLookupEntriesByBlock => stubWriteTxLookupEntriesByBlock
func VerifH_C07_c() {
	g := mkWo(0, 0, nil)
	a1 := mkWo(1, 1, g)
	a2 := mkWo(1, 2, a1)
	inner := rawdb.NewMemoryDatabase(nil)
	log := &crashLog{}
	db := &crashDB{Database: inner, log: log}
	cfg := &params.ChainConfig{Location: qiLoc}
	bc := &BodyDb{chainConfig: cfg, db: db, slicesRunning: []common.Location{qiLoc}, processor: &StateProcessor{}}
	// pre-existing outputs
	s0, s1 := vOutpoint("s0"), vOutpoint("s1")
	x0, x1 := vOutpoint("x0"), vOutpoint("x1") // created by the first block
	y0 := vOutpoint("y0")                      // created by the second block
	vAssume(s0 != s1 && x0 != x1 && x0 != s0 && x0 != s1 && x1 != s0 && x1 != s1 && y0 != s0 && y0 != s1 && y0 != x0 && y0 != x1)
	kS0, kS1 := rawdb.UtxoKey(s0.TxHash, s0.Index), rawdb.UtxoKey(s1.TxHash, s1.Index)
	kX0, kX1, kY0 := rawdb.UtxoKey(x0.TxHash, x0.Index), rawdb.UtxoKey(x1.TxHash, x1.Index), rawdb.UtxoKey(y0.TxHash, y0.Index)
	inner.Put(kS0, []byte{0xE0, 3})
	inner.Put(kS1, []byte{0xE0, 4})

	firstRejected := vBool("firstBlockInvalid")
	applyEffects = []dbOp{{key: kX0, val: []byte{0xE1, 1}}, {key: kX1, val: []byte{0xE1, 2}}, {key: kS0, del: true}}
	applyFails = firstRejected
	_, _, err1 := bc.Append(a1)
	vAssert("first/error-iff-invalid", (err1 != nil) == firstRejected)
	if firstRejected {
		vReach("rejected")
		vAssert("reject/no-durable-write", len(log.entries) == 0)
		vAssert("reject/database-unchanged", dbHas(inner, kS0) && dbHas(inner, kS1) && !dbHas(inner, kX0) && !dbHas(inner, kX1))
	}
	applyEffects = []dbOp{{key: kY0, val: []byte{0xE2, 1}}, {key: kS1, del: true}}
	applyFails = false
	_, _, err2 := bc.Append(a2)
	vReach("second-appended")
	vAssert("second/accepted", err2 == nil)
	vAssert("second/its-effects-present", dbHas(inner, kY0) && !dbHas(inner, kS1))
	if firstRejected {
		vAssert("reject/no-trace-after-later-blocks", dbHas(inner, kS0) && !dbHas(inner, kX0) && !dbHas(inner, kX1))
		for _, e := range log.entries {
			for _, op := range e {
				vAssert("reject/no-write-of-the-rejected-block-ever-issued", string(op.key) != string(kX0) && string(op.key) != string(kX1) && string(op.key) != string(kS0))
			}
		}
	} else {
		vAssert("first/its-effects-present", !dbHas(inner, kS0) && dbHas(inner, kX0) && dbHas(inner, kX1))
	}
}
