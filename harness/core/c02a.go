//go:build verif

package core

import (
	"math/big"

	"github.com/dominant-strategies/go-quai/common"
	"github.com/dominant-strategies/go-quai/core/types"
	"github.com/dominant-strategies/go-quai/core/vm"
	"github.com/dominant-strategies/go-quai/params"
)

// ---- frame contract for evm.Call inside TransitionDb ----
//
// stubEvmCall stands for "any bytecode run by the top-level call": it transfers `value` from caller
// to callee (as evm.Call does), optionally emits one ETX (debiting the caller: what opETX /
// CreateETX do, decided in C05) and ends with success or a VM error; on error every effect of the
// frame is undone (decided in C12), gas left <= gas given.
var frameEtxTag string

func stubEvmCall(evm *vm.EVM, caller vm.ContractRef, addr common.Address, input []byte, gas uint64, value *big.Int) ([]byte, uint64, uint64, error) {
	left := vU64("gasLeft")
	vAssume(left <= gas)
	if vBool("vmError") {
		if vBool("vmErrorIsRevert") {
			return nil, left, 0, vm.ErrExecutionReverted
		}
		return nil, 0, 0, vm.ErrOutOfGas
	}
	from, err1 := caller.Address().InternalAndQuaiAddress()
	to, err2 := addr.InternalAndQuaiAddress()
	if err1 != nil || err2 != nil {
		return nil, left, 0, vm.ErrInsufficientBalance
	}
	if evm.StateDB.GetBalance(from).Cmp(value) < 0 {
		return nil, left, 0, vm.ErrInsufficientBalance
	}
	evm.StateDB.SubBalance(from, value)
	evm.StateDB.AddBalance(to, value)
	if vBool("frameEmitsEtx" + frameEtxTag) {
		v := vBigN("frameEtxValue"+frameEtxTag, 64)
		if evm.StateDB.GetBalance(to).Cmp(v) >= 0 {
			evm.StateDB.SubBalance(to, v)
			dst := common.BytesToAddress(append([]byte{0x01, 0x00}, make([]byte, 18)...), qiLoc)
			evm.ETXCache = append(evm.ETXCache, types.NewTx(&types.ExternalTx{Value: v, To: &dst, Sender: addr, ETXIndex: uint16(len(evm.ETXCache)), Gas: 21000}))
		}
	}
	return nil, left, 0, nil
}

func newTransitionEVM(st vm.StateDB) *vm.EVM {
	coinbase := common.BytesToAddress(append([]byte{0x00, 0x00}, append(make([]byte, 17), 0xcb)...), qiLoc)
	bctx := vm.BlockContext{CanTransfer: CanTransfer, Transfer: Transfer, PrimaryCoinbase: coinbase, BlockNumber: big.NewInt(1000000),
		BaseFee: new(big.Int).SetUint64(uint64(vU32("baseFee"))), QuaiStateSize: big.NewInt(1 << 20), PrimeTerminusNumber: params.SelfDestructRefundForkBlock + 1,
		GasLimit: 1 << 40}
	return vm.NewEVM(bctx, vm.TxContext{}, st, &params.ChainConfig{Location: qiLoc, ChainID: big.NewInt(9000)}, vm.Config{}, nil)
}

// H-C02-a: executing a Quai transaction never creates value (accounting of TransitionDb around an
// arbitrary top-level frame, see stubEvmCall). Sender S (arbitrary balance and nonce), recipient R
// (existing contract-free account), arbitrary nonce, gas limit, gas price, value and one byte of data.
// When the transaction is accepted (no consensus error): the sum of all balances afterwards equals
// the sum before minus gasUsed*gasPrice minus the value carried away by emitted ETXs; the payer's
// charge is exactly gasUsed*price with intrinsic <= gasUsed <= gasLimit; no balance is negative; the
// nonce advanced by one; a failed execution changes no balance but the payer's; the gas pool ends
// with exactly the unused gas returned; the result's ETX list is the frame's ETX list and the cache
// is reset.
//
// verif:stub (*core/vm.EVM).Call => stubEvmCall
func VerifH_C02_a() {
	st := newRealStateCore()
	var s, r common.InternalAddress
	s[19], r[19] = 0x51, 0x52
	balS, balR := vBigN("senderBalance", 128), vBigN("recipientBalance", 128)
	nonce := uint64(vU32("senderNonce"))
	st.AddBalance(s, balS)
	st.SetNonce(s, nonce)
	st.AddBalance(r, balR)
	st.SetNonce(r, 1)
	evm := newTransitionEVM(st)
	to := common.Bytes20ToAddress(r, qiLoc)
	gasLimit, gasPrice, value := vU64("gasLimit"), vBigN("gasPrice", 64), vBigN("value", 96)
	msg := types.NewMessage(common.Bytes20ToAddress(s, qiLoc), &to, uint64(vU32("txNonce")), value, gasLimit, gasPrice, vBytes("data", 1), nil, false)
	gp0 := vU64("gasPool")
	gp := new(types.GasPool).AddGas(gp0)
	frameEtxTag = ""
	total0 := new(big.Int).Add(balS, balR)

	res, err := ApplyMessage(evm, msg, gp)

	vReach("applied")
	if err != nil {
		vReach("consensus-error")
		return
	}
	vReach("accepted")
	etxOut := new(big.Int)
	for _, e := range res.Etxs {
		etxOut.Add(etxOut, e.Value())
	}
	total1 := new(big.Int).Add(st.GetBalance(s), st.GetBalance(r))
	charge := new(big.Int).Mul(new(big.Int).SetUint64(res.UsedGas), gasPrice)
	vAssert("conservation/sum-after-equals-before-minus-charge-minus-etx", new(big.Int).Add(total1, new(big.Int).Add(charge, etxOut)).Cmp(total0) == 0)
	vAssert("gas/used-within-limit", res.UsedGas <= gasLimit && res.UsedGas >= params.TxGas)
	vAssert("gas/pool-returns-unused", uint64(*gp) == gp0-res.UsedGas)
	vAssert("balance/non-negative", st.GetBalance(s).Sign() >= 0 && st.GetBalance(r).Sign() >= 0)
	vAssert("nonce/advanced-once", st.GetNonce(s) == nonce+1 && msg.Nonce() == nonce)
	vAssert("price/at-least-base-fee", gasPrice.Cmp(evm.Context.BaseFee) >= 0)
	if res.Err != nil {
		vReach("execution-failed")
		vAssert("failed/only-payer-changed", st.GetBalance(r).Cmp(balR) == 0 && len(res.Etxs) == 0)
		vAssert("failed/payer-charged-exactly-gas", new(big.Int).Sub(balS, st.GetBalance(s)).Cmp(charge) == 0)
	} else {
		vAssert("ok/recipient-credited-value-minus-its-etx", new(big.Int).Add(st.GetBalance(r), etxOut).Cmp(new(big.Int).Add(balR, value)) == 0)
	}
	vAssert("etx/cache-reset-after-hand-over", len(evm.ETXCache) == 0)
}

// H-C05-f: the outbound set handed to a transaction's receipt is exactly what its own execution
// recorded, also after later transactions have run on the same EVM (the processor reuses one EVM per
// block): two transactions are applied in sequence, each frame may emit an ETX; the first result's
// ETX list is unchanged by the second transaction.
//
// verif:stub (*core/vm.EVM).Call => stubEvmCall
func VerifH_C05_f() {
	st := newRealStateCore()
	var s, r common.InternalAddress
	s[19], r[19] = 0x51, 0x52
	st.AddBalance(s, new(big.Int).Lsh(big.NewInt(1), 100))
	st.AddBalance(r, new(big.Int).Lsh(big.NewInt(1), 100))
	st.SetNonce(r, 1)
	evm := newTransitionEVM(st)
	to := common.Bytes20ToAddress(r, qiLoc)
	from := common.Bytes20ToAddress(s, qiLoc)
	gp := new(types.GasPool).AddGas(1 << 40)
	price := new(big.Int).Set(evm.Context.BaseFee)
	frameEtxTag = "1"
	res1, err1 := ApplyMessage(evm, types.NewMessage(from, &to, 0, big.NewInt(5), 100000, price, nil, nil, false), gp)
	vAssume(err1 == nil && res1.Err == nil)
	n1 := len(res1.Etxs)
	var first *types.Transaction
	if n1 > 0 {
		first = res1.Etxs[0]
	}
	evm.Reset(vm.TxContext{}, st)
	frameEtxTag = "2"
	res2, err2 := ApplyMessage(evm, types.NewMessage(from, &to, 1, big.NewInt(7), 100000, price, nil, nil, false), gp)
	vAssume(err2 == nil && res2.Err == nil)
	vReach("two-transactions")
	vAssert("handover/first-result-length-stable", len(res1.Etxs) == n1)
	if n1 > 0 {
		vAssert("handover/first-result-content-stable", res1.Etxs[0] == first)
		if len(res2.Etxs) > 0 {
			vAssert("handover/results-do-not-share-entries", res2.Etxs[0] != first)
		}
	}
}
