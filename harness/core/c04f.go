//go:build verif

package core

import (
	lru "github.com/hashicorp/golang-lru/v2"

	"github.com/dominant-strategies/go-quai/common"
	"github.com/dominant-strategies/go-quai/core/rawdb"
	"github.com/dominant-strategies/go-quai/core/types"
)

var sfCtx int
var sfFetched []common.Hash

func stubSfNodeCtx(hc *HeaderChain) int { return sfCtx }

// H-C04-f: the rollup a dominant chain builds for one of its blocks (HeaderChain.CollectSubRollup, region and
// prime context) contains the outbound ETXs of every subordinate block named in the block's manifest, each
// once, in manifest order — or the call fails. Manifest of 1..3 entries; for each entry the pending ETXs
// (region) / pending rollup (prime) are either known (in the cache or in the database, carrying 0..1 ETX) or
// not yet received: the result is an error exactly when some entry is unknown (and the missing data has been
// requested from the subordinate); otherwise it is the concatenation in manifest order. An entry that is
// unknown is never silently skipped.
//
// verif:stub (*core.HeaderChain).NodeCtx => stubSfNodeCtx
// verif:stub (*core/types.WorkObject).Hash => stubWoHash
func VerifH_C04_f() {
	sfCtx = common.REGION_CTX
	prime := vBool("primeContext")
	if prime {
		sfCtx = common.PRIME_CTX
	}
	db := rawdb.NewMemoryDatabase(nil)
	pe, _ := lru.New[common.Hash, types.PendingEtxs](8)
	pr, _ := lru.New[common.Hash, types.PendingEtxsRollup](8)
	sfFetched = nil
	hc := &HeaderChain{headerDb: db, pendingEtxs: pe, pendingEtxsRollup: pr}
	hc.fetchPEtx = func(blockHash common.Hash, hash common.Hash, location common.Location) (types.PendingEtxs, error) {
		sfFetched = append(sfFetched, hash)
		return types.PendingEtxs{}, ErrPendingEtxNotFound
	}
	hc.fetchPEtxRollup = func(blockHash common.Hash, hash common.Hash, location common.Location) (types.PendingEtxsRollup, error) {
		sfFetched = append(sfFetched, hash)
		return types.PendingEtxsRollup{}, ErrPendingEtxRollupNotFound
	}

	n := 1 + vLen("manifestEntriesMinus1", 2)
	manifest := types.BlockManifest{}
	var want types.Transactions
	anyMissing := false
	firstMissing := common.Hash{}
	for i := 0; i < n; i++ {
		var h common.Hash
		h[0], h[31] = 0xA0, byte(i+1)
		manifest = append(manifest, h)
		known := vBool([]string{"entry0Known", "entry1Known", "entry2Known"}[i])
		if !known {
			if !anyMissing {
				firstMissing = h
			}
			anyMissing = true
			continue
		}
		etxs := types.Transactions{}
		if vBool([]string{"entry0HasEtx", "entry1HasEtx", "entry2HasEtx"}[i]) {
			etxs = append(etxs, rcEtx(i, 1))
		}
		want = append(want, etxs...)
		hdr := types.EmptyWorkObject(common.ZONE_CTX)
		if prime {
			pr.Add(h, types.PendingEtxsRollup{Header: hdr, EtxsRollup: etxs})
		} else {
			pe.Add(h, types.PendingEtxs{Header: hdr, OutboundEtxs: etxs})
		}
	}
	b := types.EmptyWorkObject(sfCtx)
	b.WorkObjectHeader().SetLocation(common.Location{0, 1})
	b.Body().SetManifest(manifest)

	got, err := hc.CollectSubRollup(b)
	vReach("collected")
	vAssert("rollup/fails-iff-some-manifest-entry-is-unknown", (err != nil) == anyMissing)
	if err != nil {
		vReach("missing")
		vAssert("rollup/missing-entry-requested-from-sub", len(sfFetched) >= 1 && sfFetched[0] == firstMissing)
		return
	}
	vReach("complete")
	vAssert("rollup/every-entry-once-in-manifest-order", sameTxList(got, want))
	vAssert("rollup/nothing-requested-when-complete", len(sfFetched) == 0)
}
