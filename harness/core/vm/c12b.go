//go:build verif

package vm

import (
	"encoding/binary"
	"math/big"

	"github.com/dominant-strategies/go-quai/common"
	"github.com/dominant-strategies/go-quai/core/rawdb"
	"github.com/dominant-strategies/go-quai/core/types"
	"github.com/dominant-strategies/go-quai/params"
)

// frameScript: what the (stubbed) bytecode of the called frame does before it ends.
var frameEVM *EVM
var frameSelf common.Address
var frameClaimInput []byte
var frameClaimed bool

// stubInterpreterRun stands for "any bytecode": the frame optionally emits an ETX (debit + cache
// append, as the ETX / CONVERT opcodes and CreateETX do), optionally claims a coinbase lockup through
// the real ClaimCoinbaseLockup, and then ends with success, REVERT or another error.
func stubInterpreterRun(in *EVMInterpreter, contract *Contract, input []byte, readOnly bool) ([]byte, error) {
	evm := frameEVM
	if vBool("frameEmitsEtx") {
		self, _ := frameSelf.InternalAndQuaiAddress()
		v := vBigN("frameEtxValue", 64)
		if evm.StateDB.GetBalance(self).Cmp(v) >= 0 {
			evm.StateDB.SubBalance(self, v)
			to := modelAddr(0x01, 0x00, 0x77)
			evm.ETXCache = append(evm.ETXCache, types.NewTx(&types.ExternalTx{Value: v, To: &to, Sender: frameSelf, ETXIndex: uint16(len(evm.ETXCache)), Gas: 21000}))
		}
	}
	if frameClaimInput != nil && vBool("frameClaimsLockup") {
		gas := uint64(1 << 30)
		if err := ClaimCoinbaseLockup(evm, frameSelf, &gas, frameClaimInput); err == nil {
			frameClaimed = true
		}
	}
	switch vLen("frameEnd", 2) {
	case 0:
		return nil, nil
	case 1:
		return nil, ErrExecutionReverted
	default:
		return nil, ErrOutOfGas
	}
}

// H-C12-b: a call frame that fails or reverts leaves no trace in the EVM-side state: for each call
// kind (CALL, CALLCODE, DELEGATECALL) around an arbitrary frame (see stubInterpreterRun), if the
// real evm.Call/CallCode/DelegateCall reports an error then balances, the pending outbound ETX
// list, the lockup-deletion lists and the lockup record as read through (batch, db) are exactly as
// before the call; ETXs queued by earlier successful frames are untouched.
//
// verif:stub (*core/vm.EVMInterpreter).Run => stubInterpreterRun
// verif:stub core/types.CoinbaseLockupHash => stubLockupHash
// verif:bounds bigbits=72
func VerifH_C12_b() {
	InitializePrecompiles(vLoc)
	db := newModelDB()
	st := newModelState(db)
	self := modelAddr(0x00, 0x00, 0x01) // the calling contract; owner of the lockup
	lib := modelAddr(0x00, 0x00, 0x02)  // the callee (has code)
	selfInt, _ := self.InternalAndQuaiAddress()
	libInt, _ := lib.InternalAndQuaiAddress()
	bal0 := vBigN("balance", 128)
	st.bal[selfInt], st.exist[selfInt] = new(big.Int).Set(bal0), true
	st.bal[libInt], st.exist[libInt] = new(big.Int), true
	st.code[libInt] = []byte{0x00}
	st.code[selfInt] = []byte{0x00}
	evm := newOpcodeEVM(st, true)
	evm.interpreter = &EVMInterpreter{evm: evm}
	evm.Context.BlockNumber = new(big.Int).SetUint64(uint64(vU32("blockNumber32")))
	vAssume(len(evm.ETXCache) <= 1)
	// an ETX queued by an earlier successful sibling frame
	var earlier *types.Transaction
	if len(evm.ETXCache) == 1 {
		to := modelAddr(0x01, 0x00, 0x66)
		earlier = types.NewTx(&types.ExternalTx{Value: big.NewInt(5), To: &to, Sender: self, Gas: 21000})
		evm.ETXCache[0] = earlier
	}
	// a claimable lockup record owned by `self`, committed in the database
	miner := modelAddr(0x00, 0x00, 0x22)
	lockupByte, epoch := byte(1), uint32(0)
	recBal := vBigN("lockupBalance", 16)
	tranche := vU32("tranche")
	vAssume(tranche != 0)
	if _, err := rawdb.WriteCoinbaseLockup(db, self, miner, lockupByte, epoch, recBal, tranche, 3, common.Zero); err != nil {
		vAssume(false)
	}
	input := make([]byte, 53)
	copy(input[:20], miner.Bytes())
	copy(input[20:40], modelAddr(0x00, 0x00, 0x33).Bytes())
	input[40] = lockupByte
	binary.BigEndian.PutUint32(input[41:45], epoch)
	binary.BigEndian.PutUint64(input[45:53], 21000)
	frameEVM, frameSelf, frameClaimInput, frameClaimed = evm, self, input, false
	kind := vLen("callKind", 2)
	n0, h0 := len(evm.ETXCache), len(evm.CoinbaseDeletedHashes)

	var err error
	switch kind {
	case 0:
		vFact("kind", "CALL")
		_, _, _, err = evm.Call(AccountRef(self), lib, nil, 1<<30, new(big.Int))
		
	case 1:
		vFact("kind", "CALLCODE")
		_, _, err = evm.CallCode(AccountRef(self), lib, nil, 1<<30, new(big.Int))
	default:
		vFact("kind", "DELEGATECALL")
		parent := NewContract(AccountRef(modelAddr(0x00, 0x00, 0x09)), AccountRef(self), new(big.Int), 1<<30)
		_, _, err = evm.DelegateCall(parent, lib, nil, 1<<30)
	}
	vReach("returned")
	if err == nil {
		vReach("frame-succeeded")
		return
	}
	vReach("frame-failed")
	vAssert("revert/balance", st.GetBalance(selfInt).Cmp(bal0) == 0)
	vAssert("revert/pending-etxs", len(evm.ETXCache) == n0 && (n0 == 0 || evm.ETXCache[0] == earlier))
	vAssert("revert/lockup-deletion-lists", len(evm.CoinbaseDeletedHashes) == h0 && len(evm.CoinbasesDeleted) == 0)
	if frameClaimed {
		vFact("frame", "claimed-lockup")
	}
	b, tr, el, _ := rawdb.ReadCoinbaseLockup(db, evm.Batch, self, miner, lockupByte, epoch)
	vAssert("revert/lockup-record-still-claimable", tr == tranche && el == 3 && b.Cmp(recBal) == 0)
}

var _ = params.TxGas
