//go:build verif

package vm

import (
	"math/big"

	"github.com/dominant-strategies/go-quai/common"
	"github.com/dominant-strategies/go-quai/params"
	"github.com/holiman/uint256"
)

var c02Child common.Address

var c02Grinding bool
var c02GrindAfter int

// CREATE2 derives the child address directly; under CREATE the same function is the grinding
// oracle: attempts below c02GrindAfter give an address outside the zone, the next one an in-zone one.
func stubCreateAddress2(b common.Address, salt [32]byte, inithash []byte, nodeLocation common.Location) common.Address {
	if !c02Grinding {
		return c02Child
	}
	if int(salt[23]) < c02GrindAfter {
		return modelAddr(0x01, 0x00, 0x43)
	}
	c02Child = modelAddr(0x00, 0x00, 0x42)
	return c02Child
}
func stubCreateAddress(b common.Address, nonce uint64, code []byte, nodeLocation common.Location) common.Address {
	return c02Child
}

// H-C02-d: contract creation never creates value. The real EVM.Create2 and EVM.Create (with the real
// create(), snapshot/revert and interpreter) are called by a contract with an arbitrary balance, an
// arbitrary endowment, arbitrary gas, a derived child address that is or is not an in-zone Quai
// address, in the access list or not, already holding an arbitrary balance or not, with init code
// that is empty, returns empty code, reverts, or is invalid. Afterwards: no balance is negative;
// creator + child balances add up to what they were; on any error every balance is unchanged; on
// success the child gained exactly the endowment, the creator lost exactly the endowment, and the
// endowment did not exceed the creator's balance.
//
// verif:stub crypto.CreateAddress2 => stubCreateAddress2
// verif:stub crypto.CreateAddress => stubCreateAddress
// verif:bounds decisions=400 paths=20000
func VerifH_C02_d() {
	InitializePrecompiles(vLoc)
	db := newModelDB()
	st := newModelState(db)
	creator := modelAddr(0x00, 0x00, 0x41)
	creatorInt, _ := creator.InternalAndQuaiAddress()
	c02Child = modelAddr(vU8("childZone"), vU8("childLedger"), 0x42)
	bC := vBigN("creatorBalance", 64)
	st.AddBalance(creatorInt, bC)
	st.SetNonce(creatorInt, uint64(vU16("creatorNonce")))
	bA := new(big.Int)
	childInt, cerr := c02Child.InternalAndQuaiAddress()
	if cerr == nil && vBool("childPrefunded") {
		bA = vBigN("childBalance", 64)
		st.AddBalance(childInt, bA)
	}
	if vBool("childInAccessList") {
		st.AddAddressToAccessList(c02Child.Bytes20())
	}
	cfg := &params.ChainConfig{Location: vLoc, ChainID: big.NewInt(9000)}
	evm := NewEVM(BlockContext{BlockNumber: new(big.Int).SetUint64(params.MaxCodeSizeForkHeight + 10), QuaiStateSize: big.NewInt(1000000), PrimeTerminusNumber: params.SelfDestructRefundForkBlock + 1,
		CanTransfer: modelCanTransfer, Transfer: modelTransfer, BaseFee: big.NewInt(1), GasLimit: 1 << 30}, TxContext{GasPrice: big.NewInt(1)}, st, cfg, Config{}, nil)
	var code []byte
	switch vLen("initCode", 3) {
	case 0:
		vFact("init", "empty")
	case 1:
		vFact("init", "returns-empty-code")
		code = []byte{byte(PUSH1), 0, byte(PUSH1), 0, byte(RETURN)}
	case 2:
		vFact("init", "reverts")
		code = []byte{byte(PUSH1), 0, byte(PUSH1), 0, byte(REVERT)}
	default:
		vFact("init", "invalid-opcode")
		code = []byte{0xfe}
	}
	endowment := vBigN("endowment", 64)
	gas := uint64(vU32("gas"))
	var err error
	c02Grinding = false
	if vBool("create2") {
		vFact("op", "CREATE2")
		_, _, _, _, err = evm.Create2(AccountRef(creator), code, gas, endowment, uint256.NewInt(uint64(vU8("salt"))))
	} else {
		vFact("op", "CREATE")
		c02Grinding = true
		c02GrindAfter = vLen("grindAttemptsBeforeSuccess", 2)
		_, _, _, _, err = evm.Create(AccountRef(creator), code, gas, endowment)
	}
	vReach("returned")
	nowC := st.GetBalance(creatorInt)
	nowA := new(big.Int)
	if finalInt, ferr := c02Child.InternalAndQuaiAddress(); ferr == nil {
		nowA = st.GetBalance(finalInt)
		if finalInt != childInt || cerr != nil {
			bA = new(big.Int) // the grinded address was not prefunded
		}
	}
	vAssert("create/no-negative-balance", nowC.Sign() >= 0 && nowA.Sign() >= 0)
	vAssert("create/value-conserved", new(big.Int).Add(nowC, nowA).Cmp(new(big.Int).Add(bC, bA)) == 0)
	if err != nil {
		vAssert("create/failure-moves-nothing", nowC.Cmp(bC) == 0 && nowA.Cmp(bA) == 0)
	} else {
		vReach("created")
		vAssert("create/endowment-affordable", endowment.Cmp(bC) <= 0)
		vAssert("create/exact-transfer", nowC.Cmp(new(big.Int).Sub(bC, endowment)) == 0 && nowA.Cmp(new(big.Int).Add(bA, endowment)) == 0)
	}
}
