//go:build verif

package vm

import (
	"math/big"

	"github.com/dominant-strategies/go-quai/params"
)

var c15MemOps = []OpCode{MLOAD, MSTORE, MSTORE8, SHA3, RETURN, REVERT, CALLDATACOPY, CODECOPY, LOG0, MCOPY, RETURNDATACOPY}

// H-C15-e: the real interpreter loop (EVMInterpreter.Run) never crashes on a memory instruction,
// whatever its operands. Program: PUSH32 c, PUSH32 b, PUSH32 a, OP for OP in {MLOAD, MSTORE, MSTORE8,
// KECCAK256, RETURN, REVERT, CALLDATACOPY, CODECOPY, LOG0, MCOPY, RETURNDATACOPY} with arbitrary
// 256-bit operands (as many as OP pops) and an arbitrary gas allowance up to 120 (so that any memory
// that is actually bought stays small; operands are unconstrained, including offsets and lengths in
// the last bytes below 2^64 and beyond): Run returns a result or an error, it does not panic, and it
// never hands back more gas than it was given.
//
// Quick tier (this harness: MLOAD, MSTORE8, RETURN; H-C15-e3: MCOPY): every operand is drawn from one of five families — below 40;
// within 64 of 2^64 from below; 2^64 plus less than 64; 2^255 plus less than 64 (negative as a signed word); within 64 of 2^256
// from below — independently per operand. Thorough tier (H-C15-e2): every operand an arbitrary 256-bit value.
//
// verif:bounds decisions=600 split=160 paths=40000
func VerifH_C15_e() { c15RunMemOp(false) }

// H-C15-e2: as H-C15-e with every operand an arbitrary 256-bit value.
//
// verif:tier thorough
// verif:bounds decisions=600 split=160 paths=400000 budget=60m qtimeout=30s
func VerifH_C15_e2() { c15RunMemOp(true) }

func c15Operand(tag string, full bool) []byte {
	if c15Coarse {
		return c15OperandCoarse(tag)
	}
	if full {
		return vBytes(tag, 32)
	}
	b := make([]byte, 32)
	d := vU8(tag+"Delta") % 64
	switch vLen(tag+"Family", 4) {
	case 0:
		vFact(tag, "small")
		b[31] = vU8(tag+"Lo") % 40
	case 1:
		vFact(tag, "just-below-2^64")
		for i := 24; i < 32; i++ {
			b[i] = 0xff
		}
		b[31] = 0xff - d
	case 2:
		vFact(tag, "just-above-2^64")
		b[23], b[31] = 1, d
	case 3:
		vFact(tag, "just-above-2^255") // negative when read as a signed word
		b[0], b[31] = 0x80, d
	default:
		vFact(tag, "just-below-2^256")
		for i := range b {
			b[i] = 0xff
		}
		b[31] = 0xff - d
	}
	return b
}

// H-C15-e3: as H-C15-e for MCOPY (each of the three operands one of 0, 1, 33, 2^255, 2^255+33, 2^256-1): the region the copy touches is
// the region the interpreter sized and charged, whichever operand is the larger and however it reads as a
// signed number.
//
// verif:bounds decisions=600 split=160 paths=40000
func VerifH_C15_e3() { c15Coarse = true; c15RunMemOpOf(false, []OpCode{MCOPY}) }

var c15Coarse bool

// c15OperandCoarse: 0, 1, 33 | 2^255, 2^255+33 | 2^256-1
func c15OperandCoarse(tag string) []byte {
	b := make([]byte, 32)
	switch vLen(tag+"Choice", 5) {
	case 0:
	case 1:
		b[31] = 1
	case 2:
		b[31] = 33
	case 3:
		b[0] = 0x80
	case 4:
		b[0], b[31] = 0x80, 33
	default:
		for i := range b {
			b[i] = 0xff
		}
	}
	return b
}

func c15RunMemOp(full bool) {
	c15Coarse = false
	ops := c15MemOps
	if !full {
		ops = []OpCode{MLOAD, MSTORE8, RETURN}
	}
	c15RunMemOpOf(full, ops)
}

func c15RunMemOpOf(full bool, ops []OpCode) {
	InitializePrecompiles(vLoc)
	op := ops[vLen("opcode", len(ops)-1)]
	vFact("opcode", op.String())
	db := newModelDB()
	st := newModelState(db)
	self := modelAddr(0x00, 0x00, 0x01)
	cfg := &params.ChainConfig{Location: vLoc, ChainID: big.NewInt(9000)}
	evm := NewEVM(BlockContext{BlockNumber: new(big.Int).SetUint64(params.MaxCodeSizeForkHeight + 10), QuaiStateSize: big.NewInt(1000000), PrimeTerminusNumber: params.SelfDestructRefundForkBlock + 1,
		CanTransfer: modelCanTransfer, Transfer: modelTransfer, BaseFee: big.NewInt(1), GasLimit: 1 << 30}, TxContext{GasPrice: big.NewInt(1)}, st, cfg, Config{}, nil)
	operation := evm.interpreter.cfg.JumpTable[op]
	vAssume(operation != nil)
	var code []byte
	for i := operation.minStack - 1; i >= 0; i-- {
		code = append(code, byte(PUSH32))
		code = append(code, c15Operand(stackTags[i], full)...)
	}
	code = append(code, byte(op))
	gas := uint64(vU8("gas"))
	vAssume(gas <= 120)
	contract := NewContract(AccountRef(self), AccountRef(self), new(big.Int), gas)
	contract.Code = code
	vReach("program-built")
	_, err := evm.interpreter.Run(contract, []byte{1, 2, 3}, false)
	vReach("returned")
	vAssert("gas/never-more-than-given", contract.Gas <= gas)
	_ = err
}
