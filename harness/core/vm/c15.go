//go:build verif

package vm

import (
	"math/big"

	"github.com/dominant-strategies/go-quai/params"
	"github.com/holiman/uint256"
)

var stackTags = []string{"s0", "s1", "s2", "s3", "s4", "s5", "s6", "s7", "s8", "s9", "s10", "s11"}

// H-C15-d: interpreter memory grows only through operations that are charged the expansion cost.
// For every entry of the instruction set that declares a memory size function, with arbitrary
// uint256 stack operands and an empty memory: run the real memorySize and the real dynamicGas
// exactly as the interpreter loop does; if the step would proceed (no overflow, no gas error) and
// asks for N > 0 bytes of memory, the dynamic gas it charges is at least memoryGasCost(N).
// An entry without a dynamic gas function must never ask for memory.
// Quick tier: every stack operand below 2^20 (all purchasable memory sizes); thorough: full range.
//
// verif:bounds decisions=300 split=256
func VerifH_C15_d() {
	memoryMeteringHarness(20)
}

// H-C15-d2: the same with stack operands over the full uint256 range (overflow exits included).
//
// verif:bounds decisions=300 split=256
// verif:tier thorough
func VerifH_C15_d2() {
	memoryMeteringHarness(256)
}

func memoryMeteringHarness(operandBits int) {
	InitializePrecompiles(vLoc)
	idx := vLen("opcode", 255)
	operation := instructionSet[idx]
	vAssume(operation != nil && operation.memorySize != nil)
	vFact("opcode", OpCode(idx).String())
	vReach("entry-with-memory-size")
	db := newModelDB()
	st := newModelState(db)
	self := modelAddr(0x00, 0x00, 0x01)
	evm := &EVM{StateDB: st, chainConfig: &params.ChainConfig{Location: vLoc},
		Context: BlockContext{BlockNumber: new(big.Int).SetUint64(vU64("blockNumber")), QuaiStateSize: big.NewInt(1000000),
			PrimeTerminusNumber: vU64("primeTerminusNumber"), CanTransfer: modelCanTransfer, Transfer: modelTransfer}}
	evm.callGasTemp = 0
	contract := &Contract{self: AccountRef(self), CallerAddress: self, Gas: vU64("gasAvailable")}
	stack := newstack()
	for i := 0; i < operation.minStack; i++ {
		x := vU256(stackTags[operation.minStack-1-i])
		if operandBits < 256 {
			vAssume(x.LtUint64(uint64(1) << uint(operandBits)))
		}
		stack.push(x)
	}
	memSize, overflow := operation.memorySize(stack)
	if overflow {
		return
	}
	words := (memSize + 31) / 32
	if memSize > 0xffffffffffffffe0 || words > 0x7ffffffffffffff {
		return // toWordSize / SafeMul overflow: the loop returns ErrGasUintOverflow
	}
	need := words * 32
	if operation.dynamicGas == nil {
		vReach("no-dynamic-gas")
		vAssert("memory/unmetered-entry-asks-no-memory", need == 0)
		return
	}
	mem := NewMemory()
	cost, _, err := operation.dynamicGas(evm, contract, stack, mem, need)
	if err != nil {
		return
	}
	vReach("dynamic-gas-ok")
	want, _, werr := memoryGasCost(NewMemory(), need)
	vAssert("memory/expansion-size-accepted", werr == nil)
	vAssert("memory/expansion-charged", cost >= want)
}

var _ = uint256.NewInt
