//go:build verif

package vm

import (
	"bytes"
	"encoding/binary"
	"math/big"

	"github.com/dominant-strategies/go-quai/common"
	"github.com/dominant-strategies/go-quai/core/rawdb"
	"github.com/dominant-strategies/go-quai/params"
	"github.com/sirupsen/logrus"
)

func addrBig(a common.Address) *big.Int { return new(big.Int).SetBytes(a.Bytes()) }

// stubLockupHash replaces types.CoinbaseLockupHash (reflection-based RLP + keccak): an
// uninterpreted function of all eight fields.
func stubLockupHash(ownerContract common.Address, beneficiaryMiner common.Address, delegate common.Address, lockupByte byte, epoch uint32, balance *big.Int, unlockHeight uint32, elements uint16) common.Hash {
	return common.Hash(vUF32("lockupHash", addrBig(ownerContract), addrBig(beneficiaryMiner), addrBig(delegate),
		big.NewInt(int64(lockupByte)), big.NewInt(int64(epoch)), balance, big.NewInt(int64(unlockHeight)), big.NewInt(int64(elements))))
}

type lockRec struct {
	exists   bool
	balance  *big.Int
	tranche  uint32
	elements uint16
	delegate common.Address
}

// vLockRec: an arbitrary stored lockup record (or none). Balance below 2^balBits.
func vLockRec(balBits int, delegates []common.Address) lockRec {
	r := lockRec{exists: vBool("recExists"), balance: new(big.Int), delegate: common.Zero}
	if r.exists {
		r.balance = vBigN("recBalance", balBits)
		r.tranche = vU32("recTranche")
		r.elements = vU16("recElements")
		vAssume(r.tranche != 0) // the writer never stores tranche 0 (ReadCoinbaseLockup treats it as absent)
		r.delegate = delegates[vLen("recDelegate", len(delegates)-1)]
	}
	return r
}

func decodeLockRec(data []byte, loc common.Location) lockRec {
	r := lockRec{exists: true}
	r.balance = new(big.Int).SetBytes(data[:32])
	r.tranche = binary.BigEndian.Uint32(data[32:36])
	r.elements = binary.BigEndian.Uint16(data[36:38])
	r.delegate = common.Zero
	if len(data) == 58 {
		r.delegate = common.BytesToAddress(data[38:], loc)
	}
	return r
}

// H-C10-b / H-C13-b: AddNewLock on an arbitrary existing record (or none), arbitrary value,
// lockup byte, epoch, unlock height, and old/new delegate chosen independently:
//  * accumulation: balance' = balance + value, elements' = elements + 1, tranche fixed once created
//    (epoch aligned at creation), stored under the (contract, miner, lockup byte, epoch) key;
//  * non-positive value, wrong sender, non-internal or Qi-ledger owner are rejected with no write;
//  * undo data: when a record existed, `oldLockupData` is byte-identical to the record that was
//    stored before the call (it is what a reorg writes back), and `deleted` says so.
//
// verif:stub core/types.CoinbaseLockupHash => stubLockupHash
// verif:bounds bigbits=72
func VerifH_C10_b() {
	db := newModelDB()
	st := newModelState(db)
	batch := db.NewBatch()
	batch.SetPending(true)
	owner := modelAddr(0x00, 0x00, 0x11)
	miner := modelAddr(0x00, 0x00, 0x22)
	delegates := []common.Address{common.Zero, modelAddr(0x00, 0x00, 0x33), modelAddr(0x00, 0x00, 0x44)}
	lockupByte := vU8("lockupByte")
	epoch := vU32("epoch")
	old := vLockRec(16, delegates)
	var oldBytes []byte
	if old.exists {
		if _, err := rawdb.WriteCoinbaseLockup(db, owner, miner, lockupByte, epoch, old.balance, old.tranche, old.elements, old.delegate); err != nil {
			vAssume(false)
		}
		oldBytes, _ = db.Get(rawdb.CoinbaseLockupKey(owner, miner, lockupByte, epoch))
	}
	newDelegate := delegates[vLen("newDelegate", len(delegates)-1)]
	value := vBigN("value", 16)
	if vBool("valueNegative") {
		value = new(big.Int).Neg(value)
	}
	unlockHeight := vU64("unlockHeight")
	sender := common.OneInternal(vLoc)
	if vBool("wrongSender") {
		sender = modelInternal(0x77)
	}
	vAssume(old.elements < 65535) // uint16 element counter: 65536 accumulations in one tranche are outside the claim

	deleted, oldData, key, oldHash, newHash, err := AddNewLock(st, batch, owner, miner, newDelegate, sender, lockupByte, unlockHeight, epoch, value, vLoc, logrus.New(), common.Hash{}, true)
	vReach("returned")
	_, data := batch.GetPending(rawdb.CoinbaseLockupKey(owner, miner, lockupByte, epoch))
	if err != nil {
		vReach("rejected")
		vAssert("lock/rejected-writes-nothing", data == nil)
		return
	}
	vReach("accepted")
	vAssert("lock/value-positive", value.Sign() > 0)
	vAssert("lock/sender-is-protocol", sender == common.OneInternal(vLoc))
	vAssert("lock/key", bytes.Equal(key, rawdb.CoinbaseLockupKey(owner, miner, lockupByte, epoch)))
	vAssert("lock/record-written", data != nil)
	got := decodeLockRec(data, vLoc)
	vAssert("lock/balance-accumulates", got.balance.Cmp(new(big.Int).Add(old.balance, value)) == 0)
	vAssert("lock/delegate-updated", got.delegate.Equal(newDelegate))
	// the two hashes feed the UTXO-set multiset (removed / added): they must describe exactly the
	// record that was stored before and the record that is stored now (C06)
	vAssert("commit/new-hash-is-stored-record", newHash == stubLockupHash(owner, miner, got.delegate, lockupByte, epoch, got.balance, got.tranche, got.elements))
	if old.exists {
		vAssert("commit/old-hash-is-previous-record", oldHash == stubLockupHash(owner, miner, old.delegate, lockupByte, epoch, old.balance, old.tranche, old.elements))
	} else {
		vAssert("commit/old-hash-zero-when-created", oldHash == (common.Hash{}))
	}
	if old.exists {
		vFact("pre", "record-exists")
		vAssert("lock/elements-plus-one", got.elements == old.elements+1)
		vAssert("lock/tranche-fixed", got.tranche == old.tranche)
		vAssert("lock/tranche-not-after-unlock", uint64(old.tranche) <= unlockHeight)
		vAssert("undo/deleted-flag", deleted)
		vAssert("undo/old-data-is-stored-record", bytes.Equal(oldData, oldBytes))
	} else {
		vFact("pre", "no-record")
		vAssert("lock/elements-one", got.elements == 1)
		vAssert("lock/tranche-epoch-aligned", got.tranche == uint32(unlockHeight-unlockHeight%params.CoinbaseEpochBlocks))
		vAssert("undo/created-flag", !deleted && oldData == nil)
	}
}
