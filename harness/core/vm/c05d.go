//go:build verif

package vm

import (
	"encoding/binary"
	"math/big"

	"github.com/dominant-strategies/go-quai/common"
	"github.com/dominant-strategies/go-quai/core/types"
	"github.com/dominant-strategies/go-quai/params"
)

func unwrapInput(beneficiary common.Address, value *big.Int, gasLimit uint64) []byte {
	in := make([]byte, 60)
	copy(in[:20], beneficiary.Bytes())
	value.FillBytes(in[20:52])
	binary.BigEndian.PutUint64(in[52:60], gasLimit)
	return in
}

// H-C05-d: unwrapping wrapped Qi is all-or-nothing and exact, also when it happens more than once in
// a transaction. An owner contract holds an arbitrary wrapped-Qi balance (committed before the
// transaction); inside one transaction the real UnwrapQi is called twice with arbitrary amounts,
// beneficiaries (Qi or not, in zone or not), ETX gas limits and available gas, each call followed by
// what evm.Call does on an error (revert to the frame's snapshot). Then: a successful call debits the
// wrapped balance by exactly its amount and appends exactly one UnwrapQi ETX carrying that amount
// to that beneficiary with a fresh index; a failed call changes neither the balance nor the ETX
// list; the balance never goes below zero; altogether, the value carried by emitted ETXs equals
// what was debited.
//
// verif:bounds qtimeout=40s
func VerifH_C05_d() {
	InitializePrecompiles(vLoc)
	db := newModelDB()
	st := newModelState(db)
	owner := modelAddr(0x00, 0x00, 0x21)
	ownerInt, _ := owner.InternalAndQuaiAddress()
	lockup := LockupContractAddresses[[2]byte{vLoc[0], vLoc[1]}]
	lockupInt, _ := lockup.InternalAndQuaiAddress()
	slot := common.BytesToHash(ownerInt[:])
	b0 := vBigN("wrappedBalance", 64)
	st.SetState(lockupInt, slot, common.BigToHash(b0))
	st.beginTx()
	evm := &EVM{StateDB: st, chainConfig: &params.ChainConfig{Location: vLoc}, ETXCache: make([]*types.Transaction, 0)}
	bal := new(big.Int).Set(b0)
	emitted := new(big.Int)
	for i := 0; i < 2; i++ {
		t := "call" + string(rune('A'+i))
		ben := common.BytesToAddress(vBytes(t+"Beneficiary", 20), vLoc)
		amount := vBigN(t+"Amount", 64)
		etxGas := uint64(vU32(t + "EtxGas"))
		gas := uint64(vU32(t + "Gas"))
		gas0 := gas
		n0 := len(evm.ETXCache)
		snap := st.Snapshot()
		err := UnwrapQi(evm, owner, &gas, unwrapInput(ben, amount, etxGas))
		if err != nil {
			st.RevertToSnapshot(snap)
			evm.ETXCache = evm.ETXCache[:n0]
		}
		now := st.GetState(lockupInt, slot).Big()
		if err == nil {
			vReach("unwrapped")
			vAssert("unwrap/needs-enough-wrapped-balance", amount.Cmp(bal) <= 0)
			bal.Sub(bal, amount)
			vAssert("unwrap/debited-exactly", now.Cmp(bal) == 0)
			vAssert("unwrap/exactly-one-etx", len(evm.ETXCache) == n0+1)
			if len(evm.ETXCache) == n0+1 {
				e := evm.ETXCache[n0]
				vAssert("unwrap/etx-carries-the-amount", e.Value().Cmp(amount) == 0)
				vAssert("unwrap/etx-goes-to-the-beneficiary", e.To().Bytes20() == ben.Bytes20())
				vAssert("unwrap/etx-type-index-gas", e.EtxType() == types.UnwrapQiType && int(e.ETXIndex()) == n0 && e.Gas() == etxGas)
				emitted.Add(emitted, e.Value())
			}
			_, qerr := ben.InternalAndQiAddress()
			vAssert("unwrap/beneficiary-is-in-zone-qi-address", qerr == nil)
			vAssert("unwrap/gas-charged", gas == gas0-etxGas && gas0 >= etxGas)
		} else {
			vAssert("unwrap/failure-changes-nothing", now.Cmp(bal) == 0 && len(evm.ETXCache) == n0)
		}
	}
	vReach("done")
	vAssert("unwrap/emitted-equals-debited", new(big.Int).Add(st.GetState(lockupInt, slot).Big(), emitted).Cmp(b0) == 0)
}
