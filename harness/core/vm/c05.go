//go:build verif

package vm

import (
	"errors"
	"math/big"

	"github.com/dominant-strategies/go-quai/common"
	"github.com/dominant-strategies/go-quai/core/types"
	"github.com/dominant-strategies/go-quai/params"
	"github.com/holiman/uint256"
)

// Environment stubs for the opcode harnesses.

// stubGetPtr: memory contents are an arbitrary short byte string (memory bounds and metering are
// C15's obligation; symbolic offsets into a real Memory would only case-split offset x size).
func stubGetPtr(m *Memory, offset, size int64) []byte {
	if size == 0 {
		return nil
	}
	return vBytes("mem", vLen("memLen", 2))
}

// stubRlpDecode: the access-list blob decodes or does not (reflection-based RLP is outside the engine).
var lastRlpFails, lastEligible bool

func stubRlpDecode(b []byte, val interface{}) error {
	lastRlpFails = vBool("rlpDecodeFails")
	if lastRlpFails {
		return errors.New("rlp: decode error")
	}
	return nil
}

func modelCanTransfer(db StateDB, addr common.Address, amount *big.Int) bool {
	ia, err := addr.InternalAndQuaiAddress()
	if err != nil {
		return false
	}
	return db.GetBalance(ia).Cmp(amount) >= 0
}

func modelTransfer(db StateDB, sender, recipient common.Address, amount *big.Int) error {
	is, err := sender.InternalAndQuaiAddress()
	if err != nil {
		return err
	}
	ir, err := recipient.InternalAndQuaiAddress()
	if err != nil {
		return err
	}
	db.SubBalance(is, amount)
	db.AddBalance(ir, amount)
	return nil
}

// newOpcodeEVM builds an EVM around a model state; the ETX cache has a symbolic length chosen
// among {0, 1, 65535, 65536} (the index-overflow boundary).
func newOpcodeEVM(st *modelState, regimeAfterFork bool) *EVM {
	evm := &EVM{StateDB: st, chainConfig: &params.ChainConfig{Location: vLoc},
		Context: BlockContext{
			PrimeTerminusNumber: vU64("primeTerminusNumber"),
			BlockNumber:         new(big.Int).SetUint64(vU64("blockNumber")),
			CanTransfer:         modelCanTransfer,
			Transfer:            modelTransfer,
			CheckIfEtxEligible: func(common.Hash, common.Location) bool {
				lastEligible = vBool("etxEligible")
				return lastEligible
			},
		},
		CoinbasesDeleted: make(map[[47]byte][]byte),
		Batch:            st.db.NewBatch(),
	}
	evm.Batch.SetPending(true)
	if regimeAfterFork {
		vAssume(evm.Context.PrimeTerminusNumber >= params.SelfDestructRefundForkBlock)
	} else {
		vAssume(evm.Context.PrimeTerminusNumber < params.SelfDestructRefundForkBlock)
	}
	lens := []int{0, 1, 65535, 65536}
	evm.ETXCache = make([]*types.Transaction, lens[vLen("etxCacheLenChoice", 3)])
	return evm
}

func opETXHarness(regimeAfterFork bool) {
	db := newModelDB()
	st := newModelState(db)
	self := modelAddr(0x00, 0x00, 0x01) // in-zone Quai-ledger contract
	selfInt, _ := self.InternalAndQuaiAddress()
	bal0 := vBigN("balance", 256)
	st.bal[selfInt] = new(big.Int).Set(bal0)
	st.exist[selfInt] = true
	evm := newOpcodeEVM(st, regimeAfterFork)
	stack := newstack()
	// push order is the reverse of pop order in opETX
	alSize, alOff, inSize, inOff := vU256("accessListSize"), vU256("accessListOffset"), vU256("inSize"), vU256("inOffset")
	feeCap, tip, gasLimit, value, addr, temp := vU256("gasFeeCap"), vU256("gasTipCap"), vU256("etxGasLimit"), vU256("value"), vU256("toAddr"), vU256("temp")
	for _, v := range []*uint256.Int{alSize, alOff, inSize, inOff, feeCap, tip, gasLimit, value, addr, temp} {
		stack.push(v)
	}
	scope := &ScopeContext{Memory: NewMemory(), Stack: stack, Contract: &Contract{self: AccountRef(self), CallerAddress: self}}
	h0, n0 := stack.len(), len(evm.ETXCache)
	pc := uint64(0)

	_, err := opETX(&pc, &EVMInterpreter{evm: evm}, scope)

	vReach("returned")
	vAssert("op/no-go-error", err == nil)
	debit := new(big.Int).Sub(bal0, st.GetBalance(selfInt))
	// Which exit was taken, for exits that happen after the debit (derived from the environment's
	// own choices, in the order the opcode tests them).
	if debit.Sign() != 0 {
		switch {
		case lastRlpFails && alSize.Sign() != 0:
			vFact("exit", "accesslist-decode")
		case n0 > 65535:
			vFact("exit", "cache-overflow")
		case !lastEligible:
			vFact("exit", "ineligible")
		default:
			vFact("exit", "completed")
		}
	} else {
		vFact("exit", "before-debit")
	}
	if stack.len() != h0-10+1 {
		vAssert("op/stack-height", false)
		return
	}
	status := stack.peek()
	if status.IsZero() {
		vReach("failure-reported")
		vAssert("all-or-nothing/failure-no-debit", debit.Sign() == 0)
		vAssert("all-or-nothing/failure-no-etx", len(evm.ETXCache) == n0)
	} else {
		vReach("success-reported")
		fee := new(big.Int).Add(tip.ToBig(), feeCap.ToBig())
		fee.Mul(fee, gasLimit.ToBig())
		want := new(big.Int).Add(value.ToBig(), fee)
		vAssert("all-or-nothing/success-exact-debit", debit.Cmp(want) == 0)
		vAssert("all-or-nothing/success-one-etx", len(evm.ETXCache) == n0+1)
		if len(evm.ETXCache) == n0+1 {
			etx := evm.ETXCache[n0]
			vAssert("etx/carries-value", etx.Value().Cmp(value.ToBig()) == 0)
			vAssert("etx/fresh-index", int(etx.ETXIndex()) == n0)
			vAssert("etx/gas", etx.Gas() == gasLimit.Uint64() && gasLimit.IsUint64())
			vAssert("etx/not-in-scope", !common.IsInChainScope(etx.To().Bytes(), vLoc))
		}
		vAssert("balance/non-negative", st.GetBalance(selfInt).Sign() >= 0)
	}
}

// H-C05-a: opETX after SelfDestructRefundForkBlock — all-or-nothing at the origin for all stack
// operands (uint256), balances, ETX-cache lengths {0,1,65535,65536}, malformed access-list blobs
// and ineligible destinations.
//
// verif:stub (*core/vm.Memory).GetPtr => stubGetPtr
// verif:stub rlp.DecodeBytes => stubRlpDecode
func VerifH_C05_a() {
	vFact("regime", "post-fork")
	opETXHarness(true)
}

// H-C05-a0: the same before the fork (historic regime kept for replaying old blocks).
//
// verif:stub (*core/vm.Memory).GetPtr => stubGetPtr
// verif:stub rlp.DecodeBytes => stubRlpDecode
func VerifH_C05_a0() {
	vFact("regime", "pre-fork")
	opETXHarness(false)
}

func opConvertHarness(regimeAfterFork bool) {
	db := newModelDB()
	st := newModelState(db)
	self := modelAddr(0x00, 0x00, 0x01)
	selfInt, _ := self.InternalAndQuaiAddress()
	bal0 := vBigN("balance", 256)
	st.bal[selfInt] = new(big.Int).Set(bal0)
	st.exist[selfInt] = true
	evm := newOpcodeEVM(st, regimeAfterFork)
	evm.GasPrice = vBigN("gasPrice", 260)
	stack := newstack()
	gasLimit, value, addr, temp := vU256("etxGasLimit"), vU256("value"), vU256("toAddr"), vU256("temp")
	for _, v := range []*uint256.Int{gasLimit, value, addr, temp} {
		stack.push(v)
	}
	scope := &ScopeContext{Memory: NewMemory(), Stack: stack, Contract: &Contract{self: AccountRef(self), CallerAddress: self}}
	h0, n0 := stack.len(), len(evm.ETXCache)
	pc := uint64(0)

	_, err := opConvert(&pc, &EVMInterpreter{evm: evm}, scope)

	vReach("returned")
	vAssert("op/no-go-error", err == nil)
	debit := new(big.Int).Sub(bal0, st.GetBalance(selfInt))
	if debit.Sign() != 0 {
		if n0 > 65535 {
			vFact("exit", "cache-overflow")
		} else {
			vFact("exit", "completed")
		}
	} else {
		vFact("exit", "before-debit")
	}
	if stack.len() != h0-4+1 {
		vAssert("op/stack-height", false)
		return
	}
	status := stack.peek()
	if status.IsZero() {
		vReach("failure-reported")
		vAssert("all-or-nothing/failure-no-debit", debit.Sign() == 0)
		vAssert("all-or-nothing/failure-no-etx", len(evm.ETXCache) == n0)
	} else {
		vReach("success-reported")
		want := new(big.Int).Mul(evm.GasPrice, gasLimit.ToBig())
		want.Add(want, value.ToBig())
		vAssert("all-or-nothing/success-exact-debit", debit.Cmp(want) == 0)
		vAssert("all-or-nothing/success-one-etx", len(evm.ETXCache) == n0+1)
		if len(evm.ETXCache) == n0+1 {
			etx := evm.ETXCache[n0]
			vAssert("etx/carries-value", etx.Value().Cmp(value.ToBig()) == 0)
			vAssert("etx/fresh-index", int(etx.ETXIndex()) == n0)
			vAssert("etx/is-conversion", etx.EtxType() == types.ConversionType)
			vAssert("etx/to-in-zone-qi", common.IsInChainScope(etx.To().Bytes(), vLoc) && etx.To().IsInQiLedgerScope())
			vAssert("convert/min-amount", value.ToBig().Cmp(params.MinQuaiConversionAmount) >= 0)
		}
		vAssert("balance/non-negative", st.GetBalance(selfInt).Sign() >= 0)
	}
}

// H-C05-b: opConvert (Quai->Qi conversion opcode) after the fork: all-or-nothing at the origin.
func VerifH_C05_b() {
	vFact("regime", "post-fork")
	opConvertHarness(true)
}

// H-C05-b0: the same before the fork (historic regime).
//
func VerifH_C05_b0() {
	vFact("regime", "pre-fork")
	opConvertHarness(false)
}

// H-C05-c: a plain call whose target is not an in-zone Quai account (another zone's Quai address:
// cross-chain send; an in-zone Qi address: conversion) through the real evm.Call -> CreateETX with
// the real snapshot/revert handling: success => the caller is debited exactly `value`, exactly one
// ETX with a fresh index carries it and takes all remaining gas; failure => balance and ETX cache
// as before the call.
func VerifH_C05_c() {
	InitializePrecompiles(vLoc)
	db := newModelDB()
	st := newModelState(db)
	self := modelAddr(0x00, 0x00, 0x01)
	selfInt, _ := self.InternalAndQuaiAddress()
	bal0 := vBigN("balance", 256)
	st.bal[selfInt] = new(big.Int).Set(bal0)
	st.exist[selfInt] = true
	evm := newOpcodeEVM(st, true)
	var to common.Address
	switch vLen("targetKind", 3) {
	case 0:
		vFact("target", "other-zone-quai")
		to = modelAddr(0x01, 0x00, 0x55)
	case 1:
		vFact("target", "in-zone-qi")
		to = modelAddr(0x00, 0x80, 0x55)
	case 2:
		vFact("target", "other-zone-qi")
		to = modelAddr(0x01, 0x80, 0x55)
	default:
		vFact("target", "other-region-quai")
		to = modelAddr(0x10, 0x00, 0x55)
	}
	gas := vU64("gas")
	value := vBigN("value", 256)
	n0 := len(evm.ETXCache)
	input := vBytes("input", vLen("inputLen", 1))

	_, leftOver, _, err := evm.Call(AccountRef(self), to, input, gas, value)

	vReach("returned")
	debit := new(big.Int).Sub(bal0, st.GetBalance(selfInt))
	if err != nil {
		vReach("failure-reported")
		vAssert("all-or-nothing/failure-no-debit", debit.Sign() == 0)
		vAssert("all-or-nothing/failure-no-etx", len(evm.ETXCache) == n0)
		return
	}
	vReach("success-reported")
	vAssert("all-or-nothing/success-exact-debit", debit.Cmp(value) == 0)
	vAssert("all-or-nothing/success-one-etx", len(evm.ETXCache) == n0+1)
	vAssert("gas/all-goes-to-etx", leftOver == 0)
	if len(evm.ETXCache) == n0+1 {
		etx := evm.ETXCache[n0]
		vAssert("etx/carries-value", etx.Value().Cmp(value) == 0)
		vAssert("etx/fresh-index", int(etx.ETXIndex()) == n0)
		vAssert("etx/gas", etx.Gas() == gas-params.ETXGas && gas >= params.ETXGas+params.TxGas)
		vAssert("etx/to", etx.To().Equal(to))
		inZoneQi := common.IsInChainScope(to.Bytes(), vLoc) && to.IsInQiLedgerScope()
		vAssert("etx/conversion-iff-in-zone-qi", (etx.EtxType() == types.ConversionType) == inZoneQi)
		if inZoneQi {
			vAssert("convert/min-amount", value.Cmp(params.MinQuaiConversionAmount) >= 0)
		}
	}
	vAssert("balance/non-negative", st.GetBalance(selfInt).Sign() >= 0)
}
