//go:build verif

package vm

import (
	"math/big"

	"github.com/dominant-strategies/go-quai/common"
	"github.com/dominant-strategies/go-quai/core/rawdb"
	"github.com/dominant-strategies/go-quai/core/state"
	"github.com/dominant-strategies/go-quai/params"
	"github.com/holiman/uint256"
)

// newRealState: the real core/state.StateDB over in-memory databases (empty tries).
func newRealState() *state.StateDB {
	db := state.NewDatabase(rawdb.NewMemoryDatabase(nil))
	etxDb := state.NewDatabase(rawdb.NewMemoryDatabase(nil))
	s, err := state.New(common.Hash{}, common.Hash{}, big.NewInt(0), db, etxDb, nil, vLoc, nil)
	if err != nil {
		panic("state.New failed")
	}
	return s
}

// H-C02-c: SELFDESTRUCT never duplicates value, also when the same contract self-destructs twice in
// one transaction with value sent to it in between (real opSuicide over the real StateDB): the sum
// of the three balances afterwards equals the sum before plus the protocol's state-rent refund,
// granted once per account after SelfDestructRefundForkBlock (once per SELFDESTRUCT before it).
// verif:replay native
func VerifH_C02_c() {
	st := newRealState()
	c, b, s := modelInternal(0x0c), modelInternal(0x0b), modelInternal(0x05)
	balC, balB, balS := vBigN("contractBalance", 128), vBigN("beneficiaryBalance", 128), vBigN("senderBalance", 128)
	st.AddBalance(c, balC)
	st.SetNonce(c, 1)
	st.AddBalance(b, balB)
	st.AddBalance(s, balS)
	st.AddAddressToAccessList(c.Bytes20())
	st.AddAddressToAccessList(b.Bytes20())
	evm := &EVM{StateDB: st, chainConfig: &params.ChainConfig{Location: vLoc},
		Context: BlockContext{PrimeTerminusNumber: vU64("primeTerminusNumber"), BaseFee: vBigN("baseFee", 64), QuaiStateSize: big.NewInt(1000000),
			CanTransfer: modelCanTransfer, Transfer: modelTransfer}}
	contract := &Contract{self: AccountRef(common.Bytes20ToAddress(c, vLoc))}
	interp := &EVMInterpreter{evm: evm}
	selfdestruct := func() error {
		stack := newstack()
		stack.push(new(uint256.Int).SetBytes(b[:]))
		pc := uint64(0)
		_, err := opSuicide(&pc, interp, &ScopeContext{Memory: NewMemory(), Stack: stack, Contract: contract})
		return err
	}
	total0 := new(big.Int).Add(balC, new(big.Int).Add(balB, balS))
	refund := new(big.Int).Mul(evm.Context.BaseFee, new(big.Int).SetUint64(params.CallNewAccountGas(evm.Context.QuaiStateSize)))

	vAssert("selfdestruct/first-ok", selfdestruct() == nil)
	vAssert("selfdestruct/contract-emptied", st.GetBalance(c).Sign() == 0 && st.HasSuicided(c))
	v := vBigN("valueSentAfterwards", 128)
	vAssume(v.Cmp(balS) <= 0)
	vAssert("transfer/ok", modelTransfer(st, common.Bytes20ToAddress(s, vLoc), common.Bytes20ToAddress(c, vLoc), v) == nil)
	vAssert("selfdestruct/second-ok", selfdestruct() == nil)
	vReach("twice")

	total1 := new(big.Int).Add(st.GetBalance(c), new(big.Int).Add(st.GetBalance(b), st.GetBalance(s)))
	credited := new(big.Int).Sub(total1, total0)
	vDebug("total0", total0)
	vDebug("total1", total1)
	vDebug("refund", refund)
	vDebug("balB", st.GetBalance(b))
	vDebug("balC", st.GetBalance(c))
	vDebug("suicided", st.HasSuicided(c))
	if evm.Context.PrimeTerminusNumber >= params.SelfDestructRefundForkBlock {
		vFact("regime", "post-fork")
		vAssert("conservation/only-one-refund-created", credited.Cmp(refund) == 0)
	} else {
		vFact("regime", "pre-fork")
		vAssert("conservation/only-refunds-created", credited.Cmp(new(big.Int).Mul(refund, big.NewInt(2))) == 0)
	}
	vAssert("selfdestruct/contract-emptied-again", st.GetBalance(c).Sign() == 0)
}

// H-C02-f: a SELFDESTRUCT inside a frame that is later reverted creates nothing. The real opSuicide over the
// real StateDB between Snapshot and RevertToSnapshot (the enclosing frame or the whole transaction failing),
// arbitrary balances, base fee and fork regime, beneficiary existing or not, optionally a second
// self-destruct of the same contract in the reverted frame: afterwards every balance is exactly what it was
// before, the contract is not marked destroyed, and a later committed self-destruct pays exactly
// balance + one refund.
func VerifH_C02_f() {
	st := newRealState()
	c, b := modelInternal(0x0c), modelInternal(0x0b)
	balC, balB := vBigN("contractBalance", 128), vBigN("beneficiaryBalance", 128)
	st.AddBalance(c, balC)
	st.SetNonce(c, 1)
	if vBool("beneficiaryExists") {
		st.AddBalance(b, balB)
	} else {
		balB = new(big.Int)
	}
	st.AddAddressToAccessList(c.Bytes20())
	st.AddAddressToAccessList(b.Bytes20())
	evm := &EVM{StateDB: st, chainConfig: &params.ChainConfig{Location: vLoc},
		Context: BlockContext{PrimeTerminusNumber: vU64("primeTerminusNumber"), BaseFee: vBigN("baseFee", 64), QuaiStateSize: big.NewInt(1000000),
			CanTransfer: modelCanTransfer, Transfer: modelTransfer}}
	contract := &Contract{self: AccountRef(common.Bytes20ToAddress(c, vLoc))}
	interp := &EVMInterpreter{evm: evm}
	selfdestruct := func() error {
		stack := newstack()
		stack.push(new(uint256.Int).SetBytes(b[:]))
		pc := uint64(0)
		_, err := opSuicide(&pc, interp, &ScopeContext{Memory: NewMemory(), Stack: stack, Contract: contract})
		return err
	}
	refund := new(big.Int).Mul(evm.Context.BaseFee, new(big.Int).SetUint64(params.CallNewAccountGas(evm.Context.QuaiStateSize)))
	c0, b0 := new(big.Int).Set(st.GetBalance(c)), new(big.Int).Set(st.GetBalance(b))

	snap := st.Snapshot()
	vAssert("selfdestruct/ok", selfdestruct() == nil)
	if vBool("twiceInTheRevertedFrame") {
		vAssert("selfdestruct/second-ok", selfdestruct() == nil)
	}
	st.RevertToSnapshot(snap)
	vReach("reverted")
	vAssert("revert/contract-balance-restored", st.GetBalance(c).Cmp(c0) == 0)
	vAssert("revert/beneficiary-balance-restored", st.GetBalance(b).Cmp(b0) == 0)
	vAssert("revert/contract-not-destroyed", !st.HasSuicided(c))

	vAssert("selfdestruct/committed-ok", selfdestruct() == nil)
	vReach("committed")
	vAssert("commit/contract-emptied", st.GetBalance(c).Sign() == 0 && st.HasSuicided(c))
	vAssert("commit/beneficiary-gets-balance-plus-one-refund", st.GetBalance(b).Cmp(new(big.Int).Add(new(big.Int).Add(b0, c0), refund)) == 0)
}
