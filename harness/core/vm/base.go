//go:build verif

package vm

import (
	"math/big"

	"github.com/dominant-strategies/go-quai/common"
	"github.com/dominant-strategies/go-quai/core/types"
	"github.com/dominant-strategies/go-quai/ethdb"
	"github.com/dominant-strategies/go-quai/ethdb/memorydb"
	"github.com/dominant-strategies/go-quai/log"
)

// ---- environment models shared by the core/vm harnesses ----

var vLoc = common.Location{0, 0}

// modelAddr builds a concrete 20-byte address: first byte = zone prefix of loc (or another zone),
// second byte selects the ledger, last byte distinguishes accounts.
func modelAddr(zonePrefix byte, ledgerByte byte, id byte) common.Address {
	var b [20]byte
	b[0], b[1], b[19] = zonePrefix, ledgerByte, id
	return common.Bytes20ToAddress(b, vLoc)
}

func modelInternal(id byte) common.InternalAddress {
	a, err := modelAddr(0x00, 0x00, id).InternalAddress()
	if err != nil {
		panic("modelInternal: not internal")
	}
	return a
}

// modelDB: a key-value store with the node's location (the real engines carry it; memorydb's own
// Location() is nil), backed by the real memorydb implementation.
type modelDB struct {
	*memorydb.Database
	loc common.Location
}

func (d *modelDB) Location() common.Location { return d.loc }

func newModelDB() *modelDB { return &modelDB{memorydb.New(nil), vLoc} }

type modelLogEntry struct{ addr common.InternalAddress }

// modelState implements vm.StateDB over explicit maps. Only balances, nonces, existence, code,
// storage, refund, logs and snapshots are modelled; snapshot/revert copies the maps (reference
// semantics, not the journal under test in C12).
type modelState struct {
	db        *modelDB
	bal       map[common.InternalAddress]*big.Int
	nonce     map[common.InternalAddress]uint64
	exist     map[common.InternalAddress]bool
	code      map[common.InternalAddress][]byte
	storage   map[common.InternalAddress]map[common.Hash]common.Hash
	committed map[common.InternalAddress]map[common.Hash]common.Hash // storage as of the start of the transaction (nil: same as storage)
	suicided  map[common.InternalAddress]bool
	refund    uint64
	logs      []*types.Log
	snaps     []*modelState
	accessAdr map[common.AddressBytes]bool
}

func newModelState(db *modelDB) *modelState {
	return &modelState{db: db,
		bal: map[common.InternalAddress]*big.Int{}, nonce: map[common.InternalAddress]uint64{},
		exist: map[common.InternalAddress]bool{}, code: map[common.InternalAddress][]byte{},
		storage: map[common.InternalAddress]map[common.Hash]common.Hash{}, suicided: map[common.InternalAddress]bool{},
		accessAdr: map[common.AddressBytes]bool{}}
}

func (s *modelState) clone() *modelState {
	c := newModelState(s.db)
	c.committed = s.committed
	for k, v := range s.bal {
		c.bal[k] = new(big.Int).Set(v)
	}
	for k, v := range s.nonce {
		c.nonce[k] = v
	}
	for k, v := range s.exist {
		c.exist[k] = v
	}
	for k, v := range s.code {
		c.code[k] = v
	}
	for k, v := range s.suicided {
		c.suicided[k] = v
	}
	for k, m := range s.storage {
		c.storage[k] = map[common.Hash]common.Hash{}
		for kk, vv := range m {
			c.storage[k][kk] = vv
		}
	}
	for k, v := range s.accessAdr {
		c.accessAdr[k] = v
	}
	c.refund = s.refund
	c.logs = append([]*types.Log{}, s.logs...)
	return c
}

func (s *modelState) CreateAccount(a common.InternalAddress) {
	s.exist[a] = true
	if s.bal[a] == nil {
		s.bal[a] = new(big.Int)
	}
}
func (s *modelState) ConfigureAccessListChecks(bool) bool { return false }
func (s *modelState) SubBalance(a common.InternalAddress, v *big.Int) {
	s.exist[a] = true
	s.bal[a] = new(big.Int).Sub(s.GetBalance(a), v)
}
func (s *modelState) AddBalance(a common.InternalAddress, v *big.Int) {
	s.exist[a] = true
	s.bal[a] = new(big.Int).Add(s.GetBalance(a), v)
}
func (s *modelState) GetBalance(a common.InternalAddress) *big.Int {
	if b := s.bal[a]; b != nil {
		return b
	}
	return new(big.Int)
}
func (s *modelState) GetSize(common.InternalAddress) *big.Int      { return new(big.Int) }
func (s *modelState) GetNonce(a common.InternalAddress) uint64      { return s.nonce[a] }
func (s *modelState) SetNonce(a common.InternalAddress, n uint64)   { s.exist[a] = true; s.nonce[a] = n }
func (s *modelState) GetCodeHash(a common.InternalAddress) common.Hash {
	if !s.exist[a] {
		return common.Hash{}
	}
	if len(s.code[a]) == 0 {
		return common.BytesToHash(vUF("codehash", 32, []byte{}))
	}
	return common.BytesToHash(vUF("codehash", 32, s.code[a]))
}
func (s *modelState) GetCode(a common.InternalAddress) []byte     { return s.code[a] }
func (s *modelState) SetCode(a common.InternalAddress, c []byte)  { s.exist[a] = true; s.code[a] = c }
func (s *modelState) GetCodeSize(a common.InternalAddress) int    { return len(s.code[a]) }
func (s *modelState) AddRefund(g uint64)                          { s.refund += g }
func (s *modelState) SubRefund(g uint64) {
	if g > s.refund {
		panic("Refund counter below zero")
	}
	s.refund -= g
}
func (s *modelState) GetRefund() uint64 { return s.refund }
func (s *modelState) GetCommittedState(a common.InternalAddress, k common.Hash) common.Hash {
	if s.committed == nil {
		return s.GetState(a, k)
	}
	if m := s.committed[a]; m != nil {
		return m[k]
	}
	return common.Hash{}
}

// beginTx freezes the current storage as the committed storage of the transaction that starts now.
func (s *modelState) beginTx() {
	s.committed = map[common.InternalAddress]map[common.Hash]common.Hash{}
	for a, m := range s.storage {
		s.committed[a] = map[common.Hash]common.Hash{}
		for k, v := range m {
			s.committed[a][k] = v
		}
	}
}
func (s *modelState) GetState(a common.InternalAddress, k common.Hash) common.Hash {
	if m := s.storage[a]; m != nil {
		return m[k]
	}
	return common.Hash{}
}
func (s *modelState) SetState(a common.InternalAddress, k, v common.Hash) {
	if s.storage[a] == nil {
		s.storage[a] = map[common.Hash]common.Hash{}
	}
	s.storage[a][k] = v
}
func (s *modelState) GetTransientState(addr common.InternalAddress, key common.Hash) common.Hash {
	return common.Hash{}
}
func (s *modelState) SetTransientState(addr common.InternalAddress, key, value common.Hash) {}
func (s *modelState) Suicide(a common.InternalAddress) bool {
	if !s.exist[a] {
		return false
	}
	s.suicided[a] = true
	s.bal[a] = new(big.Int)
	return true
}
func (s *modelState) HasSuicided(a common.InternalAddress) bool { return s.suicided[a] }
func (s *modelState) Exist(a common.InternalAddress) bool       { return s.exist[a] }
func (s *modelState) Empty(a common.InternalAddress) bool {
	return !s.exist[a] || (s.GetBalance(a).Sign() == 0 && s.nonce[a] == 0 && len(s.code[a]) == 0)
}
func (s *modelState) PrepareAccessList(sender common.Address, dest *common.Address, precompiles []common.Address, txAccesses types.AccessList, debug bool) {
}
func (s *modelState) AddressInAccessList(addr common.AddressBytes) bool { return s.accessAdr[addr] }
func (s *modelState) SlotInAccessList(addr common.AddressBytes, slot common.Hash) (bool, bool) {
	return s.accessAdr[addr], false
}
func (s *modelState) AddAddressToAccessList(addr common.AddressBytes)                 { s.accessAdr[addr] = true }
func (s *modelState) AddSlotToAccessList(addr common.AddressBytes, slot common.Hash) { s.accessAdr[addr] = true }
func (s *modelState) RevertToSnapshot(id int) {
	snap := s.snaps[id]
	s.snaps = s.snaps[:id]
	keep := s.snaps
	*s = *snap
	s.snaps = keep
}
func (s *modelState) Snapshot() int {
	s.snaps = append(s.snaps, s.clone())
	return len(s.snaps) - 1
}
func (s *modelState) AddLog(l *types.Log)              { s.logs = append(s.logs, l) }
func (s *modelState) AddPreimage(common.Hash, []byte) {}
func (s *modelState) ForEachStorage(common.InternalAddress, func(common.Hash, common.Hash) bool) error {
	return nil
}
func (s *modelState) UnderlyingDatabase() ethdb.KeyValueReader { return s.db }
func (s *modelState) Finalize(deleteEmptyObjects bool)         {}
func (s *modelState) UpdateKQuai(*big.Int) error               { return nil }
func (s *modelState) GetKQuai() (*big.Int, error)              { return new(big.Int), nil }
func (s *modelState) FreezeKQuai() error                       { return nil }
func (s *modelState) UnFreezeKQuai() error                     { return nil }
func (s *modelState) GetUpdateBit() (byte, error)              { return 0, nil }

var _ StateDB = (*modelState)(nil)
var _ = log.Global
