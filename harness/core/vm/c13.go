//go:build verif

package vm

import (
	"encoding/binary"
	"math/big"

	"github.com/dominant-strategies/go-quai/common"
	"github.com/dominant-strategies/go-quai/core/rawdb"
	"github.com/dominant-strategies/go-quai/core/types"
	"github.com/dominant-strategies/go-quai/params"
)

func claimInput(miner, to common.Address, lockupByte byte, epoch uint32, gas uint64) []byte {
	input := make([]byte, 53)
	copy(input[:20], miner.Bytes())
	copy(input[20:40], to.Bytes())
	input[40] = lockupByte
	binary.BigEndian.PutUint32(input[41:45], epoch)
	binary.BigEndian.PutUint64(input[45:53], gas)
	return input
}

// H-C13-c: a contract-held coinbase lockup can be claimed only by the owning contract, only once
// the tranche is unlocked and its epoch is over, only once, and for exactly the accumulated
// balance, to an address of the ledger the reward was earned in. A record (arbitrary balance < 2^16, tranche height, element count) for (owner, miner,
// lockup byte, epoch) is committed in the database; an arbitrary caller (the owner or another
// contract) claims it at an arbitrary block height through the real ClaimCoinbaseLockup against a
// block batch with pending tracking, and then claims it a second time in the same block.
//
// verif:stub core/types.CoinbaseLockupHash => stubLockupHash
// verif:bounds bigbits=72
func VerifH_C13_c() {
	InitializePrecompiles(vLoc)
	db := newModelDB()
	st := newModelState(db)
	owner := modelAddr(0x00, 0x00, 0x11)
	other := modelAddr(0x00, 0x00, 0x12)
	// miner and recipient each in the Quai or in the Qi ledger (second address byte), independently
	minerLedger, toLedger := byte(0x00), byte(0x00)
	if vBool("minerInQiLedger") {
		minerLedger = 0x80
	}
	if vBool("recipientInQiLedger") {
		toLedger = 0x80
	}
	miner := modelAddr(0x00, minerLedger, 0x22)
	to := modelAddr(0x00, toLedger, 0x33)
	lockupByte, epoch := vU8("lockupByte"), uint32(vU16("epoch"))
	recBal := vBigN("recordBalance", 16)
	tranche, elements := vU32("tranche"), vU16("elements")
	vAssume(tranche != 0)
	if _, err := rawdb.WriteCoinbaseLockup(db, owner, miner, lockupByte, epoch, recBal, tranche, elements, common.Zero); err != nil {
		vAssume(false)
	}
	evm := newOpcodeEVM(st, true)
	vAssume(len(evm.ETXCache) <= 1)
	height := uint64(vU32("blockNumber32"))
	evm.Context.BlockNumber = new(big.Int).SetUint64(height)
	caller := owner
	if vBool("callerIsNotOwner") {
		caller = other
	}
	n0 := len(evm.ETXCache)
	gas := uint64(1 << 30)
	input := claimInput(miner, to, lockupByte, epoch, 21000)

	err := ClaimCoinbaseLockup(evm, caller, &gas, input)

	vReach("first-claim-returned")
	latestEpoch := uint32(height/params.CoinbaseEpochBlocks) + 1
	if err == nil {
		vReach("claimed")
		vAssert("claim/only-owner", caller.Equal(owner))
		vAssert("claim/epoch-over", epoch < latestEpoch)
		vAssert("claim/tranche-unlocked", uint64(tranche) <= height)
		vAssert("claim/has-elements", elements > 0)
		// the tranche is an amount in the miner's ledger unit: it can only be paid out in that ledger
		vAssert("claim/recipient-in-the-miners-ledger", minerLedger == toLedger)
		vAssert("claim/one-etx", len(evm.ETXCache) == n0+1)
		if len(evm.ETXCache) == n0+1 {
			etx := evm.ETXCache[n0]
			vAssert("claim/exact-accumulated-balance", etx.Value().Cmp(recBal) == 0)
			vAssert("claim/etx-type-and-index", etx.EtxType() == types.CoinbaseLockupType && int(etx.ETXIndex()) == n0)
		}
		vAssert("claim/gas-paid", gas == 1<<30-21000)
	} else {
		vAssert("claim/failed-no-etx", len(evm.ETXCache) == n0)
	}
	// second claim of the same tranche in the same block (same batch)
	n1 := len(evm.ETXCache)
	err2 := ClaimCoinbaseLockup(evm, caller, &gas, input)
	if err == nil {
		vAssert("claim/only-once", err2 != nil && len(evm.ETXCache) == n1)
	}
}
