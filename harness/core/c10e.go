//go:build verif

package core

import (
	"github.com/dominant-strategies/go-quai/common"
	"github.com/dominant-strategies/go-quai/core/rawdb"
	"github.com/dominant-strategies/go-quai/core/types"
	"github.com/dominant-strategies/go-quai/ethdb"
	"github.com/dominant-strategies/go-quai/params"
)

type undoRec struct {
	spent       []*types.SpentUtxoEntry
	createdKeys [][]byte
}

var undoByBlock map[common.Hash]*undoRec

func stubReadSpentUTXOsM(db ethdb.Reader, blockHash common.Hash) ([]*types.SpentUtxoEntry, error) {
	if r := undoByBlock[blockHash]; r != nil {
		return r.spent, nil
	}
	return nil, nil
}
func stubReadCreatedUTXOKeysM(db ethdb.Reader, blockHash common.Hash) ([][]byte, error) {
	if r := undoByBlock[blockHash]; r != nil {
		return r.createdKeys, nil
	}
	return nil, nil
}
func stubReadNoSpent(db ethdb.Reader, blockHash common.Hash) ([]*types.SpentUtxoEntry, error) {
	return nil, nil
}
func stubReadNoLockups(db ethdb.Reader, blockHash common.Hash) ([]*rawdb.DeletedCoinbaseLockup, error) {
	return nil, nil
}
func stubReadNoKeys(db ethdb.Reader, blockHash common.Hash) ([][]byte, error) { return nil, nil }
func stubGetBlockOrCandidate(hc *HeaderChain, hash common.Hash, number uint64) *types.WorkObject {
	return reorgHeaders[hash]
}

// H-C10-e: a reorganisation over two blocks leaves exactly the state of the winning branch. Chain
// G <- A1 <- A2 <- A3 (head A3) and a sibling B2 on A1. A2 creates output c2 and spends the old output s0; A3
// spends c2 (an output created on the branch being abandoned) and creates c3. The real SetCurrentHeader(B2)
// rolls A3 and then A2 back with their own undo records and appends B2 (real AppendBlock / BodyDb.Append; B2's
// effects — it creates cB and spends s0 — applied by the processor stub). Afterwards the UTXO entries are
// exactly those of G..A1 plus B2's effects: c2 and c3 are gone (also though A3's rollback re-created c2 on the
// way), s0 is spent again by B2, cB exists; height 2 is B2, height 3 is empty, and the head pointer names B2.
// Outpoints are arbitrary (distinct).
//
// verif:stub (*core/types.WorkObject).Hash => stubWoHash
// verif:stub core/rawdb.FindCommonAncestor => stubFindCommonAncestor
// verif:stub (*core.HeaderChain).GetHeaderByHash => stubHcGetHeaderByHash
// verif:stub (*core.HeaderChain).IsGenesisHash => stubHcIsGenesisHash
// verif:stub (*core.HeaderChain).GetBlockOrCandidate => stubGetBlockOrCandidate
// verif:stub (*core.HeaderChain).NodeCtx => stubHcNodeCtx
// verif:stub core/rawdb.ReadSpentUTXOs => stubReadSpentUTXOsM
// verif:stub core/rawdb.ReadTrimmedUTXOs => stubReadNoSpent
// verif:stub core/rawdb.ReadCreatedUTXOKeys => stubReadCreatedUTXOKeysM
// verif:stub core/rawdb.ReadDeletedCoinbaseLockups => stubReadNoLockups
// verif:stub core/rawdb.ReadCreatedCoinbaseLockupKeys => stubReadNoKeys
// verif:stub core/rawdb.CreateUTXO => stubCreateUTXOForUndo
// verif:stub (*core.StateProcessor).Apply => stubProcessorApply
// verif:stub core/rawdb.WriteTxLookupEntriesByBlock => stubWriteTxLookupEntriesByBlock
func VerifH_C10_e() {
	g := mkWo(0, 0, nil)
	a1 := mkWo(1, 1, g)
	a2 := mkWo(1, 2, a1)
	a3 := mkWo(1, 3, a2)
	b2 := mkWo(2, 2, a1)
	hA1, hA2, hA3, hB2 := stubWoHash(a1), stubWoHash(a2), stubWoHash(a3), stubWoHash(b2)
	reorgHeaders = map[common.Hash]*types.WorkObject{stubWoHash(g): g, hA1: a1, hA2: a2, hA3: a3, hB2: b2}
	reorgCommon = a1
	s0, c2, c3, cB := vOutpoint("s0"), vOutpoint("c2"), vOutpoint("c3"), vOutpoint("cB")
	vAssume(s0 != c2 && s0 != c3 && s0 != cB && c2 != c3 && c2 != cB && c3 != cB)
	kS0, kC2, kC3, kCB := rawdb.UtxoKey(s0.TxHash, s0.Index), rawdb.UtxoKey(c2.TxHash, c2.Index), rawdb.UtxoKey(c3.TxHash, c3.Index), rawdb.UtxoKey(cB.TxHash, cB.Index)
	entry := func(d uint8) *types.UtxoEntry { return &types.UtxoEntry{Denomination: d, Address: make([]byte, 20)} }
	undoByBlock = map[common.Hash]*undoRec{
		hA2: {spent: []*types.SpentUtxoEntry{{OutPoint: s0, UtxoEntry: entry(3)}}, createdKeys: [][]byte{rawdb.UtxoKeyWithDenomination(c2.TxHash, c2.Index, 2)}},
		hA3: {spent: []*types.SpentUtxoEntry{{OutPoint: c2, UtxoEntry: entry(2)}}, createdKeys: [][]byte{rawdb.UtxoKeyWithDenomination(c3.TxHash, c3.Index, 4)}},
	}
	db := rawdb.NewMemoryDatabase(nil)
	cfg := &params.ChainConfig{Location: qiLoc}
	hc := &HeaderChain{headerDb: db, processingState: true, config: cfg}
	hc.bc = &BodyDb{chainConfig: cfg, db: db, slicesRunning: []common.Location{qiLoc}, processor: &StateProcessor{}}
	// state at head A3: s0 spent (A2), c2 created (A2) and spent (A3), c3 created (A3)
	db.Put(kC3, []byte{0xE0, 4})
	rawdb.WriteCanonicalHash(db, hA1, 1)
	rawdb.WriteCanonicalHash(db, hA2, 2)
	rawdb.WriteCanonicalHash(db, hA3, 3)
	rawdb.WriteHeadBlockHash(db, hA3)
	hc.currentHeader.Store(a3)
	applyEffects = []dbOp{{key: kCB, val: []byte{0xE0, 5}}, {key: kS0, del: true}}
	applyFails = false
	has := func(k []byte) bool { v, _ := db.Get(k); return len(v) > 0 }

	vAssert("reorg/ok", hc.SetCurrentHeader(b2) == nil)
	vReach("reorganised")
	vAssert("reorg/outputs-of-the-abandoned-branch-are-gone", !has(kC2) && !has(kC3))
	vAssert("reorg/winning-branch-effects-present", has(kCB) && !has(kS0))
	vAssert("reorg/canonical-chain-is-the-winning-branch", rawdb.ReadCanonicalHash(db, 2) == hB2 && rawdb.ReadCanonicalHash(db, 3) == (common.Hash{}) && rawdb.ReadCanonicalHash(db, 1) == hA1)
	vAssert("reorg/head-names-the-winning-tip", rawdb.ReadHeadBlockHash(db) == hB2)
}
