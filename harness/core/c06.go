//go:build verif

package core

import (
	"math/big"

	"github.com/dominant-strategies/go-quai/common"
	"github.com/dominant-strategies/go-quai/core/rawdb"
	"github.com/dominant-strategies/go-quai/core/types"
	"github.com/dominant-strategies/go-quai/crypto/multiset"
	"github.com/dominant-strategies/go-quai/ethdb"
	"github.com/dominant-strategies/go-quai/params"
)

// The UTXO-set commitment (MuHash) is modelled as the multiset it commits to: element -> count.
var msModel map[common.Hash]int

func stubMultiSetAdd(m multiset.MultiSet, data []byte)    { msModel[common.BytesToHash(data)]++ }
func stubMultiSetRemove(m multiset.MultiSet, data []byte) { msModel[common.BytesToHash(data)]-- }
func stubMultiSetHash(m multiset.MultiSet) common.Hash    { return common.Hash{} }
func stubReadMultiSet(db ethdb.Reader, blockHash common.Hash) *multiset.MultiSet {
	return &multiset.MultiSet{}
}
func stubWriteTrimmedUTXOs(db ethdb.KeyValueWriter, blockHash common.Hash, spentUTXOs []*types.SpentUtxoEntry) error {
	return nil
}

var trimBlockHash common.Hash
var trimCreatedKeys [][]byte

func stubReadCreatedUTXOKeysTrim(db ethdb.Reader, blockHash common.Hash) ([][]byte, error) {
	if blockHash == trimBlockHash {
		return trimCreatedKeys, nil
	}
	return nil, nil
}

var c06Loc = common.Location{0, 1}

func stubHcNodeLocation01(hc *HeaderChain) common.Location { return c06Loc }

func finalizeHarness() {
	msModel = map[common.Hash]int{}
	db := rawdb.NewMemoryDatabase(nil)
	batch := db.NewBatch()
	batch.SetPending(true)
	cfg := &params.ChainConfig{Location: c06Loc}
	hc := &HeaderChain{headerDb: db, processingState: true, config: cfg}
	parent := mkWo(1, 1, nil)
	depth := types.TrimDepths[0]
	height := depth + 7
	header := types.EmptyWorkObject(common.ZONE_CTX)
	header.WorkObjectHeader().SetTime(1)
	header.WorkObjectHeader().SetNumber(new(big.Int).SetUint64(height))
	header.WorkObjectHeader().SetParentHash(stubWoHash(parent))
	header.WorkObjectHeader().SetLocation(c06Loc)
	// the block to trim: canonical at height-depth; it created up to two denomination-0 outputs
	trimBlockHash = common.BytesToHash([]byte{0x7b})
	rawdb.WriteCanonicalHash(db, trimBlockHash, height-depth)
	nOld := vLen("oldOutputs", 2)
	trimCreatedKeys = nil
	var oldHashes []common.Hash
	var oldKeys [][]byte
	var oldLive, oldLocked, oldSpentNow []bool
	var oldEntries []*types.UtxoEntry
	size := uint64(vU16("parentUtxoSetSize"))
	for i := 0; i < nOld; i++ {
		t := []string{"old0", "old1"}[i]
		var h common.Hash
		h[31] = byte(0x10 + i)
		lock := new(big.Int)
		locked := vBool(t + "Locked")
		if locked {
			lock = big.NewInt(5)
		}
		owner := make([]byte, 20)
		owner[19] = vU8(t + "Owner")
		e := &types.UtxoEntry{Denomination: 0, Address: owner, Lock: lock}
		oldEntries = append(oldEntries, e)
		key := rawdb.UtxoKey(h, 0)
		live := vBool(t + "StillUnspent")
		if live {
			rawdb.CreateUTXO(db, h, 0, e)
			msModel[stubUTXOHash(h, 0, e)]++
		}
		trimCreatedKeys = append(trimCreatedKeys, rawdb.UtxoKeyWithDenomination(h, 0, 0))
		oldHashes = append(oldHashes, stubUTXOHash(h, 0, e))
		oldKeys = append(oldKeys, key)
		oldLive = append(oldLive, live)
		oldLocked = append(oldLocked, locked)
		oldSpentNow = append(oldSpentNow, false)
	}
	vAssume(size >= uint64(nOld)+2)
	// this block's own effects
	var create, delete []common.Hash
	nCreate := vLen("blockCreates", 1)
	for i := 0; i < nCreate; i++ {
		create = append(create, common.BytesToHash([]byte{0xc0, byte(i)}))
	}
	// the block may spend one of the old outputs itself (it is then deleted in the batch and listed)
	if nOld > 0 && oldLive[0] && vBool("blockSpendsOld0") {
		oldSpentNow[0] = true
		batch.Delete(oldKeys[0])
		delete = append(delete, oldHashes[0])
		vFact("case", "block-spends-an-output-it-also-trims")
	}
	expect := map[common.Hash]int{}
	for k, v := range msModel {
		expect[k] = v
	}
	supply := new(big.Int)

	_, newSize, trimmed, err := hc.Finalize(batch, header, nil, false, size, create, delete, supply)

	vReach("finalized")
	vAssert("finalize/no-error", err == nil)
	expSize := size + uint64(len(create)) - uint64(len(delete))
	for _, h := range create {
		expect[h]++
	}
	for _, h := range delete {
		expect[h]--
	}
	nTrim := 0
	for i := 0; i < nOld; i++ {
		if oldLive[i] && !oldLocked[i] && !oldSpentNow[i] {
			expect[oldHashes[i]]--
			expSize--
			nTrim++
			// trimmed through the block batch: durable state untouched until the batch commits
			has, _ := db.Has(oldKeys[i])
			del, _ := batch.GetPending(oldKeys[i])
			vAssert("trim/deleted-only-in-block-batch", has && del)
		}
	}
	vAssert("trim/recorded-for-undo", len(trimmed) == nTrim)
	// each undo record is the output that was trimmed: its own outpoint, owner, denomination and lock
	for _, t := range trimmed {
		found := false
		for i := 0; i < nOld; i++ {
			var h common.Hash
			h[31] = byte(0x10 + i)
			if t.TxHash == h && t.Index == 0 {
				found = true
				vAssert("trim/undo-record-is-the-trimmed-output", t.UtxoEntry != nil && string(t.Address) == string(oldEntries[i].Address) && t.Denomination == oldEntries[i].Denomination && t.Lock.Cmp(oldEntries[i].Lock) == 0)
			}
		}
		vAssert("trim/undo-record-names-a-trimmed-outpoint", found)
	}
	vAssert("commitment/set-size", newSize == expSize)
	for k, v := range expect {
		vAssert("commitment/multiset-equals-stored-set", msModel[k] == v)
	}
	for k, v := range msModel {
		vAssert("commitment/multiset-equals-stored-set", expect[k] == v)
	}
}

// H-C06-a: after Finalize the UTXO-set commitment describes exactly the stored set: the multiset is
// the parent's plus this block's created minus its deleted outputs minus the outputs trimmed at this
// height (each once), the set size changes by exactly those counts, and trimming deletes through the
// block batch only. The trimmed block created up to two denomination-0 outputs, each still unspent
// or not, locked or not; the current block creates up to one output and may itself spend one of
// the outputs that are due for trimming. Trim goroutines run at the spawn point.
//
// verif:stub (crypto/multiset.MultiSet).Add => stubMultiSetAdd
// verif:stub (crypto/multiset.MultiSet).Remove => stubMultiSetRemove
// verif:stub (crypto/multiset.MultiSet).Hash => stubMultiSetHash
// verif:stub core/rawdb.ReadMultiSet => stubReadMultiSet
// verif:stub core/rawdb.WriteTrimmedUTXOs => stubWriteTrimmedUTXOs
// verif:stub core/rawdb.ReadCreatedUTXOKeys => stubReadCreatedUTXOKeysTrim
// verif:stub core/types.UTXOHash => stubUTXOHash
// verif:stub (*core/types.WorkObject).Hash => stubWoHash
// verif:stub (*core.HeaderChain).NodeCtx => stubHcNodeCtx
// verif:stub (*core.HeaderChain).NodeLocation => stubHcNodeLocation01
// verif:stub (*core.HeaderChain).IsGenesisHash => stubHcIsGenesisHash
func VerifH_C06_a() { finalizeHarness() }

// H-C06-a2: the same with the trim goroutines started only when Finalize waits for them (the other
// extreme schedule of the fork-join region): the result must not depend on the schedule.
//
// verif:opts defergo
// verif:stub (crypto/multiset.MultiSet).Add => stubMultiSetAdd
// verif:stub (crypto/multiset.MultiSet).Remove => stubMultiSetRemove
// verif:stub (crypto/multiset.MultiSet).Hash => stubMultiSetHash
// verif:stub core/rawdb.ReadMultiSet => stubReadMultiSet
// verif:stub core/rawdb.WriteTrimmedUTXOs => stubWriteTrimmedUTXOs
// verif:stub core/rawdb.ReadCreatedUTXOKeys => stubReadCreatedUTXOKeysTrim
// verif:stub core/types.UTXOHash => stubUTXOHash
// verif:stub (*core/types.WorkObject).Hash => stubWoHash
// verif:stub (*core.HeaderChain).NodeCtx => stubHcNodeCtx
// verif:stub (*core.HeaderChain).NodeLocation => stubHcNodeLocation01
// verif:stub (*core.HeaderChain).IsGenesisHash => stubHcIsGenesisHash
func VerifH_C06_a2() { finalizeHarness() }
