//go:build verif

package core

import (
	"math/big"

	"github.com/dominant-strategies/go-quai/common"
	"github.com/dominant-strategies/go-quai/core/rawdb"
	"github.com/dominant-strategies/go-quai/core/state"
	"github.com/dominant-strategies/go-quai/core/types"
	"github.com/dominant-strategies/go-quai/params"
)

var redeemTargetHeight uint64
var redeemTargetBlock *types.WorkObject

func stubGetBlockByNumber(hc *HeaderChain, number uint64) *types.WorkObject {
	if number == redeemTargetHeight {
		return redeemTargetBlock
	}
	return types.NewWorkObject(&types.WorkObjectHeader{}, &types.WorkObjectBody{}, nil)
}

func stubHcNodeCtx(hc *HeaderChain) int { return common.ZONE_CTX }

func newRealStateCore() *state.StateDB {
	db := state.NewDatabase(rawdb.NewMemoryDatabase(nil))
	etxDb := state.NewDatabase(rawdb.NewMemoryDatabase(nil))
	s, err := state.New(common.Hash{}, common.Hash{}, big.NewInt(0), db, etxDb, nil, qiLoc, nil)
	if err != nil {
		panic("state.New failed")
	}
	return s
}

// H-C13-a: RedeemLockedQuai credits a locked reward or a Qi->Quai conversion exactly at its unlock
// height, once, with the lockup-adjusted amount (less the account-creation fee when the account is
// new, or nothing at all if the amount cannot cover that fee); contract-held lockups are never
// credited automatically. One coinbase or conversion ETX of arbitrary kind, value, lockup byte
// (<= 3: the header lock byte is range-checked by the block validator) sits in the block at
// arbitrary height T; the current block has arbitrary height H; the beneficiary account exists or not.
//
// verif:stub (*core.HeaderChain).GetBlockByNumber => stubGetBlockByNumber
// verif:stub (*core.HeaderChain).NodeCtx => stubHcNodeCtx
func VerifH_C13_a() {
	st := newRealStateCore()
	var a common.InternalAddress
	a[19] = 0x42
	to := common.Bytes20ToAddress(a, qiLoc)
	existed := vBool("accountExists")
	bal0 := new(big.Int)
	if existed {
		bal0 = vBigN("existingBalance", 64)
		vAssume(bal0.Sign() > 0)
		st.AddBalance(a, bal0)
	}
	H := uint64(vU32("currentHeight"))
	T := uint64(vU32("targetHeight"))
	redeemTargetHeight = T
	value := vBigN("etxValue", 64)
	lockupByte := vU8("lockupByte")
	vAssume(int(lockupByte) <= params.MaxLockupByte)
	var etx *types.Transaction
	kind := vLen("etxKind", 3)
	switch kind {
	case 0:
		vFact("etx", "coinbase-plain")
		etx = types.NewTx(&types.ExternalTx{Value: value, To: &to, Sender: to, EtxType: types.CoinbaseType, Data: append([]byte{lockupByte}, make([]byte, 32)...)})
	case 1:
		vFact("etx", "coinbase-contract-held")
		etx = types.NewTx(&types.ExternalTx{Value: value, To: &to, Sender: to, EtxType: types.CoinbaseType, Data: append([]byte{lockupByte}, make([]byte, 52)...)})
	case 2:
		vFact("etx", "conversion")
		etx = types.NewTx(&types.ExternalTx{Value: value, To: &to, Sender: to, EtxType: types.ConversionType})
	default:
		vFact("etx", "plain-transfer")
		etx = types.NewTx(&types.ExternalTx{Value: value, To: &to, Sender: to, EtxType: types.DefaultType})
	}
	body := &types.WorkObjectBody{}
	body.SetTransactions(types.Transactions{etx})
	redeemTargetBlock = types.NewWorkObject(&types.WorkObjectHeader{}, body, nil)
	header := types.EmptyWorkObject(common.ZONE_CTX)
	header.WorkObjectHeader().SetNumber(new(big.Int).SetUint64(H))
	parent := types.EmptyWorkObject(common.ZONE_CTX)
	parent.Header().SetQuaiStateSize(big.NewInt(1 << 20))

	unlocks, err := RedeemLockedQuai(&HeaderChain{}, header, parent, st, nil)

	vReach("returned")
	vAssert("redeem/no-error", err == nil)
	credited := new(big.Int).Sub(st.GetBalance(a), bal0)
	fee := new(big.Int).Mul(new(big.Int).SetUint64(params.CallNewAccountGas(big.NewInt(1<<20))), big.NewInt(params.InitialBaseFee))
	var due bool
	amount := new(big.Int)
	switch kind {
	case 0:
		due = H > params.LockupByteToBlockDepth[lockupByte] && H-T == params.LockupByteToBlockDepth[lockupByte] && T <= H
		amount = params.CalculateCoinbaseValueWithLockup(new(big.Int).Set(value), lockupByte, H)
	case 2:
		due = H > params.ConversionLockPeriod && H-T == params.ConversionLockPeriod && T <= H
		amount = new(big.Int).Set(value)
	}
	if due && !existed {
		if amount.Cmp(fee) >= 0 {
			amount = new(big.Int).Sub(amount, fee)
		} else {
			due = false // cannot cover the account-creation fee: nothing is credited
			vFact("case", "dust-to-new-account")
		}
	}
	if due {
		vReach("unlocked")
		vAssert("redeem/credited-exactly-once", credited.Cmp(amount) == 0 && len(unlocks) == 1)
	} else {
		vAssert("redeem/nothing-credited", credited.Sign() == 0 && len(unlocks) == 0)
		vAssert("redeem/no-account-created", existed || !st.Exist(a))
	}
	vAssert("redeem/etx-value-not-mutated", etx.Value().Cmp(value) == 0)
}
