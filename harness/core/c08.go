//go:build verif

package core

import (
	"errors"
	"math/big"

	"github.com/dominant-strategies/go-quai/common"
	"github.com/dominant-strategies/go-quai/consensus"
	"github.com/dominant-strategies/go-quai/core/types"
	"github.com/dominant-strategies/go-quai/params"
)

// modelEngine is the consensus.Engine environment stub: the PoW function is an arbitrary
// deterministic 32-byte value (or an error) fixed per harness run.
type modelEngine struct {
	hash common.Hash
	err  error
}

func (e *modelEngine) Seal(header *types.WorkObject, results chan<- *types.WorkObject, stop <-chan struct{}) error {
	return nil
}
func (e *modelEngine) ComputePowHash(header *types.WorkObjectHeader) (common.Hash, error) {
	return e.hash, e.err
}
func (e *modelEngine) ComputePowLight(header *types.WorkObjectHeader) (common.Hash, common.Hash) {
	return common.Hash{}, e.hash
}
func (e *modelEngine) SetThreads(threads int) {}

func newModelEngine() *modelEngine {
	e := &modelEngine{hash: common.BytesToHash(vBytes("powHash", 32))}
	if vBool("powErr") {
		e.err = errors.New("pow function failed")
	}
	return e
}

func vHeaderWithDifficulty(diff *big.Int) *types.WorkObjectHeader {
	wh := &types.WorkObjectHeader{}
	wh.SetDifficulty(diff)
	wh.SetNumber(big.NewInt(1))
	wh.SetPrimeTerminusNumber(new(big.Int).SetUint64(vU64("primeTerminusNumber")))
	wh.SetLocation(common.Location{0, 0})
	return wh
}

// H-C08-a: verifySeal accepts exactly when difficulty > 0 and powHash <= floor(2^256/difficulty)
// (normal PoW mode, PoW function an arbitrary 32-byte value); fake modes accept only when
// configured. Difficulty is an arbitrary integer (negative, 0, 1, up to and above 2^256).
func VerifH_C08_a() {
	eng := newModelEngine()
	mode := params.Mode(vU8("powMode"))
	hc := &HeaderChain{powConfig: params.PowConfig{PowMode: mode}, engine: []consensus.Engine{eng}}
	diff := vBig("difficulty")
	wh := vHeaderWithDifficulty(diff)
	h, err := hc.verifySeal(wh)
	vReach("returned")
	if mode == params.ModeFake || mode == params.ModeFullFake {
		vAssert("fake-mode/accepts", err == nil)
		return
	}
	hv := new(big.Int).SetBytes(eng.hash.Bytes())
	// hash <= floor(2^256/diff)  <=>  hash*diff <= 2^256   (diff > 0)
	meets := diff.Sign() > 0 && new(big.Int).Mul(hv, diff).Cmp(common.Big2e256) <= 0
	vAssert("seal/accepted-iff-meets-target", (err == nil) == (meets && eng.err == nil))
	if err == nil {
		vReach("accepted")
		vAssert("seal/returns-pow-hash", h == eng.hash)
	}
}

// H-C08-c: workshare classification before the KawPow fork: Valid => the PoW hash is under the
// share target 2^256/difficulty * 2^WorkSharesThresholdDiff; Sub => under the node's (looser)
// threshold target; the two targets are ordered when the node threshold is the larger exponent.
func VerifH_C08_c() {
	eng := newModelEngine()
	thr := int(vU8("nodeThreshold"))
	hc := &HeaderChain{powConfig: params.PowConfig{PowMode: params.ModeNormal, WorkShareThreshold: thr}, engine: []consensus.Engine{eng}}
	diff := vBig("difficulty")
	vAssume(diff.Sign() > 0)
	wh := vHeaderWithDifficulty(diff)
	vAssume(wh.PrimeTerminusNumber().Uint64() < params.KawPowForkBlock)
	vAssume(thr <= 16)
	res := hc.CheckIfValidWorkShare(wh)
	vReach("classified")
	hv := new(big.Int).SetBytes(eng.hash.Bytes())
	under := func(bits int) bool {
		// hv <= floor(2^256/diff) * 2^bits
		t := new(big.Int).Div(common.Big2e256, diff)
		t.Mul(t, new(big.Int).Lsh(big.NewInt(1), uint(bits)))
		return hv.Cmp(t) <= 0
	}
	switch res {
	case types.Valid:
		vAssert("workshare/valid-under-share-target", eng.err == nil && under(params.WorkSharesThresholdDiff))
	case types.Sub:
		vAssert("workshare/sub-under-node-target", eng.err == nil && thr > 0 && under(thr))
		vAssert("workshare/sub-not-valid", !under(params.WorkSharesThresholdDiff))
	case types.Invalid:
		vAssert("workshare/invalid-under-neither", eng.err != nil || (!under(params.WorkSharesThresholdDiff) && (thr <= 0 || !under(thr))))
	default:
		vAssert("workshare/known-class", false)
	}
}
