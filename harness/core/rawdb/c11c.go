//go:build verif

package rawdb

import (
	"math/big"

	"github.com/dominant-strategies/go-quai/common"
	"github.com/dominant-strategies/go-quai/core/types"
	"github.com/dominant-strategies/go-quai/ethdb"
)

// ownedBatch: a block batch as its owner (block processing / reorg rollback) sees it; the amount of queued
// data it reports is arbitrary (a large block), and it records whether anybody committed or reset it.
type ownedBatch struct {
	ethdb.Batch
	size            int
	commits, resets int
}

func (b *ownedBatch) ValueSize() int { return b.size }
func (b *ownedBatch) Write() error   { b.commits++; return b.Batch.Write() }
func (b *ownedBatch) Reset()         { b.resets++; b.Batch.Reset() }

// H-C11-c: the write batch of a block is committed by its owner only. Block processing and reorg rollback put
// every effect of a block — UTXO creations / deletions, undo records, the address index — into one batch and
// commit it once, which is what makes a block's effects atomic under a crash. The rawdb helpers they hand that
// batch to (CreateUTXO, DeleteUTXO, WriteSpentUTXOs, WriteCreatedUTXOKeys, WriteAddressUTXOs,
// DeleteAddressUTXOsWithBatch with 1..2 addresses) are executed on a batch that reports an arbitrary amount
// of queued data (also far above ethdb.IdealBatchSize): none of them commits or resets it, nothing reaches the
// database before the owner's Write, and afterwards everything is there.
func VerifH_C11_c() {
	db := NewMemoryDatabase(nil)
	b := &ownedBatch{Batch: db.NewBatch(), size: int(vU32("queuedBytesReported"))}
	var h common.Hash
	h[31] = vU8("tx")
	var a1, a2 [20]byte
	a1[19], a2[19] = 0xA1, 0xA2
	op1 := &types.OutpointAndDenomination{TxHash: h, Index: 0, Denomination: 3}
	op2 := &types.OutpointAndDenomination{TxHash: h, Index: 1, Denomination: 4}
	// committed state: both addresses own one indexed output
	vAssert("setup/write-ok", WriteAddressUTXOs(db, db, map[[20]byte][]*types.OutpointAndDenomination{a1: {op1}, a2: {op2}}) == nil)
	before1, _ := ReadAddressUTXOs(db, a1)
	vAssert("setup/read-back", len(before1) == 1)

	entry := types.NewUtxoEntry(&types.TxOut{Denomination: 3, Address: a1[:], Lock: big.NewInt(0)})
	vAssert("helpers/no-error", CreateUTXO(b, h, 2, entry) == nil)
	DeleteUTXO(b, h, 0)
	vAssert("helpers/no-error", WriteSpentUTXOs(b, h, []*types.SpentUtxoEntry{{OutPoint: types.OutPoint{TxHash: h, Index: 0}, UtxoEntry: entry}}) == nil)
	vAssert("helpers/no-error", WriteCreatedUTXOKeys(b, h, [][]byte{UtxoKeyWithDenomination(h, 2, 3)}) == nil)
	op3 := &types.OutpointAndDenomination{TxHash: h, Index: 2, Denomination: 3}
	var a3 [20]byte
	a3[19] = 0xA3
	vAssert("helpers/no-error", WriteAddressUTXOs(b, db, map[[20]byte][]*types.OutpointAndDenomination{a3: {op3}}) == nil)
	remove := map[[20]byte][]*types.OutPoint{a1: {{TxHash: h, Index: 0}}}
	if vBool("twoAddresses") {
		remove[a2] = []*types.OutPoint{{TxHash: h, Index: 1}}
	}
	vAssert("helpers/no-error", DeleteAddressUTXOsWithBatch(b, db, remove) == nil)
	vReach("helpers-ran")
	vAssert("batch/never-committed-by-a-helper", b.commits == 0)
	vAssert("batch/never-reset-by-a-helper", b.resets == 0)
	still1, _ := ReadAddressUTXOs(db, a1)
	vAssert("database/untouched-before-the-owner-commits", len(still1) == 1 && GetUTXO(db, h, 2) == nil)
	vAssert("owner/commit-ok", b.Write() == nil)
	after1, _ := ReadAddressUTXOs(db, a1)
	vAssert("database/everything-there-after-the-owner-commits", len(after1) == 0 && GetUTXO(db, h, 2) != nil)
}
