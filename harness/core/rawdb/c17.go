//go:build verif

package rawdb

import (
	"bytes"

	"github.com/dominant-strategies/go-quai/ethdb"
	"github.com/dominant-strategies/go-quai/log"
)

// refBatch is the reference semantics of ethdb.Batch with pending tracking (an ordered operation
// log); it is the inner batch under the table wrapper.
type refOp struct {
	key, val []byte
	del      bool
}
type refBatch struct {
	ops     []refOp
	pending bool
}

func (b *refBatch) Put(key, value []byte) error {
	b.ops = append(b.ops, refOp{append([]byte{}, key...), append([]byte{}, value...), false})
	return nil
}
func (b *refBatch) Delete(key []byte) error {
	b.ops = append(b.ops, refOp{append([]byte{}, key...), nil, true})
	return nil
}
func (b *refBatch) ValueSize() int                      { return len(b.ops) }
func (b *refBatch) Write() error                        { b.ops, b.pending = nil, false; return nil }
func (b *refBatch) Reset()                              { b.ops, b.pending = nil, false }
func (b *refBatch) Replay(w ethdb.KeyValueWriter) error { return nil }
func (b *refBatch) Logger() *log.Logger                 { return nil }
func (b *refBatch) SetPending(p bool)                   { b.pending = p }
func (b *refBatch) GetPending(key []byte) (bool, []byte) {
	if !b.pending {
		return false, nil
	}
	for i := len(b.ops) - 1; i >= 0; i-- {
		if bytes.Equal(b.ops[i].key, key) {
			if b.ops[i].del {
				return true, nil
			}
			return false, b.ops[i].val
		}
	}
	return false, nil
}

// H-C17-a-table: the rawdb table wrapper's batch reports its own uncommitted puts and deletes
// (same obligation as for the engines' batches), over an inner batch with reference semantics;
// and every operation reaches the inner batch under prefix||key.
func VerifH_C17_a_table() {
	inner := &refBatch{}
	prefix := string(vBytes("prefix", 1))
	b := &tableBatch{inner, prefix}
	b.SetPending(true)
	n := vLen("nOps", 2)
	keys := make([][]byte, n)
	vals := make([][]byte, n)
	dels := make([]bool, n)
	for i := 0; i < n; i++ {
		keys[i] = vBytes("key", 1)
		dels[i] = vBool("isDelete")
		if dels[i] {
			b.Delete(keys[i])
		} else {
			vals[i] = vBytes("val", 1)
			b.Put(keys[i], vals[i])
		}
		last := inner.ops[len(inner.ops)-1]
		vAssert("table/op-forwarded-with-prefix", len(inner.ops) == i+1 && last.del == dels[i] &&
			len(last.key) == 2 && last.key[0] == prefix[0] && last.key[1] == keys[i][0])
	}
	q := vBytes("query", 1)
	refFound, refDel := false, false
	var refVal []byte
	for i := n - 1; i >= 0; i-- {
		if bytes.Equal(keys[i], q) {
			refFound, refDel, refVal = true, dels[i], vals[i]
			break
		}
	}
	del, v := b.GetPending(q)
	vReach("queried")
	if refFound && refDel {
		vFact("case", "deleted-in-batch")
		vAssert("pending/reports-own-delete", del && v == nil)
	} else if refFound {
		vFact("case", "put-in-batch")
		vAssert("pending/reports-own-put", !del && v != nil && bytes.Equal(v, refVal))
	} else {
		vFact("case", "untouched")
		vAssert("pending/untouched-key", !del && v == nil)
	}
}
