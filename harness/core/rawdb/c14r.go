//go:build verif

package rawdb

import (
	"github.com/dominant-strategies/go-quai/common"
	"github.com/dominant-strategies/go-quai/core/types"
)

// H-C14-r: the receipts of a block read back from the database are the receipts that were written.
// WriteReceipts / ReadRawReceipts over the real memory database for 1..2 receipts with arbitrary status
// (successful or failed), gas values, transaction hash, 0..1 log (one topic, two data bytes): the list comes
// back with the same length, and every consensus field of every receipt is unchanged. The bytes on disk are
// what the wire can carry: an empty status (a failed transaction is encoded as the empty byte string) comes
// back from the protobuf layer as an absent field.
func VerifH_C14_r() {
	db := NewMemoryDatabase(nil)
	var blk common.Hash
	blk[31] = 0xB7
	n := 1 + vLen("receiptsMinus1", 1)
	var rs types.Receipts
	for i := 0; i < n; i++ {
		t := "r" + string(rune('A'+i))
		r := &types.Receipt{Status: uint64(vU8(t+"Status") % 2), CumulativeGasUsed: vU64(t + "CumGas"), GasUsed: vU64(t + "Gas")}
		r.TxHash[31] = vU8(t + "Tx")
		if vBool(t + "HasLog") {
			var topic common.Hash
			topic[0] = vU8(t + "Topic")
			r.Logs = []*types.Log{{Address: common.Bytes20ToAddress([20]byte{}, common.Location{0, 0}), Topics: []common.Hash{topic}, Data: vBytes(t+"Data", 2)}}
		}
		rs = append(rs, r)
	}
	WriteReceipts(db, blk, 9, rs)
	got := ReadRawReceipts(db, blk, 9)
	vReach("read")
	vAssert("receipts/read-back", got != nil && len(got) == n)
	for i := range rs {
		a, b := rs[i], got[i]
		vAssert("receipts/status", a.Status == b.Status)
		vAssert("receipts/gas", a.CumulativeGasUsed == b.CumulativeGasUsed && a.GasUsed == b.GasUsed)
		vAssert("receipts/tx-hash", a.TxHash == b.TxHash)
		vAssert("receipts/log-count", len(a.Logs) == len(b.Logs))
		if len(a.Logs) == 1 && len(b.Logs) == 1 {
			vAssert("receipts/log-content", len(b.Logs[0].Topics) == 1 && a.Logs[0].Topics[0] == b.Logs[0].Topics[0] && len(b.Logs[0].Data) == 2 && a.Logs[0].Data[0] == b.Logs[0].Data[0] && a.Logs[0].Data[1] == b.Logs[0].Data[1])
		}
	}
}
