//go:build verif

package rawdb

import (
	"math/big"

	"github.com/dominant-strategies/go-quai/common"
	"github.com/dominant-strategies/go-quai/core/types"
)

func c01Entry(tag string) *types.UtxoEntry {
	a := make([]byte, 20)
	a[1], a[19] = 0x80, vU8(tag+"Owner")
	return &types.UtxoEntry{Denomination: vU8(tag+"Denomination") % 15, Address: a, Lock: new(big.Int).SetUint64(uint64(vU8(tag + "Lock")))}
}

func sameEntry(a, b *types.UtxoEntry) bool {
	if a == nil || b == nil {
		return a == b
	}
	return a.Denomination == b.Denomination && string(a.Address) == string(b.Address) && a.Lock.Cmp(b.Lock) == 0
}

// H-C01-c: the view of the UTXO set that block processing reads (GetUTXOWithBatch over the committed
// database plus the block's own write batch) is read-your-writes: with an outpoint X committed or not,
// and up to two batched operations (create with an arbitrary entry, or delete) each on X or on another
// outpoint (aliasing decided by the solver), looking X up returns: nothing if the last batched
// operation on X is a delete; the batched entry if it is a create; otherwise the committed entry
// (nothing if none). The committed database itself (GetUTXO) is untouched until the batch is
// written, and after Write the database alone gives the same answer. Real CreateUTXO / DeleteUTXO /
// GetUTXOWithBatch / GetUTXO over the real memory database and its batch.
func VerifH_C01_c() {
	db := NewMemoryDatabase(nil)
	var x common.Hash
	x[31] = vU8("outpointX")
	xi := uint16(vU8("indexX") % 2)
	var committed *types.UtxoEntry
	if vBool("committed") {
		committed = c01Entry("committed")
		if err := CreateUTXO(db, x, xi, committed); err != nil {
			return
		}
	}
	batch := db.NewBatch()
	batch.SetPending(true)
	expect := committed
	n := vLen("batchedOps", 2)
	for i := 0; i < n; i++ {
		t := "op" + string(rune('A'+i))
		var h common.Hash
		h[31] = vU8(t + "Outpoint")
		hi := uint16(vU8(t+"Index") % 2)
		onX := h == x && hi == xi
		if vBool(t + "IsDelete") {
			DeleteUTXO(batch, h, hi)
			if onX {
				expect = nil
			}
		} else {
			e := c01Entry(t)
			if err := CreateUTXO(batch, h, hi, e); err != nil {
				return
			}
			if onX {
				expect = e
			}
		}
	}
	vReach("batched")
	got := GetUTXOWithBatch(db, batch, x, xi)
	vAssert("view/read-your-writes", sameEntry(got, expect))
	vAssert("view/committed-database-untouched-before-write", sameEntry(GetUTXO(db, x, xi), committed))
	if err := batch.Write(); err != nil {
		return
	}
	vReach("written")
	vAssert("view/database-after-write-equals-view", sameEntry(GetUTXO(db, x, xi), expect))
}
