//go:build verif

package rawdb

import (
	"bytes"

	"github.com/dominant-strategies/go-quai/common"
	"github.com/dominant-strategies/go-quai/log"
)

type recordedOp struct {
	key, val []byte
	del      bool
}
type recorder struct{ ops []recordedOp }

func (r *recorder) Put(key, value []byte) error {
	r.ops = append(r.ops, recordedOp{append([]byte{}, key...), append([]byte{}, value...), false})
	return nil
}
func (r *recorder) Delete(key []byte) error {
	r.ops = append(r.ops, recordedOp{append([]byte{}, key...), nil, true})
	return nil
}
func (r *recorder) Logger() *log.Logger { return nil }

// H-C17-b-table: the table wrapper is transparent. Over the real in-memory database, a table with an
// arbitrary two-byte prefix receives a history of <= 2 operations (Put of a one-byte value / Delete)
// on arbitrary keys of 1..2 bytes whose bytes may coincide with bytes of the prefix, directly or
// through a table batch that is written: afterwards the table's Has/Get answer by the last
// operation on the key, the underlying database holds the data under prefix||key and nothing under
// the bare key, and replaying the table batch into a recorder yields exactly the operations that
// were issued — same keys (without prefix), same values, same order.
func VerifH_C17_b_table() {
	db := NewMemoryDatabase(nil)
	prefix := vBytes("prefix", 2)
	t := NewTable(db, string(prefix), common.Location{0, 0}, nil)
	b := t.NewBatch()
	viaBatch := vBool("throughBatch")
	n := vLen("nOps", 2)
	keys := make([][]byte, n)
	vals := make([][]byte, n)
	dels := make([]bool, n)
	for i := 0; i < n; i++ {
		tag := "op" + string(rune('A'+i))
		keys[i] = vBytes(tag+"Key", 1+vLen(tag+"KeyExtra", 1))
		dels[i] = vBool(tag + "IsDelete")
		var err error
		if dels[i] {
			if viaBatch {
				err = b.Delete(keys[i])
			} else {
				err = t.Delete(keys[i])
			}
		} else {
			vals[i] = vBytes(tag+"Value", 1)
			if viaBatch {
				err = b.Put(keys[i], vals[i])
			} else {
				err = t.Put(keys[i], vals[i])
			}
		}
		vAssert("op/no-error", err == nil)
	}
	if viaBatch {
		rec := &recorder{}
		vAssert("replay/no-error", b.Replay(rec) == nil)
		vAssert("replay/same-number-of-operations", len(rec.ops) == n)
		for i := 0; i < n && i < len(rec.ops); i++ {
			vAssert("replay/same-operation-key-without-prefix", rec.ops[i].del == dels[i] && bytes.Equal(rec.ops[i].key, keys[i]) && (dels[i] || bytes.Equal(rec.ops[i].val, vals[i])))
		}
		vAssert("batch/write-no-error", b.Write() == nil)
	}
	vReach("applied")
	for i := 0; i < n; i++ {
		q := keys[i]
		present := false
		var want []byte
		for j := n - 1; j >= 0; j-- {
			if bytes.Equal(keys[j], q) {
				present, want = !dels[j], vals[j]
				break
			}
		}
		has, _ := t.Has(q)
		got, gerr := t.Get(q)
		vAssert("table/has-iff-last-op-was-put", has == present)
		vAssert("table/get-returns-last-value", (gerr == nil) == present && (!present || bytes.Equal(got, want)))
		raw, rerr := db.Get(append(append([]byte{}, prefix...), q...))
		vAssert("table/stored-under-prefixed-key", (rerr == nil) == present && (!present || bytes.Equal(raw, want)))
	}
}

// H-C17-e-table: iteration through the table wrapper is iteration over the table's own keys. A table with the
// one-byte prefix 'T' over the real memory database that also holds foreign keys (prefix 'U' / 'S'): two entries
// written through the table under arbitrary one-byte keys, one foreign entry written directly; the table's
// iterator (no inner prefix, or an arbitrary one-byte inner prefix) yields exactly the table's entries that carry
// the inner prefix, with the table prefix removed, ascending, with their values — never a foreign key.
func VerifH_C17_e_table() {
	base := NewMemoryDatabase(nil)
	t := NewTable(base, "T", common.Location{0, 0}, nil)
	a, b := vU8("keyA"), vU8("keyB")
	vAssume(a != b)
	vAssert("put/ok", t.Put([]byte{a}, []byte{1}) == nil && t.Put([]byte{b}, []byte{2}) == nil)
	foreign := []byte{'U', vU8("foreignKey")}
	if vBool("foreignBelow") {
		foreign[0] = 'S'
	}
	base.Put(foreign, []byte{9})
	var inner []byte
	if vBool("withInnerPrefix") {
		inner = []byte{vU8("innerPrefix")}
	}
	match := func(k byte) bool { return len(inner) == 0 || k == inner[0] }
	it := t.NewIterator(inner, nil)
	var keys, vals []byte
	for it.Next() {
		k := it.Key()
		vAssert("iterate/key-has-table-prefix-removed", len(k) == 1)
		keys = append(keys, k[0])
		vals = append(vals, it.Value()[0])
	}
	it.Release()
	vReach("iterated")
	n := 0
	if match(a) {
		n++
	}
	if match(b) {
		n++
	}
	vAssert("iterate/exactly-the-tables-matching-entries", len(keys) == n)
	for i, k := range keys {
		vAssert("iterate/own-entry-with-its-value", (k == a && match(a) && vals[i] == 1) || (k == b && match(b) && vals[i] == 2))
		if i > 0 {
			vAssert("iterate/ascending-order", keys[i-1] < k)
		}
	}
}
