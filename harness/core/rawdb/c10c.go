//go:build verif

package rawdb

import (
	"bytes"
	"math/big"

	"github.com/dominant-strategies/go-quai/common"
	"github.com/dominant-strategies/go-quai/core/types"
)

// H-C10-c: the per-block undo records that reorg rollback replays come back exactly as block
// processing wrote them, in the same order (the rollback loop depends on the order: it re-applies
// deleted-lockup records last-to-first so that the value from before the block wins). For 0..3
// records with arbitrary keys/values (keys may coincide): WriteDeletedCoinbaseLockups /
// ReadDeletedCoinbaseLockups, WriteCreatedCoinbaseLockupKeys / ReadCreatedCoinbaseLockupKeys,
// WriteCreatedUTXOKeys / ReadCreatedUTXOKeys, WriteSpentUTXOs / ReadSpentUTXOs over the real memory
// database; records of another block are not returned.
func VerifH_C10_c() {
	db := NewMemoryDatabase(nil)
	var blk, other common.Hash
	blk[31], other[31] = 0xB1, 0xB2
	n := vLen("records", 3)
	var lockups []DeletedCoinbaseLockup
	var keys [][]byte
	var utxoKeys [][]byte
	var spent []*types.SpentUtxoEntry
	for i := 0; i < n; i++ {
		t := "rec" + string(rune('A'+i))
		k := make([]byte, CoinbaseLockupKeyLength)
		k[0], k[CoinbaseLockupKeyLength-1] = 0xC1, vU8(t+"Key")
		lockups = append(lockups, DeletedCoinbaseLockup{Key: k, Value: vBytes(t+"Value", 2)})
		keys = append(keys, k)
		var h common.Hash
		h[31] = vU8(t + "Tx")
		utxoKeys = append(utxoKeys, UtxoKeyWithDenomination(h, uint16(i), vU8(t+"Den")%15))
		a := make([]byte, 20)
		a[19] = vU8(t + "Owner")
		spent = append(spent, &types.SpentUtxoEntry{OutPoint: types.OutPoint{TxHash: h, Index: uint16(i)}, UtxoEntry: &types.UtxoEntry{Denomination: vU8(t+"SpentDen") % 15, Address: a, Lock: big.NewInt(int64(vU8(t + "Lock")))}})
	}
	if WriteDeletedCoinbaseLockups(db, blk, lockups) != nil || WriteCreatedCoinbaseLockupKeys(db, blk, keys) != nil ||
		WriteCreatedUTXOKeys(db, blk, utxoKeys) != nil || WriteSpentUTXOs(db, blk, spent) != nil {
		return
	}
	vReach("written")
	gotL, err := ReadDeletedCoinbaseLockups(db, blk)
	vAssert("undo/deleted-lockups-read-back", err == nil && len(gotL) == n)
	for i := 0; i < n && i < len(gotL); i++ {
		vAssert("undo/deleted-lockups-same-order-and-content", bytes.Equal(gotL[i].Key, lockups[i].Key) && bytes.Equal(gotL[i].Value, lockups[i].Value))
	}
	gotK, err := ReadCreatedCoinbaseLockupKeys(db, blk)
	vAssert("undo/created-lockup-keys-read-back", err == nil && len(gotK) == n)
	for i := 0; i < n && i < len(gotK); i++ {
		vAssert("undo/created-lockup-keys-same-order", bytes.Equal(gotK[i], keys[i]))
	}
	gotU, err := ReadCreatedUTXOKeys(db, blk)
	vAssert("undo/created-utxo-keys-read-back", err == nil && len(gotU) == n)
	for i := 0; i < n && i < len(gotU); i++ {
		vAssert("undo/created-utxo-keys-same-order", bytes.Equal(gotU[i], utxoKeys[i]))
	}
	gotS, err := ReadSpentUTXOs(db, blk)
	vAssert("undo/spent-read-back", err == nil && len(gotS) == n)
	for i := 0; i < n && i < len(gotS); i++ {
		vAssert("undo/spent-same-order-and-content", gotS[i].OutPoint == spent[i].OutPoint && gotS[i].Denomination == spent[i].Denomination && bytes.Equal(gotS[i].Address, spent[i].Address) && gotS[i].Lock.Cmp(spent[i].Lock) == 0)
	}
	o, _ := ReadDeletedCoinbaseLockups(db, other)
	vAssert("undo/other-block-has-none", len(o) == 0)
}
