//go:build verif

package rawdb

import (
	"bytes"
	"math/big"

	"github.com/dominant-strategies/go-quai/common"
	"github.com/dominant-strategies/go-quai/core/types"
)

// H-C06-u: a stored UTXO entry reads back as exactly the entry that was created. The UTXO-set commitment adds
// the hash of the in-memory entry when an output is created and removes the hash of the entry read back from
// the database when it is spent or trimmed; the two are the same element only if storage is an exact round
// trip. CreateUTXO / GetUTXO / GetUTXOWithBatch over the real memory database for an entry with an arbitrary
// denomination, lock (absent, zero or positive) and an address of 20..22 bytes (the wire decoder accepts any
// length from 20 up; the owner is taken from the last 20 bytes): denomination, lock and every address byte —
// including the length — come back unchanged, through the database and through the block batch.
func VerifH_C06_u() {
	db := NewMemoryDatabase(nil)
	var h common.Hash
	h[31] = vU8("tx")
	n := 20 + vLen("addressLenMinus20", 2)
	addr := make([]byte, n)
	addr[0], addr[n-1] = vU8("addrFirst"), vU8("addrLast")
	var lock *big.Int
	switch vLen("lockKind", 2) {
	case 0:
	case 1:
		lock = new(big.Int)
	default:
		lock = new(big.Int).SetUint64(1 + uint64(vU16("lock")))
	}
	e := &types.UtxoEntry{Denomination: vU8("denomination") % 15, Address: addr, Lock: lock}
	same := func(got *types.UtxoEntry) bool {
		if got == nil || got.Denomination != e.Denomination || !bytes.Equal(got.Address, e.Address) {
			return false
		}
		wantLock := new(big.Int)
		if e.Lock != nil {
			wantLock = e.Lock
		}
		gotLock := new(big.Int)
		if got.Lock != nil {
			gotLock = got.Lock
		}
		return gotLock.Cmp(wantLock) == 0
	}
	b := db.NewBatch()
	b.SetPending(true)
	vAssert("create/ok", CreateUTXO(b, h, 1, e) == nil)
	viaBatch := GetUTXOWithBatch(db, b, h, 1)
	vAssert("roundtrip/through-the-block-batch", same(viaBatch))
	vAssert("commit/ok", b.Write() == nil)
	vReach("stored")
	vAssert("roundtrip/through-the-database", same(GetUTXO(db, h, 1)))
}
