//go:build verif

package core

import (
	"github.com/dominant-strategies/go-quai/common"
	"github.com/dominant-strategies/go-quai/core/rawdb"
	"github.com/dominant-strategies/go-quai/core/types"
	"github.com/dominant-strategies/go-quai/params"
)

// H-C10-d: switching away from a block and back leaves exactly that block's state. Chain G <- A1 <- A2. The
// real SetCurrentHeader appends A2 (real AppendBlock / BodyDb.Append, the block's ledger effects and its
// processed marker written by the processor stub in one batch, as the real Apply does), rolls back to A1 with
// A2's undo records (a reorg to a heavier sibling branch), and then makes A2 the head again (the reorg is
// undone). After each step the UTXO entries are exactly those of the head's branch: after the switch back the
// outputs A2 creates exist again and the output it spends is gone, and the head pointer names A2.
//
// verif:stub (*core/types.WorkObject).Hash => stubWoHash
// verif:stub core/rawdb.FindCommonAncestor => stubFindCommonAncestor
// verif:stub (*core.HeaderChain).GetHeaderByHash => stubHcGetHeaderByHash
// verif:stub (*core.HeaderChain).IsGenesisHash => stubHcIsGenesisHash
// verif:stub (*core.HeaderChain).NodeCtx => stubHcNodeCtx
// verif:stub core/rawdb.ReadSpentUTXOs => stubReadSpentUTXOs
// verif:stub core/rawdb.ReadTrimmedUTXOs => stubReadTrimmedUTXOs
// verif:stub core/rawdb.ReadCreatedUTXOKeys => stubReadCreatedUTXOKeys
// verif:stub core/rawdb.ReadDeletedCoinbaseLockups => stubReadDeletedCoinbaseLockups
// verif:stub core/rawdb.ReadCreatedCoinbaseLockupKeys => stubReadCreatedCoinbaseLockupKeys
// verif:stub core/rawdb.CreateUTXO => stubCreateUTXOForUndo
// verif:stub (*core.StateProcessor).Apply => stubProcessorApply
// verif:stub core/rawdb.WriteTxLookupEntriesByBlock => stubWriteTxLookupEntriesByBlock
func VerifH_C10_d() {
	g := mkWo(0, 0, nil)
	a1 := mkWo(1, 1, g)
	a2 := mkWo(1, 2, a1)
	hA1, hA2 := stubWoHash(a1), stubWoHash(a2)
	reorgHeaders = map[common.Hash]*types.WorkObject{stubWoHash(g): g, hA1: a1, hA2: a2}
	reorgCommon = a1
	undoBlock = hA2
	undoSpent, undoTrimmed, undoCreatedKeys, undoDeletedLockups, undoCreatedLockupKeys = nil, nil, nil, nil, nil
	c0, s0 := vOutpoint("c0"), vOutpoint("s0")
	vAssume(c0 != s0)
	kC0, kS0 := rawdb.UtxoKey(c0.TxHash, c0.Index), rawdb.UtxoKey(s0.TxHash, s0.Index)
	applyEffects = []dbOp{{key: kC0, val: []byte{0xE0, 1}}, {key: kS0, del: true}}
	applyFails = false
	undoSpent = []*types.SpentUtxoEntry{{OutPoint: s0, UtxoEntry: &types.UtxoEntry{Denomination: 3, Address: make([]byte, 20)}}}
	undoCreatedKeys = [][]byte{rawdb.UtxoKeyWithDenomination(c0.TxHash, c0.Index, 1)}

	db := rawdb.NewMemoryDatabase(nil)
	cfg := &params.ChainConfig{Location: qiLoc}
	hc := &HeaderChain{headerDb: db, processingState: true, config: cfg}
	hc.bc = &BodyDb{chainConfig: cfg, db: db, slicesRunning: []common.Location{qiLoc}, processor: &StateProcessor{}}
	db.Put(kS0, []byte{0xE0, 3})
	rawdb.WriteCanonicalHash(db, hA1, 1)
	rawdb.WriteHeadBlockHash(db, hA1)
	hc.currentHeader.Store(a1)
	has := func(k []byte) bool { v, _ := db.Get(k); return len(v) > 0 }

	vAssert("append/ok", hc.SetCurrentHeader(a2) == nil)
	vAssert("append/effects-present", has(kC0) && !has(kS0) && rawdb.ReadHeadBlockHash(db) == hA2)
	vAssert("rollback/ok", hc.SetCurrentHeader(a1) == nil)
	vAssert("rollback/effects-undone", !has(kC0) && has(kS0) && rawdb.ReadHeadBlockHash(db) == hA1)
	vReach("rolled-back")
	vAssert("switch-back/ok", hc.SetCurrentHeader(a2) == nil)
	vReach("switched-back")
	vAssert("switch-back/head-names-the-block", rawdb.ReadHeadBlockHash(db) == hA2 && rawdb.ReadCanonicalHash(db, 2) == hA2)
	vAssert("switch-back/created-output-exists-again", has(kC0))
	vAssert("switch-back/spent-output-gone-again", !has(kS0))
}
