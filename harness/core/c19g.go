//go:build verif

package core

import (
	"math/big"

	"github.com/dominant-strategies/go-quai/common"
	"github.com/dominant-strategies/go-quai/core/types"
)

func c19TxGas(nonce, gas uint64, price int64) *types.Transaction {
	to := common.BytesToAddress(append([]byte{0x00, 0x00}, make([]byte, 18)...), qiLoc)
	return types.NewTx(&types.QuaiTx{ChainID: big.NewInt(9000), Nonce: nonce, GasPrice: big.NewInt(price), Gas: gas, To: &to, Value: new(big.Int), V: new(big.Int), R: new(big.Int), S: new(big.Int)})
}

// H-C19-g: the balance / gas-limit filter of an account's transaction list (txList.Filter, as run by
// promoteExecutables on the queued list and by demoteUnexecutables on the pending list after a head change)
// leaves the list consistent. A list (strict = pending, or not = queued) holding 1..3 transactions with
// arbitrary distinct nonces (consecutive when strict), arbitrary gas and price, filtered with an arbitrary
// balance and gas limit: afterwards
//   * removed are exactly the transactions that cost more than the balance or need more gas than the limit,
//     in a strict list everything above the lowest removed nonce comes back as invalid, and nothing else leaves;
//   * the nonce index and the stored transactions agree (same size, every indexed nonce is stored), so that
//   * Ready / Forward afterwards return only real transactions — never a nil entry — namely exactly the stored
//     ones they should.
func VerifH_C19_g() {
	strict := vBool("strictPendingList")
	l := newTxList(strict)
	n := 1 + vLen("storedMinus1", 2)
	base := uint64(vU8("firstNonce"))
	var nonces, gases []uint64
	var costs []*big.Int
	for i := 0; i < n; i++ {
		k := base + uint64(i)
		if !strict {
			k = base + uint64(i)*2 + uint64(vU8("gap"+string(rune('A'+i)))%2)
		}
		gas := 21000 + uint64(vU8("extraGas"+string(rune('A'+i))))
		price := int64(1 + vU8("price"+string(rune('A'+i)))%4)
		tx := c19TxGas(k, gas, price)
		ok, _ := l.Add(tx, 10)
		vAssume(ok)
		nonces, gases, costs = append(nonces, k), append(gases, gas), append(costs, tx.Cost())
	}
	balance := new(big.Int).SetUint64(uint64(vU32("balance")))
	gasLimit := 21000 + uint64(vU16("gasLimitExtra"))
	removed, invalids := l.Filter(balance, gasLimit)
	vReach("filtered")

	// reference
	lowestRemoved := ^uint64(0)
	wantRemoved := 0
	for i := range nonces {
		if gases[i] > gasLimit || costs[i].Cmp(balance) > 0 {
			wantRemoved++
			if nonces[i] < lowestRemoved {
				lowestRemoved = nonces[i]
			}
		}
	}
	wantInvalid := 0
	wantLeft := 0
	for i := range nonces {
		bad := gases[i] > gasLimit || costs[i].Cmp(balance) > 0
		if bad {
			continue
		}
		if strict && nonces[i] > lowestRemoved {
			wantInvalid++
		} else {
			wantLeft++
		}
	}
	vAssert("filter/removed-exactly-the-unaffordable", len(removed) == wantRemoved)
	vAssert("filter/invalidated-exactly-those-above-the-gap", len(invalids) == wantInvalid)
	vAssert("filter/others-stay", l.Len() == wantLeft)
	vAssert("index/same-size-as-stored", len(*l.txs.index) == len(l.txs.items))
	for _, k := range *l.txs.index {
		_, stored := l.txs.items[k]
		vAssert("index/every-indexed-nonce-is-stored", stored)
	}
	var after types.Transactions
	if vBool("thenForward") {
		after = l.Forward(base + 3)
	} else {
		after = l.Ready(base)
	}
	vReach("used-afterwards")
	for _, tx := range after {
		vAssert("after/no-nil-transaction-handed-out", tx != nil)
	}
	vAssert("after/index-still-consistent", len(*l.txs.index) == len(l.txs.items))
}
