//go:build verif

package core

import (
	"math/big"

	lru "github.com/hashicorp/golang-lru/v2"

	"github.com/dominant-strategies/go-quai/common"
	"github.com/dominant-strategies/go-quai/core/types"
	"github.com/dominant-strategies/go-quai/ethdb"
)

// ---- region chain model for CollectNewlyConfirmedEtxs ----
var rcBlocks map[common.Hash]*types.WorkObject
var rcRollup map[common.Hash]types.Transactions
var rcOrder map[common.Hash]int
var rcGenesis common.Hash
var rcRollupCalls int

func stubRcNodeCtx(hc *HeaderChain) int { return common.REGION_CTX }
func stubRcGetBlock(hc *HeaderChain, h common.Hash, n uint64) *types.WorkObject {
	return rcBlocks[h]
}
func stubRcIsGenesisHash(hc *HeaderChain, h common.Hash) bool { return h == rcGenesis }
func stubRcCalcOrder(hc *HeaderChain, wo *types.WorkObject) (*big.Int, int, error) {
	return big.NewInt(0), rcOrder[wo.Hash()], nil
}
func stubRcCollectSubRollup(hc *HeaderChain, b *types.WorkObject) (types.Transactions, error) {
	rcRollupCalls++
	return rcRollup[b.Hash()], nil
}
func stubRcReadInboundEtxs(db ethdb.Reader, hash common.Hash) types.Transactions { return nil }

func rcBlock(id byte, number uint64, parent common.Hash, zone byte) *types.WorkObject {
	wo := types.EmptyWorkObject(common.REGION_CTX)
	var mix common.Hash
	mix[0], mix[31] = id, 0xB0
	wo.WorkObjectHeader().SetMixHash(mix)
	wo.WorkObjectHeader().SetLocation(common.Location{0, zone})
	wo.Header().SetNumber(new(big.Int).SetUint64(number), common.REGION_CTX)
	wo.Header().SetParentHash(parent, common.REGION_CTX)
	return wo
}

func rcEtx(i int, destZone byte) *types.Transaction {
	to := common.BytesToAddress(append([]byte{destZone, 0x00}, append(make([]byte, 17), byte(0x50+i))...), common.Location{0, destZone})
	from := common.BytesToAddress(append([]byte{0x10, 0x00}, append(make([]byte, 17), byte(0x60+i))...), common.Location{1, 0})
	var origin common.Hash
	origin[0], origin[31] = 0xE7, byte(i)
	return types.NewTx(&types.ExternalTx{Value: big.NewInt(1), To: &to, Sender: from, EtxType: types.DefaultType, OriginatingTxHash: origin, ETXIndex: uint16(i), Gas: 21000})
}

func sameTxList(a, b types.Transactions) bool {
	if len(a) != len(b) {
		return false
	}
	for i := range a {
		if a[i] != b[i] {
			return false
		}
	}
	return true
}

// H-C04-e: the set of ETXs a region hands down to a zone when one of its blocks becomes coincident
// (Slice.CollectNewlyConfirmedEtxs, region context) is delivered exactly once and does not depend on
// what was collected before. Region chain G <- D1 <- D2 <- D3, each Dk produced with an arbitrary
// zone (0..2) of this region and carrying a sub-rollup of one ETX with an arbitrary destination
// zone. Collecting for D3 on a cold cache returns exactly: D3's own rollup entries for D3's zone,
// then those of each ancestor back to (excluding) the previous block of the same zone; collecting
// for D2 first (which fills the rollup cache) and then for D3, or collecting for D3 twice, returns
// the same list again, and rollups are computed at most once per block.
//
// verif:stub (*core/types.WorkObjectHeader).Hash => stubWohHashByMix
// verif:stub (*core.HeaderChain).NodeCtx => stubRcNodeCtx
// verif:stub (*core.HeaderChain).GetBlock => stubRcGetBlock
// verif:stub (*core.HeaderChain).IsGenesisHash => stubRcIsGenesisHash
// verif:stub (*core.HeaderChain).CalcOrder => stubRcCalcOrder
// verif:stub (*core.HeaderChain).CollectSubRollup => stubRcCollectSubRollup
// verif:stub core/rawdb.ReadInboundEtxs => stubRcReadInboundEtxs
// verif:bounds decisions=600 paths=40000
func VerifH_C04_e() {
	g := rcBlock(0, 0, common.Hash{}, 0)
	rcGenesis = g.Hash()
	zones := []byte{vU8("zone1") % 3, vU8("zone2") % 3, vU8("zone3") % 3}
	d1 := rcBlock(1, 1, g.Hash(), zones[0])
	d2 := rcBlock(2, 2, d1.Hash(), zones[1])
	d3 := rcBlock(3, 3, d2.Hash(), zones[2])
	rcBlocks = map[common.Hash]*types.WorkObject{g.Hash(): g, d1.Hash(): d1, d2.Hash(): d2, d3.Hash(): d3}
	rcOrder = map[common.Hash]int{g.Hash(): common.REGION_CTX, d1.Hash(): common.REGION_CTX, d2.Hash(): common.REGION_CTX, d3.Hash(): common.REGION_CTX}
	dest := []byte{vU8("dest1") % 3, vU8("dest2") % 3, vU8("dest3") % 3}
	e1, e2, e3 := rcEtx(1, dest[0]), rcEtx(2, dest[1]), rcEtx(3, dest[2])
	rcRollup = map[common.Hash]types.Transactions{d1.Hash(): {e1}, d2.Hash(): {e2}, d3.Hash(): {e3}}
	cache, _ := lru.New[common.Hash, types.Transactions](50)
	hc := &HeaderChain{subRollupCache: cache}
	sl := &Slice{hc: hc}

	// reference: walk back from D3 until a block of the same zone
	var want types.Transactions
	z := zones[2]
	if dest[2] == z {
		want = append(want, e3)
	}
	if zones[1] != z {
		if dest[1] == z {
			want = append(want, e2)
		}
		if zones[0] != z {
			if dest[0] == z {
				want = append(want, e1)
			}
		}
	}
	rcRollupCalls = 0
	if vBool("collectForD2First") {
		vFact("history", "D2-collected-first")
		if _, err := sl.CollectNewlyConfirmedEtxs(d2, common.REGION_CTX); err != nil {
			return
		}
	}
	got, err := sl.CollectNewlyConfirmedEtxs(d3, common.REGION_CTX)
	vReach("collected")
	vAssert("collect/no-error", err == nil)
	vAssert("collect/exactly-the-etxs-since-the-zones-previous-block", sameTxList(got, want))
	again, err2 := sl.CollectNewlyConfirmedEtxs(d3, common.REGION_CTX)
	vAssert("collect/same-result-from-warm-cache", err2 == nil && sameTxList(again, want))
	vAssert("collect/rollup-computed-at-most-once-per-block", rcRollupCalls <= 3)
}
