//go:build verif

package core

import (
	"math/big"
	"time"

	"github.com/dominant-strategies/go-quai/common"
	"github.com/dominant-strategies/go-quai/core/types"
)

// H-C19-h: one step of the pool's promotion, from a valid pool state. An account with an arbitrary state nonce
// and balance, 0..1 pending transaction at the state nonce, and 1..2 queued transactions at arbitrary distinct
// nonces (arbitrary prices, gas, values); arbitrary block gas limit. After the real promoteExecutables (real
// txList.Forward / Filter / Ready / Cap, real promoteTx, real nonce tracker):
//   * what is pending is nonce-contiguous from the state nonce, and the pending nonce tracker points just past it;
//   * nothing is both pending and queued; the queue holds no transaction below the state nonce, none that is
//     unaffordable, and no empty list;
//   * every transaction handed in is accounted for: pending, queued, or dropped for a stated reason (stale,
//     unaffordable, over the gas limit) — and then it is gone from the lookup too; a transaction that is
//     executable next (nonce = pending nonce, affordable) is promoted, not left behind;
//   * the returned list is exactly what was promoted.
//
// verif:stub core/types.Sender => stubPoolSender
// verif:stub (*core/types.Transaction).Hash => stubPoolTxHash
// verif:stub core.numSlots => stubNumSlots
// Quick tier: one queued transaction; thorough (H-C19-h2): two.
//
// verif:bounds decisions=600 paths=60000
func VerifH_C19_h() { c19PromoteStep(1) }

// H-C19-h2: as H-C19-h with two queued transactions at arbitrary distinct nonces.
//
// verif:stub core/types.Sender => stubPoolSender
// verif:stub (*core/types.Transaction).Hash => stubPoolTxHash
// verif:stub core.numSlots => stubNumSlots
// verif:bounds decisions=600 paths=400000 budget=40m
// verif:tier thorough
func VerifH_C19_h2() { c19PromoteStep(2) }

func c19PromoteStep(nQueued int) {
	var a common.InternalAddress
	a[19] = 0x61
	poolSender = common.Bytes20ToAddress(a, qiLoc)
	st := newRealStateCore()
	stateNonce := uint64(vU8("stateNonce"))
	vAssume(stateNonce < 200)
	st.SetNonce(a, stateNonce)
	st.AddBalance(a, vBigN("stateBalance", 96))
	pool := &TxPool{
		config: TxPoolConfig{PriceBump: 10, AccountQueue: 64}, signer: types.NewSigner(big.NewInt(9000), qiLoc),
		currentState: st, currentMaxGas: uint64(vU32("blockGasLimit")),
		pending: map[common.InternalAddress]*txList{}, queue: map[common.InternalAddress]*txList{},
		beats: map[common.InternalAddress]time.Time{}, all: newTxLookup(), locals: newAccountSet(types.NewSigner(big.NewInt(9000), qiLoc)),
	}
	pool.priced = newTxPricedList(pool.all)
	pool.pendingNonces = newTxNoncer(st)
	var handed []*types.Transaction
	pendingNonce := stateNonce
	if vBool("onePendingAlready") {
		p := vPoolTx("p0", stateNonce, vBigN("p0Price", 32))
		vAssume(p.Cost().Cmp(st.GetBalance(a)) <= 0 && p.Gas() <= pool.currentMaxGas) // valid pool state
		l := newTxList(true)
		l.Add(p, 10)
		pool.pending[a] = l
		pool.all.Add(p, false)
		pendingNonce = stateNonce + 1
		pool.pendingNonces.set(a, pendingNonce)
	}
	n0 := uint64(vU8("queuedNonce0"))
	vAssume(n0 < 250)
	q0 := vPoolTx("q0", n0, vBigN("q0Price", 32))
	ql := newTxList(false)
	ql.Add(q0, 10)
	pool.all.Add(q0, false)
	handed = append(handed, q0)
	if nQueued > 1 {
		n1 := uint64(vU8("queuedNonce1"))
		vAssume(n0 != n1 && n1 < 250)
		q1 := vPoolTx("q1", n1, vBigN("q1Price", 32))
		ql.Add(q1, 10)
		pool.all.Add(q1, false)
		handed = append(handed, q1)
	}
	pool.queue[a] = ql

	promoted := pool.promoteExecutables([]common.InternalAddress{a})

	vReach("promoted")
	nPending := 0
	if list := pool.pending[a]; list != nil {
		txs := list.Flatten()
		nPending = len(txs)
		for i, tx := range txs {
			vAssert("pending/contiguous-from-state-nonce", tx.Nonce() == stateNonce+uint64(i))
		}
		vAssert("pending/no-empty-list", len(txs) > 0)
	}
	vAssert("pending/nonce-tracker-points-past-pending", pool.pendingNonces.get(a) == stateNonce+uint64(nPending))
	if q := pool.queue[a]; q != nil {
		vAssert("queue/no-empty-list", q.Len() > 0)
		vAssert("queue/index-consistent", len(*q.txs.index) == len(q.txs.items))
		for _, tx := range q.Flatten() {
			vAssert("queue/not-stale", tx.Nonce() >= stateNonce)
			vAssert("queue/affordable", tx.Cost().Cmp(st.GetBalance(a)) <= 0 && tx.Gas() <= pool.currentMaxGas)
			if pl := pool.pending[a]; pl != nil {
				vAssert("queue/not-also-pending", pl.txs.Get(tx.Nonce()) != tx)
			}
		}
	}
	nPromoted := 0
	for _, tx := range handed {
		inPending := pool.pending[a] != nil && pool.pending[a].txs.Get(tx.Nonce()) == tx
		inQueue := pool.queue[a] != nil && pool.queue[a].txs.Get(tx.Nonce()) == tx
		inLookup := pool.all.Get(stubPoolTxHash(tx)) != nil
		stale := tx.Nonce() < stateNonce
		payable := tx.Cost().Cmp(st.GetBalance(a)) <= 0 && tx.Gas() <= pool.currentMaxGas
		vAssert("account/not-in-both", !(inPending && inQueue))
		if inPending {
			nPromoted++
			vAssert("promote/only-payable-and-current", !stale && payable)
		}
		if stale || !payable {
			vAssert("drop/stale-or-unpayable-is-gone-everywhere", !inPending && !inQueue && !inLookup)
		}
		if !stale && payable && !inPending {
			// same nonce as the already pending transaction: the replacement rule may discard it; otherwise it waits
			if tx.Nonce() == stateNonce && pendingNonce == stateNonce+1 {
				vAssert("keep/rejected-replacement-left-the-lookup", inQueue || !inLookup)
			} else {
				vAssert("keep/payable-future-transaction-still-queued", inQueue && inLookup)
			}
		}
		if !stale && payable && tx.Nonce() == pendingNonce {
			vAssert("promote/next-executable-is-promoted", inPending)
		}
	}
	vAssert("promote/returned-list-is-what-was-promoted", len(promoted) == nPromoted)
}
