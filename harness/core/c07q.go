//go:build verif

package core

import (
	"math/big"

	"github.com/dominant-strategies/go-quai/common"
	"github.com/dominant-strategies/go-quai/core/types"
	"github.com/dominant-strategies/go-quai/params"
)

// ---- worker.processQiTx versus ProcessQiTx: two implementations of the Qi rules ----
var c07EtxEligible bool
var c07Terminus *types.WorkObject

type c07Chain struct{ modelChain }

func (m *c07Chain) CheckIfEtxIsEligible(common.Hash, common.Location) bool { return c07EtxEligible }

func stubHcCheckIfEtxIsEligible(hc *HeaderChain, etxEligibleSlices common.Hash, to common.Location) bool {
	return c07EtxEligible
}
func stubHcGetPrimeTerminus(hc *HeaderChain, header *types.WorkObject) *types.WorkObject {
	return c07Terminus
}

func sameHashes(a, b []common.Hash) bool {
	if len(a) != len(b) {
		return false
	}
	for i := range a {
		if a[i] != b[i] {
			return false
		}
	}
	return true
}

// The worker's processQiTx includes a Qi transaction from the mempool in the pending block; the
// validator's ProcessQiTx re-executes it. For an arbitrary transaction (scenario space of H-C01-a:
// arbitrary UTXO view, fork regime, addresses, denominations, locks, data kind, limits) that the
// mempool has admitted (every input key owns the output it spends: what ValidateQiTxInputs checks;
// the signature is not re-checked for pool transactions), as the first or a later Qi transaction
// of a block: whenever the worker includes it, the validator accepts it, and both compute the same
// fee, gas, remaining ETX limits, emitted ETXs (type, value, destination, index, gas) and the same
// created / deleted commitment hashes.
func c07QiAgreement(maxIn, maxOut, dataKind int, first, symbolicLimits bool) {
	qiSymbolicFees = symbolicLimits
	s := vQiScenario(maxIn, maxOut, dataKind)
	vAssume(s.chain.terminus != nil)
	c07Terminus = s.chain.terminus
	c07EtxEligible = vBool("destinationEligible")
	chain := &c07Chain{modelChain{terminus: s.chain.terminus}}
	gas0 := uint64(1 << 40)
	used0 := uint64(0)
	etxR0, etxP0 := uint64(1<<40), uint64(1<<40)
	if symbolicLimits {
		gas0 = vU64("gasPool")
		used0 = uint64(vU32("usedGasBefore"))
		etxR0, etxP0 = vU64("etxRLimit"), vU64("etxPLimit")
	}
	chainID := big.NewInt(int64(vU16("chainId")))
	cfg := &params.ChainConfig{Location: qiLoc, ChainID: chainID}

	// worker
	wk := &worker{hc: &HeaderChain{config: cfg}, chainConfig: cfg}
	wwo := types.CopyWorkObject(s.header)
	wwo.Header().SetGasUsed(used0)
	order := common.ZONE_CTX
	env := &environment{wo: wwo, gasPool: new(types.GasPool).AddGas(gas0), etxRLimit: etxR0, etxPLimit: etxP0, parentOrder: &order,
		deletedUtxos: map[common.Hash]struct{}{}, utxoFees: new(big.Int), qiGasScalingFactor: 1.0}
	parent := types.EmptyWorkObject(common.ZONE_CTX)
	parent.WorkObjectHeader().SetLocation(qiLoc)
	// outputs already consumed by transactions included earlier in this pending block: an unrelated
	// one, and possibly the very outputs this transaction names
	var unrelated common.Hash
	unrelated[0] = 0xDD
	env.deletedUtxos[unrelated] = struct{}{}
	var reserved []common.Hash
	for i := 0; i < s.nIn; i++ {
		if e := s.inEntry[i]; e != nil && vBool("input"+string(rune('0'+i))+"AlreadyConsumedInThisBlock") {
			h := stubUTXOHash(s.ins[i].PreviousOutPoint.TxHash, s.ins[i].PreviousOutPoint.Index, e)
			env.deletedUtxos[h] = struct{}{}
			reserved = append(reserved, h)
		}
	}
	werr := wk.processQiTx(s.tx, env, s.chain.terminus, parent, first)
	vReach("worker-returned")
	_, stillUnrelated := env.deletedUtxos[unrelated]
	vAssert("worker/earlier-reservations-kept", stillUnrelated)
	for _, h := range reserved {
		_, still := env.deletedUtxos[h]
		vAssert("worker/rejected-double-spend-does-not-release-the-earlier-reservation", still)
	}
	if werr != nil {
		return
	}
	vReach("worker-included")
	vAssert("worker/never-includes-a-spend-of-an-output-consumed-earlier-in-the-block", len(reserved) == 0)
	// what the mempool established before the transaction could reach the worker
	for i := 0; i < s.nIn; i++ {
		e := s.inEntry[i]
		if e == nil {
			continue
		}
		owner := stubPubkeyBytesToAddress(s.ins[i].PubKey, qiLoc)
		vAssume(owner.Equal(common.BytesToAddress(e.Address, qiLoc)))
	}

	// validator, same parent state, same block position
	gp := new(types.GasPool).AddGas(gas0)
	usedGas := used0
	etxR, etxP := etxR0, etxP0
	ucd := &UtxosCreatedDeleted{}
	supAdd, supRem := new(big.Int), new(big.Int)
	signer := types.NewSigner(chainID, qiLoc)
	fee, etxs, receipt, err, _ := ProcessQiTx(s.tx, chain, false, first, s.header, &noopBatch{}, nil, gp, &usedGas, signer, qiLoc, *chainID, 1.0, &etxR, &etxP, ucd, supAdd, supRem, false)
	vReach("validator-returned")
	vAssert("own-block/qi-tx-accepted-by-validator", err == nil)
	if err != nil {
		return
	}
	vAssert("agree/receipt", receipt != nil && len(env.receipts) == 1)
	vAssert("agree/fee", fee.Cmp(env.utxoFees) == 0)
	vAssert("agree/gas-used", usedGas == env.wo.GasUsed())
	vAssert("agree/gas-pool", gp.Gas() == env.gasPool.Gas())
	vAssert("agree/etx-limits", etxR == env.etxRLimit && etxP == env.etxPLimit)
	vAssert("agree/deleted-commitments", sameHashes(ucd.UtxosDeletedHashes, env.utxosDelete))
	vAssert("agree/created-commitments", sameHashes(ucd.UtxosCreatedHashes, env.utxosCreate))
	vAssert("agree/etx-count", len(etxs) == len(env.etxs))
	for i := 0; i < len(etxs) && i < len(env.etxs); i++ {
		a, b := etxs[i], env.etxs[i]
		vAssert("agree/etx-fields", a.EtxType == b.EtxType() && a.Value.Cmp(b.Value()) == 0 && a.To.Equal(*b.To()) && a.ETXIndex == b.ETXIndex() && a.Gas == b.Gas() &&
			a.OriginatingTxHash == b.OriginatingTxHash() && string(a.Data) == string(b.Data()))
	}
}

// H-C07-q: worker/validator agreement on a plain Qi transfer, 1..2 inputs, 0..1 outputs, first Qi transaction of the block.
//
// verif:stub core/rawdb.GetUTXOWithBatch => stubGetUTXOWithBatch
// verif:stub core/rawdb.GetUTXO => stubGetUTXO
// verif:stub core/rawdb.DeleteUTXO => stubDeleteUTXO
// verif:stub core/rawdb.CreateUTXO => stubCreateUTXO
// verif:stub (*core/types.Transaction).Hash => stubTxHash
// verif:stub core/types.UTXOHash => stubUTXOHash
// verif:stub crypto.PubkeyBytesToAddress => stubPubkeyBytesToAddress
// verif:stub core/types.CalculateIntrinsicQiTxGas => stubIntrinsicQiTxGas
// verif:stub consensus/misc.CalculateQuaiReward => stubQuaiRewardCore
// verif:stub consensus/misc.CalculateQiReward => stubQiRewardCore
// verif:stub (*core.HeaderChain).NodeLocation => stubHcNodeLocationZone
// verif:stub (*core.HeaderChain).NodeCtx => stubHcNodeCtx
// verif:stub (*core.HeaderChain).CheckIfEtxIsEligible => stubHcCheckIfEtxIsEligible
// verif:stub (*core.HeaderChain).GetPrimeTerminus => stubHcGetPrimeTerminus
// verif:bounds decisions=900 paths=60000
func VerifH_C07_q() { c07QiAgreement(2, 1, 0, true, false) }

// H-C07-q1: worker/validator agreement, plain transfers with the merge rule on (not the first Qi transaction), 1 input, 0..2 outputs.
//
// verif:stub core/rawdb.GetUTXOWithBatch => stubGetUTXOWithBatch
// verif:stub core/rawdb.GetUTXO => stubGetUTXO
// verif:stub core/rawdb.DeleteUTXO => stubDeleteUTXO
// verif:stub core/rawdb.CreateUTXO => stubCreateUTXO
// verif:stub (*core/types.Transaction).Hash => stubTxHash
// verif:stub core/types.UTXOHash => stubUTXOHash
// verif:stub crypto.PubkeyBytesToAddress => stubPubkeyBytesToAddress
// verif:stub core/types.CalculateIntrinsicQiTxGas => stubIntrinsicQiTxGas
// verif:stub consensus/misc.CalculateQuaiReward => stubQuaiRewardCore
// verif:stub consensus/misc.CalculateQiReward => stubQiRewardCore
// verif:stub (*core.HeaderChain).NodeLocation => stubHcNodeLocationZone
// verif:stub (*core.HeaderChain).NodeCtx => stubHcNodeCtx
// verif:stub (*core.HeaderChain).CheckIfEtxIsEligible => stubHcCheckIfEtxIsEligible
// verif:stub (*core.HeaderChain).GetPrimeTerminus => stubHcGetPrimeTerminus
// verif:bounds decisions=900 paths=60000
func VerifH_C07_q1() { c07QiAgreement(1, 2, 0, false, false) }

// H-C07-q2: worker/validator agreement, Qi->Quai conversion transactions, 1 input, 0..1 outputs.
//
// verif:stub core/rawdb.GetUTXOWithBatch => stubGetUTXOWithBatch
// verif:stub core/rawdb.GetUTXO => stubGetUTXO
// verif:stub core/rawdb.DeleteUTXO => stubDeleteUTXO
// verif:stub core/rawdb.CreateUTXO => stubCreateUTXO
// verif:stub (*core/types.Transaction).Hash => stubTxHash
// verif:stub core/types.UTXOHash => stubUTXOHash
// verif:stub crypto.PubkeyBytesToAddress => stubPubkeyBytesToAddress
// verif:stub core/types.CalculateIntrinsicQiTxGas => stubIntrinsicQiTxGas
// verif:stub consensus/misc.CalculateQuaiReward => stubQuaiRewardCore
// verif:stub consensus/misc.CalculateQiReward => stubQiRewardCore
// verif:stub (*core.HeaderChain).NodeLocation => stubHcNodeLocationZone
// verif:stub (*core.HeaderChain).NodeCtx => stubHcNodeCtx
// verif:stub (*core.HeaderChain).CheckIfEtxIsEligible => stubHcCheckIfEtxIsEligible
// verif:stub (*core.HeaderChain).GetPrimeTerminus => stubHcGetPrimeTerminus
// verif:bounds decisions=900 paths=60000
func VerifH_C07_q2() { c07QiAgreement(1, 1, 2, true, false) }

// H-C07-q3: worker/validator agreement, wrapping transactions, 1 input, 0..1 outputs.
//
// verif:stub core/rawdb.GetUTXOWithBatch => stubGetUTXOWithBatch
// verif:stub core/rawdb.GetUTXO => stubGetUTXO
// verif:stub core/rawdb.DeleteUTXO => stubDeleteUTXO
// verif:stub core/rawdb.CreateUTXO => stubCreateUTXO
// verif:stub (*core/types.Transaction).Hash => stubTxHash
// verif:stub core/types.UTXOHash => stubUTXOHash
// verif:stub crypto.PubkeyBytesToAddress => stubPubkeyBytesToAddress
// verif:stub core/types.CalculateIntrinsicQiTxGas => stubIntrinsicQiTxGas
// verif:stub consensus/misc.CalculateQuaiReward => stubQuaiRewardCore
// verif:stub consensus/misc.CalculateQiReward => stubQiRewardCore
// verif:stub (*core.HeaderChain).NodeLocation => stubHcNodeLocationZone
// verif:stub (*core.HeaderChain).NodeCtx => stubHcNodeCtx
// verif:stub (*core.HeaderChain).CheckIfEtxIsEligible => stubHcCheckIfEtxIsEligible
// verif:stub (*core.HeaderChain).GetPrimeTerminus => stubHcGetPrimeTerminus
// verif:bounds decisions=900 paths=60000
func VerifH_C07_q3() { c07QiAgreement(1, 1, 1, true, false) }

// H-C07-q5: worker/validator agreement, arbitrary gas pool / gas used / ETX limits / fee rates, 1 input, 0..1 outputs.
//
// verif:stub core/rawdb.GetUTXOWithBatch => stubGetUTXOWithBatch
// verif:stub core/rawdb.GetUTXO => stubGetUTXO
// verif:stub core/rawdb.DeleteUTXO => stubDeleteUTXO
// verif:stub core/rawdb.CreateUTXO => stubCreateUTXO
// verif:stub (*core/types.Transaction).Hash => stubTxHash
// verif:stub core/types.UTXOHash => stubUTXOHash
// verif:stub crypto.PubkeyBytesToAddress => stubPubkeyBytesToAddress
// verif:stub core/types.CalculateIntrinsicQiTxGas => stubIntrinsicQiTxGas
// verif:stub consensus/misc.CalculateQuaiReward => stubQuaiRewardCore
// verif:stub consensus/misc.CalculateQiReward => stubQiRewardCore
// verif:stub (*core.HeaderChain).NodeLocation => stubHcNodeLocationZone
// verif:stub (*core.HeaderChain).NodeCtx => stubHcNodeCtx
// verif:stub (*core.HeaderChain).CheckIfEtxIsEligible => stubHcCheckIfEtxIsEligible
// verif:stub (*core.HeaderChain).GetPrimeTerminus => stubHcGetPrimeTerminus
// verif:bounds decisions=900 paths=60000
func VerifH_C07_q5() { c07QiAgreement(1, 1, 0, false, true) }
