//go:build verif

package core

import (
	"errors"
	"math/big"

	"github.com/btcsuite/btcd/btcec/v2"
	"github.com/btcsuite/btcd/btcec/v2/schnorr"
	"github.com/btcsuite/btcd/btcec/v2/schnorr/musig2"
	"github.com/dominant-strategies/go-quai/common"
	"github.com/dominant-strategies/go-quai/consensus"
	"github.com/dominant-strategies/go-quai/core/types"
	"github.com/dominant-strategies/go-quai/ethdb"
	"github.com/dominant-strategies/go-quai/params"
)

// ---------- environment model for the Qi transaction path ----------

type outKey struct {
	h common.Hash
	i uint16
}

// utxoView is the read-your-writes view of the UTXO set through (db, batch): the contract that
// rawdb.GetUTXOWithBatch / DeleteUTXO / CreateUTXO implement over any batch with pending tracking
// (decided separately: H-C17-a for the batches, H-C01-c for the accessors).
type utxoView struct {
	base    map[outKey]*types.UtxoEntry
	created map[outKey]*types.UtxoEntry
	deleted map[outKey]bool
	nDelete int
	dels    []outKey
	puts    []outKey
}

var qiView *utxoView

func stubGetUTXOWithBatch(db ethdb.Reader, batch ethdb.Batch, txHash common.Hash, index uint16) *types.UtxoEntry {
	k := outKey{txHash, index}
	if qiView.deleted[k] {
		return nil
	}
	if e, ok := qiView.created[k]; ok {
		return e
	}
	return qiView.base[k]
}

// stubGetUTXO: the committed database alone (no batch awareness) — what rawdb.GetUTXO sees.
func stubGetUTXO(db ethdb.KeyValueReader, txHash common.Hash, index uint16) *types.UtxoEntry {
	return qiView.base[outKey{txHash, index}]
}

func stubDeleteUTXO(db ethdb.KeyValueWriter, txHash common.Hash, index uint16) {
	k := outKey{txHash, index}
	qiView.deleted[k] = true
	delete(qiView.created, k)
	qiView.dels = append(qiView.dels, k)
}

func stubCreateUTXO(db ethdb.KeyValueWriter, txHash common.Hash, index uint16, utxo *types.UtxoEntry) error {
	k := outKey{txHash, index}
	qiView.created[k] = utxo
	delete(qiView.deleted, k)
	qiView.puts = append(qiView.puts, k)
	return nil
}

var qiTxHash common.Hash

func stubTxHash(tx *types.Transaction, location ...byte) common.Hash { return qiTxHash }

func stubUTXOHash(txHash common.Hash, index uint16, utxo *types.UtxoEntry) common.Hash {
	lock := new(big.Int)
	if utxo.Lock != nil {
		lock = utxo.Lock
	}
	return common.Hash(vUF32("utxoHash", new(big.Int).SetBytes(txHash[:]), big.NewInt(int64(index)), big.NewInt(int64(utxo.Denomination)),
		new(big.Int).SetBytes(utxo.Address), lock))
}

// public keys are 33-byte strings whose last byte is an arbitrary id; the address they control is
// an uninterpreted function of the key bytes.
func stubPubkeyBytesToAddress(pub []byte, nodeLocation common.Location) common.Address {
	return common.BytesToAddress(vUF("pubkeyAddress", 20, pub), nodeLocation)
}

var parsedKeys map[*btcec.PublicKey][]byte
var aggregated map[*btcec.PublicKey][][]byte

func stubParsePubKey(b []byte) (*btcec.PublicKey, error) {
	if vBool("pubkeyMalformed") {
		return nil, errors.New("malformed public key")
	}
	k := new(btcec.PublicKey)
	parsedKeys[k] = b
	return k, nil
}

func stubAggregateKeys(keys []*btcec.PublicKey, sort bool, keyOpts ...musig2.KeyAggOption) (*musig2.AggregateKey, *btcec.ModNScalar, *btcec.ModNScalar, error) {
	final := new(btcec.PublicKey)
	var parts [][]byte
	for _, k := range keys {
		parts = append(parts, parsedKeys[k])
	}
	aggregated[final] = parts
	return &musig2.AggregateKey{FinalKey: final}, nil, nil, nil
}

var sigChecked bool
var sigResult bool
var sigKey *btcec.PublicKey
var sigDigest []byte

func stubSchnorrVerify(sig *schnorr.Signature, hash []byte, pubKey *btcec.PublicKey) bool {
	sigChecked = true
	sigKey = pubKey
	sigDigest = append([]byte{}, hash...)
	sigResult = vBool("signatureValid")
	return sigResult
}

// The fee arithmetic (Qi fee converted to Quai at the block's rates, compared with gas * base fee)
// is nonlinear in (rates, base fee, gas). It is exercised with arbitrary values only by the
// harness that targets the gas / fee exits (qiSymbolicFees); elsewhere the rates, the base fee and
// the intrinsic gas are fixed constants, because conservation, ownership and bookkeeping do not
// depend on them.
var qiSymbolicFees bool

func stubIntrinsicQiTxGas(tx *types.Transaction, scalingFactor float64) uint64 {
	if !qiSymbolicFees {
		return 1000
	}
	// a deterministic function of the transaction: chosen once per scenario
	if qiIntrinsicGas == nil {
		g := uint64(vU16("intrinsicGas"))
		qiIntrinsicGas = &g
	}
	return *qiIntrinsicGas
}

var qiIntrinsicGas *uint64

func stubQuaiRewardCore(header *types.WorkObjectHeader, difficulty *big.Int, exchangeRate *big.Int) *big.Int {
	if !qiSymbolicFees {
		return big.NewInt(1000000)
	}
	r := vUFBig("quaiReward", difficulty, exchangeRate)
	vAssume(r.Sign() > 0)
	return r
}

func stubQiRewardCore(header *types.WorkObjectHeader, difficulty *big.Int) *big.Int {
	if !qiSymbolicFees {
		return big.NewInt(7)
	}
	r := vUFBig("qiReward", difficulty)
	vAssume(r.Sign() > 0)
	return r
}

type modelChain struct {
	terminus *types.WorkObject
}

func (m *modelChain) Engine(header *types.WorkObjectHeader) consensus.Engine    { return nil }
func (m *modelChain) GetHeaderOrCandidateByHash(common.Hash) *types.WorkObject { return m.terminus }
func (m *modelChain) NodeCtx() int                                             { return common.ZONE_CTX }
func (m *modelChain) IsGenesisHash(common.Hash) bool                           { return false }
func (m *modelChain) GetHeaderByHash(common.Hash) *types.WorkObject            { return m.terminus }
func (m *modelChain) GetBlockByHash(hash common.Hash) *types.WorkObject        { return m.terminus }
func (m *modelChain) CheckIfEtxIsEligible(common.Hash, common.Location) bool   { return vBool("etxEligible") }
func (m *modelChain) CheckInCalcOrderCache(common.Hash) (*big.Int, int, bool)  { return nil, 0, false }
func (m *modelChain) AddToCalcOrderCache(common.Hash, int, *big.Int)           {}
func (m *modelChain) CalcBaseFee(*types.WorkObject) *big.Int                   { return big.NewInt(1) }
func (m *modelChain) CalcOrder(header *types.WorkObject) (*big.Int, int, error) {
	return big.NewInt(0), common.ZONE_CTX, nil
}

var qiLoc = common.Location{0, 0}

func vQiAddr(tag string) []byte {
	a := make([]byte, 20)
	a[0], a[1], a[19] = vU8(tag+"Zone"), vU8(tag+"Ledger"), vU8(tag+"Id")
	return a
}

func vOutPointHash(tag string) common.Hash {
	var h common.Hash
	h[31] = vU8(tag)
	return h
}

func denomValue(d uint8) *big.Int { return types.Denominations[d] }

type qiScenario struct {
	tx       *types.Transaction
	view     *utxoView
	header   *types.WorkObject
	chain    *modelChain
	nIn, nOut int
	ins      []types.TxIn
	outs     []types.TxOut
	inEntry  []*types.UtxoEntry
}

// vQiScenario builds an arbitrary Qi transaction with <= maxIn inputs and <= maxOut outputs over an
// arbitrary UTXO view: each outpoint (1 symbolic hash byte, index < 4) may or may not be present in
// the base set with an arbitrary entry (denomination, address, lock); outpoints of different inputs
// may coincide (the solver decides).
func vQiScenario(maxIn, maxOut int, dataKind int) *qiScenario {
	s := &qiScenario{}
	qiView = &utxoView{base: map[outKey]*types.UtxoEntry{}, created: map[outKey]*types.UtxoEntry{}, deleted: map[outKey]bool{}}
	s.view = qiView
	parsedKeys = map[*btcec.PublicKey][]byte{}
	aggregated = map[*btcec.PublicKey][][]byte{}
	sigChecked, sigResult, sigKey, sigDigest = false, false, nil, nil
	qiIntrinsicGas = nil
	qiTxHash = common.BytesToHash([]byte{0xaa, 0xbb})
	s.nIn = 1 + vLen("extraInputs", maxIn-1)
	s.nOut = vLen("outputs", maxOut)
	inTags := []string{"in0", "in1", "in2"}
	outTags := []string{"out0", "out1", "out2"}
	for i := 0; i < s.nIn; i++ {
		t := inTags[i]
		op := types.OutPoint{TxHash: vOutPointHash(t + "Hash"), Index: uint16(vU8(t+"Index") % 4)}
		pub := make([]byte, 33)
		pub[0], pub[32] = 2, vU8(t+"Key")
		s.ins = append(s.ins, types.TxIn{PreviousOutPoint: op, PubKey: pub})
		var e *types.UtxoEntry
		k := outKey{op.TxHash, op.Index}
		if prev, ok := qiView.base[k]; ok {
			e = prev // same outpoint named again
		} else if vBool(t + "Exists") {
			e = &types.UtxoEntry{Denomination: vU8(t + "Denomination"), Address: vQiAddr(t + "Owner"), Lock: new(big.Int).SetUint64(uint64(vU32(t + "Lock")))}
			qiView.base[k] = e
		}
		s.inEntry = append(s.inEntry, e)
	}
	for i := 0; i < s.nOut; i++ {
		t := outTags[i]
		var lock *big.Int
		if vBool(t + "HasLock") {
			lock = new(big.Int).SetUint64(uint64(vU8(t + "Lock")))
		}
		s.outs = append(s.outs, types.TxOut{Denomination: vU8(t + "Denomination"), Address: vQiAddr(t + "To"), Lock: lock})
	}
	var data []byte
	switch dataKind {
	case 1:
		data = vQiAddr("dataContract")
	case 2:
		data = make([]byte, params.MaxQiTxDataLength)
		copy(data[2:22], vQiAddr("dataRefund"))
	case 3:
		data = []byte{1, 2, 3}
	}
	s.tx = types.NewTx(&types.QiTx{ChainID: big.NewInt(int64(vU16("txChainId"))), TxIn: s.ins, TxOut: s.outs, Data: data})
	h := types.EmptyWorkObject(common.ZONE_CTX)
	h.WorkObjectHeader().SetLocation(qiLoc)
	h.WorkObjectHeader().SetNumber(new(big.Int).SetUint64(uint64(vU32("height"))))
	h.WorkObjectHeader().SetDifficulty(big.NewInt(1000000))
	h.WorkObjectHeader().SetPrimeTerminusNumber(new(big.Int).SetUint64(uint64(vU32("primeTerminusNumber"))))
	h.Header().SetGasLimit(vU64("gasLimit"))
	bf := big.NewInt(3)
	if qiSymbolicFees {
		bf = vBigN("baseFee", 32)
		vAssume(bf.Sign() > 0)
	}
	h.Header().SetBaseFee(bf)
	s.header = h
	term := types.EmptyWorkObject(common.ZONE_CTX)
	term.Header().SetExchangeRate(big.NewInt(1000))
	s.chain = &modelChain{terminus: term}
	if vBool("terminusMissing") {
		s.chain.terminus = nil
	}
	return s
}

// ProcessQiTx on an arbitrary Qi transaction over an arbitrary UTXO view, in every fork regime: when
// it accepts,
//  (1) every input outpoint was unspent in the view, is owned by the address of the input's key,
//      is unlocked at this height, and no outpoint is consumed twice inside the transaction;
//  (2) value is conserved: sum of consumed denominations = sum of locally created outputs + value
//      of emitted ETXs + the returned fee, and the fee is non-negative;
//  (3) the recorded deletions / creations are exactly the consumed inputs / local outputs;
//  (4) with signature checking on, the Schnorr check ran over the signer's digest with the key
//      (aggregate) of exactly the inputs' keys and returned true.
// The scenario space is covered by a family of harnesses (a product of all dimensions explodes):
//  H-C01-a    plain transfers, 1..2 inputs, 0..1 outputs (quick)
//  H-C01-a1   plain transfers with the merge rule on, 1 input, 0..2 outputs (quick)
//  H-C01-a2   Qi->Quai conversion transactions (22-byte data), 1 input, 0..1 outputs (quick)
//  H-C01-a3   wrapping transactions (20-byte data), 1 input, 0..1 outputs (quick)
//  H-C01-a4   signature checking on, 1..2 inputs, no outputs (quick)
//  H-C01-a5   arbitrary gas pool / gas used / ETX gas limits / fee rates, 1 input, 0..1 outputs (quick)
//  H-C01-a6   malformed data length, 1 input, 0..1 outputs (quick)
//  H-C01-a7   plain transfers, 1..2 inputs, 0..2 outputs, merge rule on (thorough)
//  H-C01-a8   conversion transactions, 1..2 inputs, 0..2 outputs (thorough)
//  H-C01-a9   wrapping transactions, 1 input, 0..2 outputs (thorough)
//  H-C01-a10  signature checking, 1..2 inputs, 0..1 outputs (thorough)
//  H-C01-a11  gas / limit / fee exits, 1 input, 0..2 outputs (thorough)
//  H-C01-a12  plain transfers, 1..3 inputs, 0..2 outputs (thorough)
//
// verif:stub core/rawdb.GetUTXOWithBatch => stubGetUTXOWithBatch
// verif:stub core/rawdb.GetUTXO => stubGetUTXO
// verif:stub core/rawdb.DeleteUTXO => stubDeleteUTXO
// verif:stub core/rawdb.CreateUTXO => stubCreateUTXO
// verif:stub (*core/types.Transaction).Hash => stubTxHash
// verif:stub core/types.UTXOHash => stubUTXOHash
// verif:stub crypto.PubkeyBytesToAddress => stubPubkeyBytesToAddress
// verif:stub github.com/btcsuite/btcd/btcec/v2.ParsePubKey => stubParsePubKey
// verif:stub github.com/btcsuite/btcd/btcec/v2/schnorr/musig2.AggregateKeys => stubAggregateKeys
// verif:stub (*github.com/btcsuite/btcd/btcec/v2/schnorr.Signature).Verify => stubSchnorrVerify
// verif:stub core/types.CalculateIntrinsicQiTxGas => stubIntrinsicQiTxGas
// verif:stub consensus/misc.CalculateQuaiReward => stubQuaiRewardCore
// verif:stub consensus/misc.CalculateQiReward => stubQiRewardCore
// verif:bounds decisions=600 paths=60000
func VerifH_C01_a() { qiHarness(2, 1, 0, false, true, false) }

// H-C01-a1: ProcessQiTx, plain transfers with the merge rule on, 1 input, 0..2 outputs (obligations as H-C01-a).
//
// verif:stub core/rawdb.GetUTXOWithBatch => stubGetUTXOWithBatch
// verif:stub core/rawdb.GetUTXO => stubGetUTXO
// verif:stub core/rawdb.DeleteUTXO => stubDeleteUTXO
// verif:stub core/rawdb.CreateUTXO => stubCreateUTXO
// verif:stub (*core/types.Transaction).Hash => stubTxHash
// verif:stub core/types.UTXOHash => stubUTXOHash
// verif:stub crypto.PubkeyBytesToAddress => stubPubkeyBytesToAddress
// verif:stub github.com/btcsuite/btcd/btcec/v2.ParsePubKey => stubParsePubKey
// verif:stub github.com/btcsuite/btcd/btcec/v2/schnorr/musig2.AggregateKeys => stubAggregateKeys
// verif:stub (*github.com/btcsuite/btcd/btcec/v2/schnorr.Signature).Verify => stubSchnorrVerify
// verif:stub core/types.CalculateIntrinsicQiTxGas => stubIntrinsicQiTxGas
// verif:stub consensus/misc.CalculateQuaiReward => stubQuaiRewardCore
// verif:stub consensus/misc.CalculateQiReward => stubQiRewardCore
// verif:bounds decisions=600 paths=60000
func VerifH_C01_a1() { qiHarness(1, 2, 0, false, false, false) }

// H-C01-a2: ProcessQiTx, Qi->Quai conversion transactions (22-byte data), 1 input, 0..1 outputs (obligations as H-C01-a).
//
// verif:stub core/rawdb.GetUTXOWithBatch => stubGetUTXOWithBatch
// verif:stub core/rawdb.GetUTXO => stubGetUTXO
// verif:stub core/rawdb.DeleteUTXO => stubDeleteUTXO
// verif:stub core/rawdb.CreateUTXO => stubCreateUTXO
// verif:stub (*core/types.Transaction).Hash => stubTxHash
// verif:stub core/types.UTXOHash => stubUTXOHash
// verif:stub crypto.PubkeyBytesToAddress => stubPubkeyBytesToAddress
// verif:stub github.com/btcsuite/btcd/btcec/v2.ParsePubKey => stubParsePubKey
// verif:stub github.com/btcsuite/btcd/btcec/v2/schnorr/musig2.AggregateKeys => stubAggregateKeys
// verif:stub (*github.com/btcsuite/btcd/btcec/v2/schnorr.Signature).Verify => stubSchnorrVerify
// verif:stub core/types.CalculateIntrinsicQiTxGas => stubIntrinsicQiTxGas
// verif:stub consensus/misc.CalculateQuaiReward => stubQuaiRewardCore
// verif:stub consensus/misc.CalculateQiReward => stubQiRewardCore
// verif:bounds decisions=600 paths=60000
func VerifH_C01_a2() { qiHarness(1, 1, 2, false, true, false) }

// H-C01-a3: ProcessQiTx, wrapping transactions (20-byte data), 1 input, 0..1 outputs (obligations as H-C01-a).
//
// verif:stub core/rawdb.GetUTXOWithBatch => stubGetUTXOWithBatch
// verif:stub core/rawdb.GetUTXO => stubGetUTXO
// verif:stub core/rawdb.DeleteUTXO => stubDeleteUTXO
// verif:stub core/rawdb.CreateUTXO => stubCreateUTXO
// verif:stub (*core/types.Transaction).Hash => stubTxHash
// verif:stub core/types.UTXOHash => stubUTXOHash
// verif:stub crypto.PubkeyBytesToAddress => stubPubkeyBytesToAddress
// verif:stub github.com/btcsuite/btcd/btcec/v2.ParsePubKey => stubParsePubKey
// verif:stub github.com/btcsuite/btcd/btcec/v2/schnorr/musig2.AggregateKeys => stubAggregateKeys
// verif:stub (*github.com/btcsuite/btcd/btcec/v2/schnorr.Signature).Verify => stubSchnorrVerify
// verif:stub core/types.CalculateIntrinsicQiTxGas => stubIntrinsicQiTxGas
// verif:stub consensus/misc.CalculateQuaiReward => stubQuaiRewardCore
// verif:stub consensus/misc.CalculateQiReward => stubQiRewardCore
// verif:bounds decisions=600 paths=60000
func VerifH_C01_a3() { qiHarness(1, 1, 1, false, true, false) }

// H-C01-a4: ProcessQiTx, signature checking on, 1..2 inputs, no outputs (obligations as H-C01-a).
//
// verif:stub core/rawdb.GetUTXOWithBatch => stubGetUTXOWithBatch
// verif:stub core/rawdb.GetUTXO => stubGetUTXO
// verif:stub core/rawdb.DeleteUTXO => stubDeleteUTXO
// verif:stub core/rawdb.CreateUTXO => stubCreateUTXO
// verif:stub (*core/types.Transaction).Hash => stubTxHash
// verif:stub core/types.UTXOHash => stubUTXOHash
// verif:stub crypto.PubkeyBytesToAddress => stubPubkeyBytesToAddress
// verif:stub github.com/btcsuite/btcd/btcec/v2.ParsePubKey => stubParsePubKey
// verif:stub github.com/btcsuite/btcd/btcec/v2/schnorr/musig2.AggregateKeys => stubAggregateKeys
// verif:stub (*github.com/btcsuite/btcd/btcec/v2/schnorr.Signature).Verify => stubSchnorrVerify
// verif:stub core/types.CalculateIntrinsicQiTxGas => stubIntrinsicQiTxGas
// verif:stub consensus/misc.CalculateQuaiReward => stubQuaiRewardCore
// verif:stub consensus/misc.CalculateQiReward => stubQiRewardCore
// verif:bounds decisions=600 paths=60000
func VerifH_C01_a4() { qiHarness(2, 0, 0, true, true, false) }

// H-C01-a5: ProcessQiTx, arbitrary gas pool / gas used / ETX gas limits / fee rates, 1 input, 0..1 outputs (obligations as H-C01-a).
//
// verif:stub core/rawdb.GetUTXOWithBatch => stubGetUTXOWithBatch
// verif:stub core/rawdb.GetUTXO => stubGetUTXO
// verif:stub core/rawdb.DeleteUTXO => stubDeleteUTXO
// verif:stub core/rawdb.CreateUTXO => stubCreateUTXO
// verif:stub (*core/types.Transaction).Hash => stubTxHash
// verif:stub core/types.UTXOHash => stubUTXOHash
// verif:stub crypto.PubkeyBytesToAddress => stubPubkeyBytesToAddress
// verif:stub github.com/btcsuite/btcd/btcec/v2.ParsePubKey => stubParsePubKey
// verif:stub github.com/btcsuite/btcd/btcec/v2/schnorr/musig2.AggregateKeys => stubAggregateKeys
// verif:stub (*github.com/btcsuite/btcd/btcec/v2/schnorr.Signature).Verify => stubSchnorrVerify
// verif:stub core/types.CalculateIntrinsicQiTxGas => stubIntrinsicQiTxGas
// verif:stub consensus/misc.CalculateQuaiReward => stubQuaiRewardCore
// verif:stub consensus/misc.CalculateQiReward => stubQiRewardCore
// verif:bounds decisions=600 paths=60000
func VerifH_C01_a5() { qiHarness(1, 1, 0, false, false, true) }

// H-C01-a6: ProcessQiTx, malformed data length, 1 input, 0..1 outputs (obligations as H-C01-a).
//
// verif:stub core/rawdb.GetUTXOWithBatch => stubGetUTXOWithBatch
// verif:stub core/rawdb.GetUTXO => stubGetUTXO
// verif:stub core/rawdb.DeleteUTXO => stubDeleteUTXO
// verif:stub core/rawdb.CreateUTXO => stubCreateUTXO
// verif:stub (*core/types.Transaction).Hash => stubTxHash
// verif:stub core/types.UTXOHash => stubUTXOHash
// verif:stub crypto.PubkeyBytesToAddress => stubPubkeyBytesToAddress
// verif:stub github.com/btcsuite/btcd/btcec/v2.ParsePubKey => stubParsePubKey
// verif:stub github.com/btcsuite/btcd/btcec/v2/schnorr/musig2.AggregateKeys => stubAggregateKeys
// verif:stub (*github.com/btcsuite/btcd/btcec/v2/schnorr.Signature).Verify => stubSchnorrVerify
// verif:stub core/types.CalculateIntrinsicQiTxGas => stubIntrinsicQiTxGas
// verif:stub consensus/misc.CalculateQuaiReward => stubQuaiRewardCore
// verif:stub consensus/misc.CalculateQiReward => stubQiRewardCore
// verif:bounds decisions=600 paths=60000
func VerifH_C01_a6() { qiHarness(1, 1, 3, false, true, false) }

// H-C01-a7: ProcessQiTx, plain transfers, 1..2 inputs, 0..2 outputs, merge rule on (obligations as H-C01-a).
//
// verif:stub core/rawdb.GetUTXOWithBatch => stubGetUTXOWithBatch
// verif:stub core/rawdb.GetUTXO => stubGetUTXO
// verif:stub core/rawdb.DeleteUTXO => stubDeleteUTXO
// verif:stub core/rawdb.CreateUTXO => stubCreateUTXO
// verif:stub (*core/types.Transaction).Hash => stubTxHash
// verif:stub core/types.UTXOHash => stubUTXOHash
// verif:stub crypto.PubkeyBytesToAddress => stubPubkeyBytesToAddress
// verif:stub github.com/btcsuite/btcd/btcec/v2.ParsePubKey => stubParsePubKey
// verif:stub github.com/btcsuite/btcd/btcec/v2/schnorr/musig2.AggregateKeys => stubAggregateKeys
// verif:stub (*github.com/btcsuite/btcd/btcec/v2/schnorr.Signature).Verify => stubSchnorrVerify
// verif:stub core/types.CalculateIntrinsicQiTxGas => stubIntrinsicQiTxGas
// verif:stub consensus/misc.CalculateQuaiReward => stubQuaiRewardCore
// verif:stub consensus/misc.CalculateQiReward => stubQiRewardCore
// verif:bounds decisions=600 paths=400000 budget=40m
// verif:tier thorough
func VerifH_C01_a7() { qiHarness(2, 2, 0, false, false, false) }

// H-C01-a8: ProcessQiTx, conversion transactions, 1..2 inputs, 0..2 outputs (obligations as H-C01-a).
//
// verif:stub core/rawdb.GetUTXOWithBatch => stubGetUTXOWithBatch
// verif:stub core/rawdb.GetUTXO => stubGetUTXO
// verif:stub core/rawdb.DeleteUTXO => stubDeleteUTXO
// verif:stub core/rawdb.CreateUTXO => stubCreateUTXO
// verif:stub (*core/types.Transaction).Hash => stubTxHash
// verif:stub core/types.UTXOHash => stubUTXOHash
// verif:stub crypto.PubkeyBytesToAddress => stubPubkeyBytesToAddress
// verif:stub github.com/btcsuite/btcd/btcec/v2.ParsePubKey => stubParsePubKey
// verif:stub github.com/btcsuite/btcd/btcec/v2/schnorr/musig2.AggregateKeys => stubAggregateKeys
// verif:stub (*github.com/btcsuite/btcd/btcec/v2/schnorr.Signature).Verify => stubSchnorrVerify
// verif:stub core/types.CalculateIntrinsicQiTxGas => stubIntrinsicQiTxGas
// verif:stub consensus/misc.CalculateQuaiReward => stubQuaiRewardCore
// verif:stub consensus/misc.CalculateQiReward => stubQiRewardCore
// verif:bounds decisions=600 paths=400000 budget=40m
// verif:tier thorough
func VerifH_C01_a8() { qiHarness(2, 2, 2, false, true, false) }

// H-C01-a9: ProcessQiTx, wrapping transactions, 1 input, 0..2 outputs (obligations as H-C01-a).
//
// verif:stub core/rawdb.GetUTXOWithBatch => stubGetUTXOWithBatch
// verif:stub core/rawdb.GetUTXO => stubGetUTXO
// verif:stub core/rawdb.DeleteUTXO => stubDeleteUTXO
// verif:stub core/rawdb.CreateUTXO => stubCreateUTXO
// verif:stub (*core/types.Transaction).Hash => stubTxHash
// verif:stub core/types.UTXOHash => stubUTXOHash
// verif:stub crypto.PubkeyBytesToAddress => stubPubkeyBytesToAddress
// verif:stub github.com/btcsuite/btcd/btcec/v2.ParsePubKey => stubParsePubKey
// verif:stub github.com/btcsuite/btcd/btcec/v2/schnorr/musig2.AggregateKeys => stubAggregateKeys
// verif:stub (*github.com/btcsuite/btcd/btcec/v2/schnorr.Signature).Verify => stubSchnorrVerify
// verif:stub core/types.CalculateIntrinsicQiTxGas => stubIntrinsicQiTxGas
// verif:stub consensus/misc.CalculateQuaiReward => stubQuaiRewardCore
// verif:stub consensus/misc.CalculateQiReward => stubQiRewardCore
// verif:bounds decisions=600 paths=400000 budget=40m
// verif:tier thorough
func VerifH_C01_a9() { qiHarness(1, 2, 1, false, true, false) }

// H-C01-a10: ProcessQiTx, signature checking, 1..2 inputs, 0..1 outputs (obligations as H-C01-a).
//
// verif:stub core/rawdb.GetUTXOWithBatch => stubGetUTXOWithBatch
// verif:stub core/rawdb.GetUTXO => stubGetUTXO
// verif:stub core/rawdb.DeleteUTXO => stubDeleteUTXO
// verif:stub core/rawdb.CreateUTXO => stubCreateUTXO
// verif:stub (*core/types.Transaction).Hash => stubTxHash
// verif:stub core/types.UTXOHash => stubUTXOHash
// verif:stub crypto.PubkeyBytesToAddress => stubPubkeyBytesToAddress
// verif:stub github.com/btcsuite/btcd/btcec/v2.ParsePubKey => stubParsePubKey
// verif:stub github.com/btcsuite/btcd/btcec/v2/schnorr/musig2.AggregateKeys => stubAggregateKeys
// verif:stub (*github.com/btcsuite/btcd/btcec/v2/schnorr.Signature).Verify => stubSchnorrVerify
// verif:stub core/types.CalculateIntrinsicQiTxGas => stubIntrinsicQiTxGas
// verif:stub consensus/misc.CalculateQuaiReward => stubQuaiRewardCore
// verif:stub consensus/misc.CalculateQiReward => stubQiRewardCore
// verif:bounds decisions=600 paths=400000 budget=40m
// verif:tier thorough
func VerifH_C01_a10() { qiHarness(2, 1, 0, true, true, false) }

// H-C01-a11: ProcessQiTx, gas / limit / fee exits, 1 input, 0..2 outputs (obligations as H-C01-a).
//
// verif:stub core/rawdb.GetUTXOWithBatch => stubGetUTXOWithBatch
// verif:stub core/rawdb.GetUTXO => stubGetUTXO
// verif:stub core/rawdb.DeleteUTXO => stubDeleteUTXO
// verif:stub core/rawdb.CreateUTXO => stubCreateUTXO
// verif:stub (*core/types.Transaction).Hash => stubTxHash
// verif:stub core/types.UTXOHash => stubUTXOHash
// verif:stub crypto.PubkeyBytesToAddress => stubPubkeyBytesToAddress
// verif:stub github.com/btcsuite/btcd/btcec/v2.ParsePubKey => stubParsePubKey
// verif:stub github.com/btcsuite/btcd/btcec/v2/schnorr/musig2.AggregateKeys => stubAggregateKeys
// verif:stub (*github.com/btcsuite/btcd/btcec/v2/schnorr.Signature).Verify => stubSchnorrVerify
// verif:stub core/types.CalculateIntrinsicQiTxGas => stubIntrinsicQiTxGas
// verif:stub consensus/misc.CalculateQuaiReward => stubQuaiRewardCore
// verif:stub consensus/misc.CalculateQiReward => stubQiRewardCore
// verif:bounds decisions=600 paths=400000 budget=40m
// verif:tier thorough
func VerifH_C01_a11() { qiHarness(1, 2, 0, false, false, true) }

// H-C01-a12: ProcessQiTx, plain transfers, 1..3 inputs, 0..2 outputs (obligations as H-C01-a).
//
// verif:stub core/rawdb.GetUTXOWithBatch => stubGetUTXOWithBatch
// verif:stub core/rawdb.GetUTXO => stubGetUTXO
// verif:stub core/rawdb.DeleteUTXO => stubDeleteUTXO
// verif:stub core/rawdb.CreateUTXO => stubCreateUTXO
// verif:stub (*core/types.Transaction).Hash => stubTxHash
// verif:stub core/types.UTXOHash => stubUTXOHash
// verif:stub crypto.PubkeyBytesToAddress => stubPubkeyBytesToAddress
// verif:stub github.com/btcsuite/btcd/btcec/v2.ParsePubKey => stubParsePubKey
// verif:stub github.com/btcsuite/btcd/btcec/v2/schnorr/musig2.AggregateKeys => stubAggregateKeys
// verif:stub (*github.com/btcsuite/btcd/btcec/v2/schnorr.Signature).Verify => stubSchnorrVerify
// verif:stub core/types.CalculateIntrinsicQiTxGas => stubIntrinsicQiTxGas
// verif:stub consensus/misc.CalculateQuaiReward => stubQuaiRewardCore
// verif:stub consensus/misc.CalculateQiReward => stubQiRewardCore
// verif:bounds decisions=600 paths=400000 budget=40m
// verif:tier thorough
func VerifH_C01_a12() { qiHarness(3, 2, 0, false, true, false) }

func qiHarness(maxIn, maxOut, dataKind int, checkSig, first, symbolicLimits bool) {
	qiSymbolicFees = symbolicLimits
	s := vQiScenario(maxIn, maxOut, dataKind)
	// gas pool, gas used so far and the cross-region / cross-prime ETX gas limits are arbitrary only in
	// the harness that targets those exits; elsewhere they are ample constants
	gp := new(types.GasPool).AddGas(1 << 40)
	usedGas := uint64(0)
	etxR, etxP := uint64(1<<40), uint64(1<<40)
	if symbolicLimits {
		gp = new(types.GasPool).AddGas(vU64("gasPool"))
		usedGas = uint64(vU32("usedGasBefore"))
		etxR, etxP = vU64("etxRLimit"), vU64("etxPLimit")
	}
	ucd := &UtxosCreatedDeleted{AddressOutpointsToAddMap: map[[20]byte][]*types.OutpointAndDenomination{}, AddressOutpointsToRemoveMap: map[[20]byte][]*types.OutPoint{}}
	supAdd, supRem := new(big.Int), new(big.Int)
	chainID := big.NewInt(int64(vU16("chainId")))
	signer := types.NewSigner(chainID, qiLoc)
	batch := ethdb.Batch(nil)
	_ = batch

	fee, etxs, receipt, err, _ := ProcessQiTx(s.tx, s.chain, checkSig, first, s.header, &noopBatch{}, nil, gp, &usedGas, signer, qiLoc, *chainID, 1.0, &etxR, &etxP, ucd, supAdd, supRem, false)

	vReach("returned")
	if err != nil {
		vReach("rejected")
		return
	}
	vReach("accepted")
	if s.header.PrimeTerminusNumber().Uint64() >= params.QiWrappingChangeBlock {
		vFact("regime", "post-qi-wrapping-change")
	} else {
		vFact("regime", "pre-qi-wrapping-change")
	}
	vAssert("accept/receipt", receipt != nil && fee != nil)
	// (1) inputs
	height := s.header.Number(common.ZONE_CTX)
	in := new(big.Int)
	for i := 0; i < s.nIn; i++ {
		e := s.inEntry[i]
		vAssert("input/was-unspent", e != nil)
		if e == nil {
			return
		}
		for j := 0; j < i; j++ {
			vAssert("input/outpoint-consumed-once", s.ins[i].PreviousOutPoint != s.ins[j].PreviousOutPoint)
		}
		owner := stubPubkeyBytesToAddress(s.ins[i].PubKey, qiLoc)
		vAssert("input/owned-by-key", owner.Equal(common.BytesToAddress(e.Address, qiLoc)))
		vAssert("input/owner-is-qi-address", owner.IsInQiLedgerScope())
		vAssert("input/unlocked", e.Lock.Cmp(height) <= 0)
		vAssert("input/denomination-valid", e.Denomination <= types.MaxDenomination)
		if e.Denomination > types.MaxDenomination {
			return
		}
		in.Add(in, denomValue(e.Denomination))
	}
	// (2) conservation
	out := new(big.Int)
	for k := range qiView.created {
		vAssert("created/under-this-tx", k.h == qiTxHash)
	}
	for _, k := range qiView.puts {
		e := qiView.created[k]
		out.Add(out, denomValue(e.Denomination))
		a := common.BytesToAddress(e.Address, qiLoc)
		_, ierr := a.InternalAndQiAddress()
		vAssert("created/in-zone-qi-address", ierr == nil)
	}
	for _, etx := range etxs {
		switch etx.EtxType {
		case types.DefaultType:
			vAssert("etx/denomination-valid", etx.Value.IsUint64() && etx.Value.Uint64() <= types.MaxDenomination)
			if !(etx.Value.IsUint64() && etx.Value.Uint64() <= types.MaxDenomination) {
				return
			}
			out.Add(out, denomValue(uint8(etx.Value.Uint64())))
			vAssert("etx/to-other-zone-qi", etx.To.IsInQiLedgerScope() && !etx.To.Location().Equal(qiLoc))
		default:
			out.Add(out, etx.Value)
			vAssert("etx/conversion-to-in-zone-quai", etx.To.IsInQuaiLedgerScope() && etx.To.Location().Equal(qiLoc))
		}
	}
	vAssert("conservation/fee-non-negative", fee.Sign() >= 0)
	vAssert("conservation/in-equals-out-plus-fee", in.Cmp(new(big.Int).Add(out, fee)) == 0)
	vAssert("supply/removed-equals-consumed", supRem.Cmp(in) == 0)
	// (3) bookkeeping
	vAssert("bookkeeping/deletions-are-the-inputs", len(qiView.dels) == s.nIn && len(ucd.UtxosDeleted) == s.nIn && len(ucd.UtxosDeletedHashes) == s.nIn)
	for i := 0; i < s.nIn && i < len(qiView.dels); i++ {
		vAssert("bookkeeping/deletion-order", qiView.dels[i] == outKey{s.ins[i].PreviousOutPoint.TxHash, s.ins[i].PreviousOutPoint.Index})
	}
	vAssert("bookkeeping/creations-recorded", len(ucd.UtxosCreatedKeys) == len(qiView.puts) && len(ucd.UtxosCreatedHashes) == len(qiView.puts))
	// (4) authorisation
	if checkSig {
		vAssert("auth/signature-checked-and-valid", sigChecked && sigResult)
		digest := signer.Hash(s.tx)
		vAssert("auth/over-signing-digest", string(sigDigest) == string(digest[:]))
		if s.nIn == 1 {
			vAssert("auth/key-is-input-key", sigKey != nil && string(parsedKeys[sigKey]) == string(s.ins[0].PubKey))
		} else {
			parts := aggregated[sigKey]
			vAssert("auth/aggregate-of-all-input-keys", len(parts) == s.nIn)
			for i := 0; i < s.nIn && i < len(parts); i++ {
				vAssert("auth/aggregate-member", string(parts[i]) == string(s.ins[i].PubKey))
			}
		}
	}
}

// noopBatch: the batch itself is never touched directly by ProcessQiTx (only through the rawdb
// accessors stubbed above); a nil batch is rejected by its parameter check.
type noopBatch struct{ ethdb.Batch }
