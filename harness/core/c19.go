//go:build verif

package core

import (
	"math/big"
	"time"

	"github.com/dominant-strategies/go-quai/common"
	"github.com/dominant-strategies/go-quai/core/types"
)

func vPoolTx(tag string, nonce uint64, price *big.Int) *types.Transaction {
	to := common.BytesToAddress(append([]byte{0, 0}, make([]byte, 18)...), qiLoc)
	return types.NewTx(&types.QuaiTx{ChainID: big.NewInt(9000), Nonce: nonce, GasPrice: price, Gas: uint64(vU32(tag + "Gas")), To: &to,
		Value: vBigN(tag+"Value", 64), V: new(big.Int), R: new(big.Int), S: new(big.Int)})
}

// H-C19-a: the replacement rule of the per-account transaction list. An existing transaction with an
// arbitrary gas price (< 2^64) at nonce n; a second transaction with the same or another nonce, an
// arbitrary price and an arbitrary configured price bump (0..1000 %): a same-nonce transaction
// replaces the old one only if its price is strictly higher and at least
// floor(old * (100 + bump) / 100); after an accepted Add the list holds the new transaction at that
// nonce and the cost / gas caps bound every member.
func VerifH_C19_a() {
	l := newTxList(vBool("strict"))
	oldPrice, newPrice := vBigN("oldPrice", 64), vBigN("newPrice", 64)
	bump := uint64(vU16("priceBump"))
	vAssume(bump <= 1000)
	n := uint64(vU8("nonce"))
	old := vPoolTx("old", n, oldPrice)
	ok0, _ := l.Add(old, bump)
	vAssert("add/first-accepted", ok0)
	sameNonce := vBool("sameNonce")
	n2 := n
	if !sameNonce {
		n2 = n + 1 + uint64(vU8("nonceGap")%3)
	}
	repl := vPoolTx("new", n2, newPrice)
	ok, replaced := l.Add(repl, bump)
	vReach("added")
	if sameNonce {
		threshold := new(big.Int).Mul(oldPrice, big.NewInt(int64(100+bump)))
		threshold.Div(threshold, big.NewInt(100))
		want := newPrice.Cmp(oldPrice) > 0 && newPrice.Cmp(threshold) >= 0
		vAssert("replace/accepted-iff-price-bump-met", ok == want)
		if ok {
			vAssert("replace/old-returned-and-evicted", replaced == old && l.txs.Get(n) == repl && l.Len() == 1)
		} else {
			vAssert("replace/rejected-keeps-old", replaced == nil && l.txs.Get(n) == old && l.Len() == 1)
		}
	} else {
		vAssert("add/other-nonce-accepted", ok && replaced == nil && l.Len() == 2)
	}
	for _, tx := range l.Flatten() {
		vAssert("caps/cost-cap-bounds-members", l.costcap.Cmp(tx.Cost()) >= 0)
		vAssert("caps/gas-cap-bounds-members", l.gascap >= tx.Gas())
	}
}

var poolSender common.Address

// stubPoolSender: the sender of a pool transaction is fixed (signature recovery is C03's subject).
func stubPoolSender(signer types.Signer, tx *types.Transaction) (common.Address, error) {
	return poolSender, nil
}

// stubPoolTxHash: a pool transaction is identified by its nonce here.
func stubPoolTxHash(tx *types.Transaction, location ...byte) common.Hash {
	return common.BytesToHash([]byte{0x70, byte(tx.Nonce())})
}

// stubNumSlots: slot accounting uses the RLP size of a transaction (reflection); one slot each here.
func stubNumSlots(tx *types.Transaction) int { return 1 }

// H-C19-d: one step of the pool's demotion after a head change, from a valid pool state: an account
// with two pending transactions at consecutive nonces n, n+1 (arbitrary prices, gas and values);
// the new head state has an arbitrary nonce and balance for the account and an arbitrary block gas
// limit. After the real demoteUnexecutables: the pending map holds no empty list; what stays
// pending starts at the state nonce, is nonce-contiguous and affordable; no transaction is both
// pending and queued; transactions removed only for a nonce gap are queued, not lost.
//
// verif:stub core/types.Sender => stubPoolSender
// verif:stub (*core/types.Transaction).Hash => stubPoolTxHash
// verif:stub core.numSlots => stubNumSlots
func VerifH_C19_d() {
	var a common.InternalAddress
	a[19] = 0x61
	poolSender = common.Bytes20ToAddress(a, qiLoc)
	st := newRealStateCore()
	stateNonce := uint64(vU8("stateNonce"))
	st.SetNonce(a, stateNonce)
	st.AddBalance(a, vBigN("stateBalance", 96))
	pool := &TxPool{
		config: TxPoolConfig{PriceBump: 10}, signer: types.NewSigner(big.NewInt(9000), qiLoc),
		currentState: st, currentMaxGas: uint64(vU32("blockGasLimit")),
		pending: map[common.InternalAddress]*txList{}, queue: map[common.InternalAddress]*txList{},
		beats: map[common.InternalAddress]time.Time{}, all: newTxLookup(), locals: newAccountSet(types.NewSigner(big.NewInt(9000), qiLoc)),
	}
	pool.priced = newTxPricedList(pool.all)
	n := uint64(vU8("firstPendingNonce"))
	vAssume(n < 250)
	t0 := vPoolTx("p0", n, vBigN("p0Price", 32))
	t1 := vPoolTx("p1", n+1, vBigN("p1Price", 32))
	l := newTxList(true)
	l.Add(t0, 10)
	l.Add(t1, 10)
	pool.pending[a] = l
	pool.all.Add(t0, false)
	pool.all.Add(t1, false)

	pool.demoteUnexecutables()

	vReach("demoted")
	for addr, list := range pool.pending {
		vAssert("pending/no-empty-list", list.Len() > 0)
		txs := list.Flatten()
		for i, tx := range txs {
			vAssert("pending/contiguous-from-state-nonce", tx.Nonce() == st.GetNonce(addr)+uint64(i))
			vAssert("pending/affordable", tx.Cost().Cmp(st.GetBalance(addr)) <= 0 && tx.Gas() <= pool.currentMaxGas)
			if q := pool.queue[addr]; q != nil {
				vAssert("pending/not-also-queued", q.txs.Get(tx.Nonce()) == nil)
			}
		}
	}
	// a transaction that is still in the future and affordable must not be lost
	for _, tx := range []*types.Transaction{t0, t1} {
		inPending := pool.pending[a] != nil && pool.pending[a].txs.Get(tx.Nonce()) == tx
		inQueue := pool.queue[a] != nil && pool.queue[a].txs.Get(tx.Nonce()) == tx
		future := tx.Nonce() >= stateNonce
		payable := tx.Cost().Cmp(st.GetBalance(a)) <= 0 && tx.Gas() <= pool.currentMaxGas
		if future && payable {
			vAssert("demote/executable-later-is-kept", inPending || inQueue)
		}
		if !future {
			vAssert("demote/stale-removed", !inPending && !inQueue && pool.all.Get(stubPoolTxHash(tx)) == nil)
		}
	}
}
