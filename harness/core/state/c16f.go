//go:build verif

package state

import (
	"errors"
	"math/big"

	"github.com/dominant-strategies/go-quai/common"
	"github.com/dominant-strategies/go-quai/core/types"
)

// The RLP of an address carries no location: Address.DecodeRLP classifies the 20 bytes against zone [0 0]
// whatever the node's zone is. The stub decoder reproduces exactly that.
var scopeEtxTo [20]byte

func stubRlpDecodeEtxAtZone00(b []byte, val interface{}) error {
	dst, ok := val.(*types.Transaction)
	if !ok || len(b) != 2 || b[0] != 0xE7 {
		return errors.New("stub: not an encoding")
	}
	to := common.Bytes20ToAddress(scopeEtxTo, common.Location{0, 0})
	dst.SetInner(&types.ExternalTx{Value: big.NewInt(1), To: &to, Sender: to, Gas: 21000})
	return nil
}

// H-C16-f: an inbound ETX read back from a zone's ETX queue is classified for that zone. The queue stores ETXs
// as RLP, which carries no location (decoding classifies against zone [0 0]); StateDB.PopETX / ReadETX are the
// point where the destination is re-scoped. For every node zone ([0 0], [0 1], [1 0], [2 2]) and every
// destination address (arbitrary zone byte, ledger byte): the destination handed to block processing is
// internal exactly when its zone byte is the node's zone prefix, agrees with BytesToAddress for the same bytes
// at the node's location, and has the same 20 bytes as were queued.
//
// verif:stub rlp.DecodeBytes => stubRlpDecodeEtxAtZone00
func VerifH_C16_f() {
	locs := []common.Location{{0, 0}, {0, 1}, {1, 0}, {2, 2}}
	loc := locs[vLen("nodeZone", 3)]
	s := newModelStateDB()
	s.nodeLocation = loc
	tr := &kvTrie{m: map[string][]byte{}}
	s.etxTrie = tr
	scopeEtxTo = [20]byte{}
	scopeEtxTo[0], scopeEtxTo[1], scopeEtxTo[19] = vU8("toZone"), vU8("toLedger"), 0x5a
	tr.TryUpdate(new(big.Int).SetUint64(7).Bytes(), []byte{0xE7, 0})
	tr.TryUpdate(oldestEtxKey[:], new(big.Int).SetUint64(7).Bytes())
	tr.TryUpdate(newestEtxKey[:], new(big.Int).SetUint64(8).Bytes())
	want := common.Bytes20ToAddress(scopeEtxTo, loc)
	_, wantErr := want.InternalAddress()
	prefix := byte(loc.Region())<<4 | byte(loc.Zone())

	var got *types.Transaction
	var err error
	if vBool("readWithoutPopping") {
		got, err = s.ReadETX(new(big.Int).SetUint64(7))
	} else {
		got, err = s.PopETX()
	}
	vAssert("queue/read-ok", err == nil && got != nil)
	vReach("read")
	_, gotErr := got.To().InternalAddress()
	vAssert("scope/internal-iff-zone-byte-is-this-zone", (gotErr == nil) == (scopeEtxTo[0] == prefix))
	vAssert("scope/same-as-constructor-at-node-location", (gotErr == nil) == (wantErr == nil) && got.To().Equal(want))
	vAssert("scope/bytes-unchanged", got.To().Bytes20() == scopeEtxTo)
	vAssert("scope/location-is-from-the-zone-byte", got.To().Location().Region() == int(scopeEtxTo[0]>>4) && got.To().Location().Zone() == int(scopeEtxTo[0]&0x0f))
}
