//go:build verif

package state

import (
	"math/big"
)

func stubRlpEncodeAccount(val interface{}) ([]byte, error) { return []byte{0xAC}, nil }

// H-C06-s: executing a block does not modify the commitments of its parent. The state of a block is opened
// with the real state.New on the parent's QuaiStateSize object itself (the header accessor hands out its own
// *big.Int; Process, the worker, the pool and StateAtBlock all pass it straight in); the block then creates
// 0..2 accounts, destroys 0..1 committed account and folds the changes with the real IntermediateRoot
// (account tries are models, account RLP a stub). Afterwards
//   * the parent's size commitment still holds its value (a second execution on the same parent — a sibling
//     block, the worker's pending block, a re-execution — starts from the same size), and
//   * the child's size is parent + created - destroyed.
//
// verif:stub rlp.EncodeToBytes => stubRlpEncodeAccount
// verif:stub rlp.DecodeBytes => stubRlpDecodeAccount
func VerifH_C06_s() {
	parentSize := new(big.Int).SetUint64(uint64(vU32("parentQuaiStateSize")))
	vAssume(parentSize.Sign() > 0)
	want := new(big.Int).Set(parentSize)
	s, err := New(emptyRoot, emptyRoot, parentSize, modelStateDatabase{}, modelStateDatabase{}, nil, vLocS, nil)
	vAssume(err == nil)
	old := vStateAddr(3)
	committedC = Account{Nonce: 1, Balance: big.NewInt(7), Size: big.NewInt(0)}
	s.trie = &kvTrie{m: map[string][]byte{string(old.Bytes()): {0xAC}}}
	created := vLen("accountsCreated", 2)
	for i := 0; i < created; i++ {
		s.AddBalance(vStateAddr(byte(0x40+i)), big.NewInt(5))
	}
	destroyed := 0
	if vBool("destroysACommittedAccount") {
		s.Suicide(old)
		destroyed = 1
	}
	s.IntermediateRoot(true)
	vReach("executed")
	vAssert("parent/state-size-commitment-untouched", parentSize.Cmp(want) == 0)
	wantChild := new(big.Int).Add(want, big.NewInt(int64(created-destroyed)))
	vAssert("child/state-size-is-parent-plus-created-minus-destroyed", s.GetQuaiTrieSize().Cmp(wantChild) == 0)
	// a second execution on the same parent object starts from the parent's size
	s2, err2 := New(emptyRoot, emptyRoot, parentSize, modelStateDatabase{}, modelStateDatabase{}, nil, vLocS, nil)
	vAssume(err2 == nil)
	vAssert("parent/second-execution-starts-from-the-same-size", s2.GetQuaiTrieSize().Cmp(want) == 0)
}
