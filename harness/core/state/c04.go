//go:build verif

package state

import (
	"errors"
	"math/big"

	"github.com/dominant-strategies/go-quai/common"
	"github.com/dominant-strategies/go-quai/core/types"
	"github.com/dominant-strategies/go-quai/ethdb"
	"github.com/dominant-strategies/go-quai/trie"
)

// kvTrie: reference key-value semantics of a trie (content only; hashing is outside the engine).
type kvTrie struct{ m map[string][]byte }

func (t *kvTrie) GetKey(k []byte) []byte { return k }
func (t *kvTrie) TryGet(key []byte) ([]byte, error) {
	return t.m[string(key)], nil
}
func (t *kvTrie) TryUpdate(key, value []byte) error {
	if len(value) == 0 {
		delete(t.m, string(key))
		return nil
	}
	t.m[string(key)] = value
	return nil
}
func (t *kvTrie) TryDelete(key []byte) error                          { delete(t.m, string(key)); return nil }
func (t *kvTrie) Hash() common.Hash                                   { return common.Hash{} }
func (t *kvTrie) Commit(onleaf trie.LeafCallback) (common.Hash, error) { return common.Hash{}, nil }
func (t *kvTrie) NodeIterator(startKey []byte) trie.NodeIterator      { return nil }
func (t *kvTrie) Prove(key []byte, fromLevel uint, proofDb ethdb.KeyValueWriter) error {
	return nil
}

// The RLP codec of a transaction is an uninterpreted bijection: the encoding of the k-th ETX of
// the harness is the two bytes {0xE7, k}; decoding returns that ETX.
var etxTable []*types.Transaction

func stubRlpEncodeToBytes(val interface{}) ([]byte, error) {
	tx, ok := val.(*types.Transaction)
	if !ok {
		return nil, errors.New("stub: only transactions are encoded here")
	}
	for i, t := range etxTable {
		if t == tx {
			return []byte{0xE7, byte(i)}, nil
		}
	}
	etxTable = append(etxTable, tx)
	return []byte{0xE7, byte(len(etxTable) - 1)}, nil
}

func stubRlpDecodeBytes(b []byte, val interface{}) error {
	if len(b) != 2 || b[0] != 0xE7 || int(b[1]) >= len(etxTable) {
		return errors.New("stub: not an encoding")
	}
	dst, ok := val.(*types.Transaction)
	if !ok {
		return errors.New("stub: only transactions are decoded here")
	}
	src := etxTable[b[1]]
	dst.SetInner(src.Inner())
	return nil
}

func vEtx(tag string) *types.Transaction {
	to := common.BytesToAddress(append([]byte{0x00, 0x00}, make([]byte, 18)...), vLocS)
	return types.NewTx(&types.ExternalTx{Value: vBigN(tag+"Value", 64), To: &to, Sender: to, Gas: 21000, ETXIndex: vU16(tag + "Index")})
}

func sameEtx(a, b *types.Transaction) bool {
	return a != nil && b != nil && a.Value().Cmp(b.Value()) == 0 && a.ETXIndex() == b.ETXIndex()
}

// H-C04-a: the destination ETX queue is FIFO and exactly-once (inductive step). From an arbitrary
// queue state satisfying the representation invariant (oldest index o, newest index n, o <= n,
// items stored exactly under Bytes(i) for o <= i < n; here n-o <= 2 and o < 2^16), push k <= 2
// ETXs (one by one or as a batch), then pop: the pops return the pre-existing items first in index
// order, then the pushed ones in push order, each once; the indices move by exactly the counts;
// popping the empty queue returns nothing and changes nothing, and a push after that is popped next.
//
// verif:stub rlp.EncodeToBytes => stubRlpEncodeToBytes
// verif:stub rlp.DecodeBytes => stubRlpDecodeBytes
// verif:bounds bigbits=72
func VerifH_C04_a() {
	s := newModelStateDB()
	tr := &kvTrie{m: map[string][]byte{}}
	s.etxTrie = tr
	etxTable = nil
	o := uint64(vU16("oldest"))
	nPre := vLen("preExisting", 2)
	var expect []*types.Transaction
	for i := 0; i < nPre; i++ {
		tx := vEtx("pre")
		enc, _ := stubRlpEncodeToBytes(tx)
		tr.TryUpdate(new(big.Int).SetUint64(o+uint64(i)).Bytes(), enc)
		expect = append(expect, tx)
	}
	tr.TryUpdate(oldestEtxKey[:], new(big.Int).SetUint64(o).Bytes())
	tr.TryUpdate(newestEtxKey[:], new(big.Int).SetUint64(o+uint64(nPre)).Bytes())

	k := vLen("pushes", 2)
	var pushed []*types.Transaction
	for i := 0; i < k; i++ {
		pushed = append(pushed, vEtx("new"))
	}
	if vBool("batchPush") {
		vAssert("push/no-error", s.PushETXs(pushed) == nil)
	} else {
		for _, tx := range pushed {
			vAssert("push/no-error", s.PushETX(tx) == nil)
		}
	}
	expect = append(expect, pushed...)
	newest, _ := s.GetNewestIndex()
	oldest, _ := s.GetOldestIndex()
	vAssert("push/newest-advances-by-count", newest.Uint64() == o+uint64(nPre+k) && oldest.Uint64() == o)

	for i, want := range expect {
		got, err := s.PopETX()
		vAssert("pop/no-error", err == nil)
		vAssert("pop/fifo-exactly-once", sameEtx(got, want))
		oldest, _ = s.GetOldestIndex()
		vAssert("pop/oldest-advances-by-one", oldest.Uint64() == o+uint64(i+1))
	}
	vReach("drained")
	got, err := s.PopETX()
	vAssert("pop-empty/returns-nothing", got == nil && err == nil)
	oldest, _ = s.GetOldestIndex()
	newest, _ = s.GetNewestIndex()
	vAssert("pop-empty/changes-nothing", oldest.Uint64() == o+uint64(len(expect)) && newest.Uint64() == o+uint64(len(expect)))
	late := vEtx("late")
	vAssert("push/no-error", s.PushETX(late) == nil)
	got, err = s.PopETX()
	vAssert("refill/pushed-item-is-next", err == nil && sameEtx(got, late))
	vReach("refilled")
}
