//go:build verif

package state

import (
	"errors"
	"math/big"
)

// the committed encoding of account C is the marker {0xAC}; decoding it yields committedC
var committedC Account

func stubRlpDecodeAccount(b []byte, val interface{}) error {
	dst, ok := val.(*Account)
	if !ok || len(b) != 1 || b[0] != 0xAC {
		return errors.New("stub: not an account encoding")
	}
	*dst = Account{Nonce: committedC.Nonce, Balance: new(big.Int).Set(committedC.Balance), Root: emptyRoot, CodeHash: emptyCodeHash, Size: new(big.Int).Set(committedC.Size)}
	return nil
}

// H-C12-c: an account destroyed earlier in the block stays destroyed when a later frame re-creates it
// and reverts. Account C is committed in the account trie (arbitrary nonce/balance/size) and was
// destroyed by an earlier, finalised transaction of the block (its in-memory object carries the
// deleted marker). A later frame takes a snapshot, touches C with one of the operations that
// re-create an account (AddBalance, SetNonce, SetState, SetCode, CreateAccount, SubBalance of
// zero) and is reverted: afterwards C does not exist, has zero balance and nonce — the committed
// pre-destruct account is not resurrected — and this still holds after the transaction is finalised.
//
// verif:stub rlp.DecodeBytes => stubRlpDecodeAccount
func VerifH_C12_c() {
	s := newModelStateDB()
	c := vStateAddr(3)
	committedC = Account{Nonce: vU64("committedNonce"), Balance: vBigN("committedBalance", 64), Size: vBigN("committedSize", 16)}
	vAssume(committedC.Balance.Sign() > 0)
	s.trie = &kvTrie{m: map[string][]byte{string(c.Bytes()): {0xAC}}}
	// earlier transaction: C loaded, self-destructed, finalised
	vAssert("setup/committed-account-visible", s.Exist(c) && s.GetBalance(c).Cmp(committedC.Balance) == 0)
	s.Suicide(c)
	s.Finalize(true)
	vReach("destroyed")
	vAssert("destroyed/gone", !s.Exist(c) && s.GetBalance(c).Sign() == 0)

	id := s.Snapshot()
	op := vLen("op", 5)
	switch op {
	case 0:
		vFact("op", "AddBalance")
		s.AddBalance(c, vBigN("amount", 64))
	case 1:
		vFact("op", "SetNonce")
		s.SetNonce(c, vU64("nonce"))
	case 2:
		vFact("op", "SetState")
		s.SetState(c, vSlot, vSlot2)
	case 3:
		vFact("op", "SetCode")
		s.SetCode(c, vBytes("code", 2))
	case 4:
		vFact("op", "CreateAccount")
		s.CreateAccount(c)
	default:
		vFact("op", "SubBalance-zero")
		s.SubBalance(c, new(big.Int))
	}
	s.RevertToSnapshot(id)
	vReach("reverted")
	vAssert("revert/destroyed-account-not-resurrected", !s.Exist(c))
	vAssert("revert/no-balance-no-nonce", s.GetBalance(c).Sign() == 0 && s.GetNonce(c) == 0)
	s.Finalize(true)
	vAssert("revert/still-gone-after-finalize", !s.Exist(c) && s.GetBalance(c).Sign() == 0)
}
