//go:build verif

package state

import (
	"math/big"
)

// H-C02-e: value removed with a destroyed account never comes back. Over the real StateDB (tries
// are empty models, as in H-C12-a): an arbitrary live account X (arbitrary balance, nonce, size
// counter) self-destructs in a transaction, optionally receives an arbitrary amount afterwards in
// the same transaction, and the transaction is finalised (Finalize(true): X is deleted). In a later
// transaction of the same block the address is used again in one of the ways the EVM and the state
// processor do: CreateAccount (CREATE2 redeployment / transfer to a non-existent account), AddBalance
// of an arbitrary amount, or a plain read. Then X's balance is exactly what the later transaction
// gave it (nothing for CreateAccount and for a read), its nonce and storage-size counter start from
// zero, and an untouched bystander account keeps its balance.
func VerifH_C02_e() {
	s := newModelStateDB()
	x, y := vStateAddr(0x31), vStateAddr(0x32)
	vLiveObject(s, x, "x", false)
	vLiveObject(s, y, "y", false)
	vAssume(!s.getStateObject(x).suicided && !s.getStateObject(y).suicided)
	yBal := new(big.Int).Set(s.GetBalance(y))

	// transaction 1
	s.Suicide(x)
	if vBool("fundedAfterSelfDestruct") {
		s.AddBalance(x, vBigN("sentAfterSelfDestruct", 64))
	}
	s.Finalize(true)
	vReach("destroyed")
	vAssert("destroyed/gone-after-finalise", !s.Exist(x) && s.GetBalance(x).Sign() == 0)

	// transaction 2
	given := new(big.Int)
	switch vLen("laterUse", 2) {
	case 0:
		vFact("later", "CreateAccount")
		s.CreateAccount(x)
	case 1:
		vFact("later", "AddBalance")
		given = vBigN("laterAmount", 64)
		s.AddBalance(x, given)
	default:
		vFact("later", "read-only")
	}
	vReach("reused")
	vAssert("reuse/balance-is-only-what-was-given-later", s.GetBalance(x).Cmp(given) == 0)
	vAssert("reuse/nonce-and-size-start-from-zero", s.GetNonce(x) == 0 && s.GetSize(x).Sign() == 0)
	vAssert("reuse/bystander-untouched", s.GetBalance(y).Cmp(yBal) == 0)
	s.Finalize(true)
	vAssert("reuse/balance-after-second-finalise", s.GetBalance(x).Cmp(given) == 0)
}
