//go:build verif

package state

import (
	"math/big"

	"github.com/dominant-strategies/go-quai/common"
	"github.com/dominant-strategies/go-quai/core/types"
	"github.com/dominant-strategies/go-quai/crypto"
	"github.com/dominant-strategies/go-quai/ethdb"
	"github.com/dominant-strategies/go-quai/log"
	"github.com/dominant-strategies/go-quai/trie"
)

// ---- environment models: empty tries, opaque code store ----

type modelTrie struct{}

func (modelTrie) GetKey(k []byte) []byte                            { return k }
func (modelTrie) TryGet(key []byte) ([]byte, error)                 { return nil, nil }
func (modelTrie) TryUpdate(key, value []byte) error                 { return nil }
func (modelTrie) TryDelete(key []byte) error                        { return nil }
func (modelTrie) Hash() common.Hash                                 { return common.Hash{} }
func (modelTrie) Commit(onleaf trie.LeafCallback) (common.Hash, error) { return common.Hash{}, nil }
func (modelTrie) NodeIterator(startKey []byte) trie.NodeIterator    { return nil }
func (modelTrie) Prove(key []byte, fromLevel uint, proofDb ethdb.KeyValueWriter) error {
	return nil
}

type modelStateDatabase struct{}

func (modelStateDatabase) OpenTrie(root common.Hash) (Trie, error)                  { return modelTrie{}, nil }
func (modelStateDatabase) OpenStorageTrie(addrHash, root common.Hash) (Trie, error) { return modelTrie{}, nil }
func (modelStateDatabase) CopyTrie(t Trie) Trie                                     { return t }
func (modelStateDatabase) ContractCode(addrHash, codeHash common.Hash) ([]byte, error) {
	return []byte{0xfe}, nil
}
func (modelStateDatabase) ContractCodeSize(addrHash, codeHash common.Hash) (int, error) { return 1, nil }
func (modelStateDatabase) TrieDB() *trie.Database                                       { return nil }
func (modelStateDatabase) Logger() *log.Logger                                          { return nil }

var vLocS = common.Location{0, 0}

func vStateAddr(id byte) common.InternalAddress {
	var a common.InternalAddress
	a[19] = id
	return a
}

var vSlot = common.BytesToHash([]byte{0x51})
var vSlot2 = common.BytesToHash([]byte{0x52})

func newModelStateDB() *StateDB {
	return &StateDB{
		db: modelStateDatabase{}, etxDb: modelStateDatabase{}, trie: modelTrie{}, etxTrie: modelTrie{},
		size:                new(big.Int).SetUint64(vU64("quaiStateSize")),
		newAccountsAdded:    make(map[common.AddressBytes]bool),
		stateObjects:        make(map[common.InternalAddress]*stateObject),
		stateObjectsPending: make(map[common.InternalAddress]struct{}),
		stateObjectsDirty:   make(map[common.InternalAddress]struct{}),
		logs:                make(map[common.Hash][]*types.Log),
		preimages:           make(map[common.Hash][]byte),
		journal:             newJournal(),
		accessList:          newAccessList(),
		transientStorage:    newTransientStorage(),
		hasher:              crypto.NewKeccakState(),
		nodeLocation:        vLocS,
		SupplyAdded:         big.NewInt(0),
		SupplyRemoved:       big.NewInt(0),
	}
}

// vLiveObject installs an arbitrary live account: arbitrary nonce, balance, storage-size counter,
// code (none or 2 arbitrary bytes), suicided flag, one dirty slot and one committed slot value.
func vLiveObject(s *StateDB, addr common.InternalAddress, tag string, rich bool) {
	acc := Account{Nonce: vU64(tag + "Nonce"), Balance: vBigN(tag+"Balance", 128), Size: vBigN(tag+"Size", 32)}
	obj := newObject(s, addr, acc)
	if !rich {
		obj.suicided = vBool(tag + "Suicided")
		s.setStateObject(obj)
		return
	}
	if vBool(tag + "HasCode") {
		code := vBytes(tag+"Code", 2)
		obj.code = code
		obj.data.CodeHash = crypto.Keccak256(code)
	}
	obj.suicided = vBool(tag + "Suicided")
	obj.originStorage[vSlot] = common.BytesToHash(vBytes(tag+"Committed", 32))
	if vBool(tag + "SlotDirty") {
		obj.dirtyStorage[vSlot] = common.BytesToHash(vBytes(tag+"Dirty", 32))
	}
	s.setStateObject(obj)
}

type accObs struct {
	exist, empty, suicided bool
	balance, size          *big.Int
	nonce                  uint64
	codeHash               common.Hash
	code                   []byte
	state, committed, tr   common.Hash
	tr2                    common.Hash
	inAL, slotAL           bool
}

type stObs struct {
	acc     [3]accObs
	refund  uint64
	nLogs   int
	logSize uint
	preimg  bool
}

var vPreimageHash = common.BytesToHash([]byte{0x77})

func observe(s *StateDB) stObs {
	var o stObs
	for i := 0; i < 3; i++ {
		a := vStateAddr(byte(i + 1))
		ao := &o.acc[i]
		ao.exist, ao.empty, ao.suicided = s.Exist(a), s.Empty(a), s.HasSuicided(a)
		ao.balance, ao.size, ao.nonce = new(big.Int).Set(s.GetBalance(a)), s.GetSize(a), s.GetNonce(a)
		if ao.size != nil {
			ao.size = new(big.Int).Set(ao.size)
		}
		ao.codeHash, ao.code = s.GetCodeHash(a), s.GetCode(a)
		ao.state, ao.committed, ao.tr = s.GetState(a, vSlot), s.GetCommittedState(a, vSlot), s.GetTransientState(a, vSlot)
		ao.tr2 = s.GetTransientState(a, vSlot2)
		ao.inAL = s.AddressInAccessList(a.Bytes20())
		_, ao.slotAL = s.SlotInAccessList(a.Bytes20(), vSlot)
	}
	o.refund, o.nLogs, o.logSize = s.GetRefund(), len(s.Logs()), s.logSize
	_, o.preimg = s.preimages[vPreimageHash]
	return o
}

func bigEq(a, b *big.Int) bool {
	if a == nil || b == nil {
		return a == b
	}
	return a.Cmp(b) == 0
}

func bytesEqual(a, b []byte) bool {
	if len(a) != len(b) {
		return false
	}
	for i := range a {
		if a[i] != b[i] {
			return false
		}
	}
	return true
}

func assertSameObs(o0, o1 stObs) {
	for i := 0; i < 3; i++ {
		a, b := o0.acc[i], o1.acc[i]
		vAssert("revert/exist", a.exist == b.exist)
		vAssert("revert/empty", a.empty == b.empty)
		vAssert("revert/suicided", a.suicided == b.suicided)
		vAssert("revert/balance", bigEq(a.balance, b.balance))
		vAssert("revert/storage-size-counter", bigEq(a.size, b.size))
		vAssert("revert/nonce", a.nonce == b.nonce)
		vAssert("revert/code-hash", a.codeHash == b.codeHash)
		vAssert("revert/code", bytesEqual(a.code, b.code))
		vAssert("revert/storage", a.state == b.state)
		vAssert("revert/committed-storage", a.committed == b.committed)
		vAssert("revert/transient-storage", a.tr == b.tr)
		vAssert("revert/other-transient-slot-untouched", a.tr2 == b.tr2)
		vAssert("revert/access-list-address", a.inAL == b.inAL)
		vAssert("revert/access-list-slot", a.slotAL == b.slotAL)
	}
	vAssert("revert/refund", o0.refund == o1.refund)
	vAssert("revert/logs", o0.nLogs == o1.nLogs && o0.logSize == o1.logSize)
	vAssert("revert/preimages", o0.preimg == o1.preimg)
}

var opNames = []string{"AddBalance", "SubBalance", "SetBalance", "SetNonce", "SetCode", "SetState", "SetTransientState",
	"Suicide", "AddRefund", "SubRefund", "AddLog", "AddAddressToAccessList", "AddSlotToAccessList", "CreateAccount", "AddPreimage"}

func applyOp(s *StateDB, op int, t common.InternalAddress, sfx string) {
	switch op {
	case 0:
		s.AddBalance(t, vBigN("amount"+sfx, 128))
	case 1:
		s.SubBalance(t, vBigN("amount"+sfx, 128))
	case 2:
		s.SetBalance(t, vBigN("amount"+sfx, 128))
	case 3:
		s.SetNonce(t, vU64("nonce"+sfx))
	case 4:
		code := vBytes("code"+sfx, 2)
		s.SetCode(t, code)
	case 5:
		s.SetState(t, vSlot, common.BytesToHash(vBytes("slotValue"+sfx, 32)))
	case 6:
		s.SetTransientState(t, vSlot, common.BytesToHash(vBytes("transientValue"+sfx, 32)))
	case 7:
		s.Suicide(t)
	case 8:
		g := vU64("gas" + sfx)
		vAssume(g <= 1<<62 && s.refund <= 1<<62)
		s.AddRefund(g)
	case 9:
		g := vU64("gas" + sfx)
		vAssume(g <= s.refund)
		s.SubRefund(g)
	case 10:
		s.AddLog(&types.Log{Address: common.Bytes20ToAddress(t, vLocS), Data: vBytes("logData"+sfx, 1)})
	case 11:
		s.AddAddressToAccessList(t.Bytes20())
	case 12:
		s.AddSlotToAccessList(t.Bytes20(), vSlot)
	case 13:
		s.CreateAccount(t)
	case 14:
		s.AddPreimage(vPreimageHash, vBytes("preimage"+sfx, 1))
	}
}

func vPreState(transient bool) *StateDB {
	s := newModelStateDB()
	vLiveObject(s, vStateAddr(1), "a", true)
	if vBool("bLive") {
		vLiveObject(s, vStateAddr(2), "b", false)
	}
	s.refund = vU64("refund")
	// transient storage written earlier in the transaction by frames that do not revert: none, the
	// slot under test, another slot, or both
	if transient && vBool("aTransientSlotSet") {
		s.transientStorage.Set(vStateAddr(1), vSlot, common.BytesToHash(vBytes("aTransient", 32)))
	}
	if transient && vBool("aOtherTransientSlotSet") {
		s.transientStorage.Set(vStateAddr(1), vSlot2, common.BytesToHash(vBytes("aOtherTransient", 32)))
	}
	if vBool("aInAccessList") {
		s.accessList.AddAddress(vStateAddr(1).Bytes20())
	}
	return s
}

// H-C12-a: every journalled mutation is exactly undone by RevertToSnapshot. Arbitrary pre-state
// (account A live with arbitrary nonce/balance/size counter/code/suicided flag/dirty+committed slot,
// account B live or absent, account C absent; arbitrary refund; A in the access list or not), one
// mutation of any kind applied to A, B or C with arbitrary arguments between Snapshot and
// RevertToSnapshot: every observable of all three accounts and of the global counters is equal to
// its value before. By induction over the journal (revert replays entries in reverse) this covers
// sequences of any length.
func VerifH_C12_a() {
	op := vLen("op", len(opNames)-1)
	vFact("op", opNames[op])
	s := vPreState(opNames[op] == "SetTransientState")
	o0 := observe(s)
	target := vStateAddr(byte(1 + vLen("target", 2)))
	id := s.Snapshot()
	applyOp(s, op, target, "")
	s.RevertToSnapshot(id)
	vReach("reverted")
	vAssert("revert/journal-empty", s.journal.length() == 0 && len(s.validRevisions) == 0)
	assertSameObs(o0, observe(s))
}
