//go:build verif

package core

import (
	"errors"
	"math/big"
	"time"

	"github.com/dominant-strategies/go-quai/common"
	"github.com/dominant-strategies/go-quai/core/rawdb"
	"github.com/dominant-strategies/go-quai/core/types"
	"github.com/dominant-strategies/go-quai/ethdb"
	"github.com/dominant-strategies/go-quai/event"
	"github.com/dominant-strategies/go-quai/params"
	lru "github.com/hashicorp/golang-lru/v2"
)

// ---- H-C11-s: Slice.Append (zone context) — crash points between its durable writes ----

var (
	saOrder                                     int
	saVerifyFails, saBodyFails, saManifestMatch bool
)

func stubSliceCurrentInfo(sl *Slice, header *types.WorkObject) bool { return false }
func stubSliceCalcOrder(sl *Slice, header *types.WorkObject) (*big.Int, int, error) {
	return big.NewInt(1), saOrder, nil
}
func stubHcCalcOrderSa(hc *HeaderChain, header *types.WorkObject) (*big.Int, int, error) {
	return big.NewInt(1), saOrder, nil
}
func stubHcHasHeader(hc *HeaderChain, hash common.Hash, number uint64) bool { return true } // Core.WriteBlock stored the work object before Append
func stubHcVerifyHeader(hc *HeaderChain, header *types.WorkObject) error {
	if saVerifyFails {
		return errors.New("header rejected")
	}
	return nil
}
func stubDeriveShaManifest(list types.DerivableList, hasher types.TrieHasher) common.Hash {
	if saManifestMatch {
		return common.BytesToHash([]byte{0x4d})
	}
	return common.BytesToHash([]byte{0x4e})
}
func stubConstructLocalBlock(sl *Slice, header *types.WorkObject) (*types.WorkObject, error) {
	if saBodyFails {
		return nil, errors.New("body rejected")
	}
	return header, nil
}
func stubFeedSend(f *event.Feed, value interface{}) int { return 0 }
func stubHeaderIntrinsicLogEntropy(hc *HeaderChain, wh *types.WorkObjectHeader) (*big.Int, error) {
	return big.NewInt(1), nil
}
func stubWorkShareLogEntropy(hc *HeaderChain, wo *types.WorkObject) (*big.Int, error) {
	return big.NewInt(0), nil
}
func stubTransactionsInfo(wo *types.WorkObject) map[string]interface{} { return nil }
func stubDifficultyByAlgo(hc *HeaderChain, wo *types.WorkObject) (*big.Int, *big.Int, *big.Int) {
	return big.NewInt(1), big.NewInt(1), big.NewInt(1)
}
func stubCountWorkSharesByAlgo(hc *HeaderChain, wo *types.WorkObject) (int, int, int, int, int) {
	return 0, 0, 0, 0, 0
}
func stubCalculateKawpowShareDiff(wh *types.WorkObjectHeader) *big.Int { return big.NewInt(1) }
func stubBigBitsToBitsFloat(x *big.Int) *big.Float                    { return nil }
func stubBigBitsToBits(x *big.Int) *big.Int                           { return big.NewInt(0) }

// appendKnown: what the restarted node treats as "this block has been appended" (the ErrKnownBlock
// short cut at the top of Slice.Append; Core.WriteBlock does not queue such a block again).
func appendKnown(img ethdb.Database, h common.Hash) bool { return rawdb.ReadTermini(img, h) != nil }

// H-C11-s: a crash between the durable writes of Slice.Append leaves a database from which the node can
// continue. Chain G <- P <- B (zone context, B arrives from the network or from the dominant chain, B
// possibly coincident with a dominant block). Every durable write of the real Slice.Append (real pcrc,
// real HeaderChain.AppendHeader with the manifest check, real CalculateManifest, inbound-ETX record,
// slice batch) is logged — a batch commit is one atomic entry — and for every prefix of the log:
//   * if the restarted node regards B as appended (termini present: re-delivery answers ErrKnownBlock
//     and nothing is recomputed), everything a child of B needs is already durable: B's manifest (children
//     are rejected with "manifest not found for parent" otherwise) and, for a coincident block, the record
//     of its inbound ETXs;
//   * re-delivering B to the restarted node (the real Append again, on the surviving image) either
//     answers "known" or succeeds, and afterwards the database equals the one an uninterrupted append
//     leaves.
// A rejected block (header rules, manifest mismatch, body) is never recorded as appended.
//
// verif:stub (*core/types.WorkObject).Hash => stubWoHash
// verif:stub (*core.HeaderChain).IsGenesisHash => stubHcIsGenesisHash
// verif:stub (*core.HeaderChain).NodeCtx => stubHcNodeCtx
// verif:stub (*core.HeaderChain).NodeLocation => stubHcNodeLocationZone
// verif:stub (*core.Slice).CurrentInfo => stubSliceCurrentInfo
// verif:stub (*core.Slice).CalcOrder => stubSliceCalcOrder
// verif:stub (*core.HeaderChain).CalcOrder => stubHcCalcOrderSa
// verif:stub (*core.HeaderChain).HasHeader => stubHcHasHeader
// verif:stub (*core.HeaderChain).VerifyHeader => stubHcVerifyHeader
// verif:stub core/types.DeriveSha => stubDeriveShaManifest
// verif:stub (*core.Slice).ConstructLocalBlock => stubConstructLocalBlock
// verif:stub (*event.Feed).Send => stubFeedSend
// verif:stub (*core.HeaderChain).TotalLogEntropy => stubTotalLogEntropy
// verif:stub (*core.HeaderChain).HeaderIntrinsicLogEntropy => stubHeaderIntrinsicLogEntropy
// verif:stub (*core.HeaderChain).WorkShareLogEntropy => stubWorkShareLogEntropy
// verif:stub (*core/types.WorkObject).TransactionsInfo => stubTransactionsInfo
// verif:stub (*core.HeaderChain).DifficultyByAlgo => stubDifficultyByAlgo
// verif:stub (*core.HeaderChain).CountWorkSharesByAlgo => stubCountWorkSharesByAlgo
// verif:stub core.CalculateKawpowShareDiff => stubCalculateKawpowShareDiff
// verif:stub common.BigBitsToBitsFloat => stubBigBitsToBitsFloat
// verif:stub common.BigBitsToBits => stubBigBitsToBits
func VerifH_C11_s() {
	g := mkWo(0, 0, nil)
	p := mkWo(1, 1, g)
	b := mkWo(1, 2, p)
	hG, hP, hB := stubWoHash(g), stubWoHash(p), stubWoHash(b)
	b.Header().SetManifestHash(common.BytesToHash([]byte{0x4d}), common.ZONE_CTX)
	b.WorkObjectHeader().SetPrimaryCoinbase(common.Bytes20ToAddress([20]byte{}, qiLoc))
	coincident := vBool("coincidentWithDom")
	domOrigin := false
	saOrder = common.ZONE_CTX
	if coincident {
		saOrder = common.REGION_CTX
		domOrigin = vBool("deliveredByDom")
	}
	saVerifyFails, saBodyFails, saManifestMatch = vBool("headerRejected"), vBool("bodyRejected"), vBool("manifestHashMatches")
	vhParentEntropy = big.NewInt(5)

	var initial []dbOp
	mk := func() (*Slice, *crashLog, ethdb.Database) {
		inner := rawdb.NewMemoryDatabase(nil)
		log := &crashLog{}
		db := &crashDB{Database: inner, log: log}
		cfg := &params.ChainConfig{Location: qiLoc}
		hc := &HeaderChain{headerDb: db, processingState: false, config: cfg}
		hc.bc = &BodyDb{chainConfig: cfg, db: db}
		hc.currentHeader.Store(p)
		atc, _ := lru.New[common.Hash, time.Duration](4)
		return &Slice{hc: hc, sliceDb: db, config: cfg, appendTimeCache: atc}, log, inner
	}
	// initial image: P appended (termini, manifest)
	capture := &crashLog{}
	tmp := &crashDB{Database: rawdb.NewMemoryDatabase(nil), log: capture}
	pt := types.EmptyTermini()
	pt.SetDomTerminiAtIndex(hG, 0)
	pt.SetDomTerminiAtIndex(hG, 1)
	pt.SetDomTerminiAtIndex(hG, 2)
	rawdb.WriteTermini(tmp, hP, pt)
	rawdb.WriteManifest(tmp, hP, types.BlockManifest{hP})
	for _, e := range capture.entries {
		initial = append(initial, e[0])
	}
	vAssume(len(initial) == 2)

	sl, log, inner := mk()
	for _, op := range initial {
		inner.Put(op.key, op.val)
	}
	etxs := types.Transactions{}
	_, err := sl.Append(b, hG, domOrigin, etxs)
	vReach("append-returned")
	shouldFail := saVerifyFails || saBodyFails || !saManifestMatch
	vAssert("append/error-iff-rejected", (err != nil) == shouldFail)
	n := len(log.entries)
	final := applyPrefix(initial, log, n)
	if err != nil {
		vReach("rejected")
		vAssert("reject/not-recorded-as-appended", !appendKnown(final, hB))
		return
	}
	vReach("appended")
	vAssert("append/recorded-as-appended", appendKnown(final, hB))
	finalManifest := rawdb.ReadManifest(final, hB)
	vAssert("append/manifest-stored", finalManifest != nil && len(finalManifest) > 0 && finalManifest[len(finalManifest)-1] == hB)
	for k := 0; k <= n; k++ {
		img := applyPrefix(initial, log, k)
		if appendKnown(img, hB) {
			if k < n {
				vFact("crash-point", "after-the-slice-batch")
			}
			vAssert("crash/known-block-has-its-manifest", rawdb.ReadManifest(img, hB) != nil)
		}
		if k == n {
			continue
		}
		// restart on the surviving image and deliver the block again
		sl2, log2, inner2 := mk()
		it := img.NewIterator(nil, nil)
		var img0 []dbOp
		for it.Next() {
			kk, vv := append([]byte{}, it.Key()...), append([]byte{}, it.Value()...)
			img0 = append(img0, dbOp{key: kk, val: vv})
			inner2.Put(kk, vv)
		}
		it.Release()
		_, err2 := sl2.Append(b, hG, domOrigin, etxs)
		vAssert("restart/redelivery-known-or-accepted", err2 == nil || errors.Is(err2, ErrKnownBlock))
		after := applyPrefix(img0, log2, len(log2.entries))
		m2 := rawdb.ReadManifest(after, hB)
		vAssert("restart/block-appended-with-manifest-after-redelivery", appendKnown(after, hB) && m2 != nil && len(m2) == len(finalManifest))
	}
}
