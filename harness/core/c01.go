//go:build verif

package core

import (
	"math/big"

	"github.com/dominant-strategies/go-quai/core/types"
)

// H-C01-b: CheckDenominations (the merge rule). For arbitrary input/output count vectors over the
// 15 denominations, counts over the full uint64 range (the uint64 additions and the
// diff*ratio -> Uint64() truncation wrap as in the real code): accept => for every k >= 1 the value
// of outputs of denomination >= k is at most the value of inputs of denomination >= k, i.e. nothing
// of denomination >= 1 is funded by smaller bills. (Denomination-0 outputs are not constrained by
// this function; total conservation is ProcessQiTx's in >= out test, H-C01-a.)
//
// verif:replay native
func VerifH_C01_b() {
	inputs := make(map[uint]uint64)
	outputs := make(map[uint]uint64)
	tagsIn := []string{"in0", "in1", "in2", "in3", "in4", "in5", "in6", "in7", "in8", "in9", "in10", "in11", "in12", "in13", "in14"}
	tagsOut := []string{"out0", "out1", "out2", "out3", "out4", "out5", "out6", "out7", "out8", "out9", "out10", "out11", "out12", "out13", "out14"}
	for d := 0; d <= types.MaxDenomination; d++ {
		// an absent key reads as 0, so presence need not be varied separately
		inputs[uint(d)] = vU64(tagsIn[d])
		outputs[uint(d)] = vU64(tagsOut[d])
	}
	err := CheckDenominations(inputs, outputs)
	if err != nil {
		vReach("rejected")
		return
	}
	vReach("accepted")
	inSum, outSum := new(big.Int), new(big.Int)
	for k := types.MaxDenomination; k >= 1; k-- {
		inSum.Add(inSum, new(big.Int).Mul(new(big.Int).SetUint64(inputs[uint(k)]), types.Denominations[uint8(k)]))
		outSum.Add(outSum, new(big.Int).Mul(new(big.Int).SetUint64(outputs[uint(k)]), types.Denominations[uint8(k)]))
		vAssert("merge-rule/suffix-value", outSum.Cmp(inSum) <= 0)
	}
}
