//go:build verif

package core

import (
	"errors"
	"io"
	"math/big"

	"github.com/dominant-strategies/go-quai/common"
	"github.com/dominant-strategies/go-quai/core/types"
	"github.com/dominant-strategies/go-quai/params"
)

// ---- H-C09-p: verifyHeader after the KawPow transition (merged-mining binding of a block) ----

// modelAuxHeader is a donor-chain header whose fields are arbitrary values (the donor chain's own
// serialisation and hash functions are the environment).
type modelAuxHeader struct {
	ts         uint32
	merkleRoot [32]byte
	prev       [32]byte
	height     uint32
}

func (m *modelAuxHeader) Serialize(w io.Writer) error   { return nil }
func (m *modelAuxHeader) Deserialize(r io.Reader) error { return nil }
func (m *modelAuxHeader) BlockHash() common.Hash        { return common.Hash{} }
func (m *modelAuxHeader) PowHash() common.Hash          { return common.Hash{} }
func (m *modelAuxHeader) Copy() types.AuxHeaderData     { c := *m; return &c }
func (m *modelAuxHeader) GetVersion() int32             { return 1 }
func (m *modelAuxHeader) GetPrevBlock() [32]byte        { return m.prev }
func (m *modelAuxHeader) GetMerkleRoot() [32]byte       { return m.merkleRoot }
func (m *modelAuxHeader) GetTimestamp() uint32          { return m.ts }
func (m *modelAuxHeader) GetBits() uint32               { return 0 }
func (m *modelAuxHeader) GetNonce() uint32              { return 0 }
func (m *modelAuxHeader) GetHeight() uint32             { return m.height }
func (m *modelAuxHeader) GetNonce64() uint64            { return 0 }
func (m *modelAuxHeader) GetMixHash() common.Hash       { return common.Hash{} }
func (m *modelAuxHeader) GetSealHash() common.Hash      { return common.Hash{} }
func (m *modelAuxHeader) SetNonce(nonce uint32)         {}
func (m *modelAuxHeader) SetNonce64(nonce uint64)       {}
func (m *modelAuxHeader) SetMixHash(h common.Hash)      {}
func (m *modelAuxHeader) SetHeight(height uint32)       {}

var (
	vpSigTime                                   uint32
	vpSigTimeErr, vpSealErr, vpPrevOutErr       bool
	vpCoinbaseSeal, vpSealHash                  common.Hash
	vpMerkleRoot                                [32]byte
	vpSigOK                                     bool
	vpShaDiff, vpShaCount, vpShaUncled          *big.Int
	vpScryptDiff, vpScryptCount, vpScryptUncled *big.Int
	vpShareTarget, vpKawpowDiff                 *big.Int
)

func stubExtractScriptSig(tx []byte) []byte { return tx }
func stubExtractSignatureTime(scriptSig []byte) (uint32, error) {
	if vpSigTimeErr {
		return 0, errors.New("no signature time")
	}
	return vpSigTime, nil
}
func stubExtractSealHash(scriptSig []byte) (common.Hash, error) {
	if vpSealErr {
		return common.Hash{}, errors.New("no seal hash")
	}
	return vpCoinbaseSeal, nil
}
func stubCalculateMerkleRoot(powId types.PowID, coinbaseTx []byte, branch [][]byte) [common.HashLength]byte {
	return vpMerkleRoot
}
func stubValidatePrevOut(coinbaseTx []byte) error {
	if vpPrevOutErr {
		return errors.New("bad prev out")
	}
	return nil
}
func stubConvertToTemplate(ap *types.AuxPow) *types.AuxTemplate { return types.NewAuxTemplate() }
func stubTemplateVerifySignature(at *types.AuxTemplate) bool    { return vpSigOK }
func stubWohSealHash(wh *types.WorkObjectHeader) common.Hash    { return vpSealHash }
func stubCalculatePowDiffAndCount(hc *HeaderChain, parent *types.WorkObject, header *types.WorkObjectHeader, powId types.PowID) (*big.Int, *big.Int, *big.Int) {
	if powId == types.SHA_BTC {
		return new(big.Int).Set(vpShaDiff), new(big.Int).Set(vpShaCount), new(big.Int).Set(vpShaUncled)
	}
	return new(big.Int).Set(vpScryptDiff), new(big.Int).Set(vpScryptCount), new(big.Int).Set(vpScryptUncled)
}
func stubCalculateShareTarget(hc *HeaderChain, parent, header *types.WorkObject) *big.Int {
	return new(big.Int).Set(vpShareTarget)
}
func stubCalculateKawpowDifficulty(hc *HeaderChain, parent, header *types.WorkObject) *big.Int {
	return new(big.Int).Set(vpKawpowDiff)
}

// H-C09-p: an accepted block header after the KawPow transition is bound to its merged-mining proof and
// carries the derived share-difficulty fields (zone context, non-uncle; prime terminus number anywhere
// from exactly the fork block upwards, on both sides of the end of the transition period). Every
// derivation from the parent is an arbitrary stub value (as in H-C09-a); the donor-chain header is a
// model with arbitrary timestamp and merkle root; the coinbase parsers return arbitrary results or
// errors (their real bodies are decided in H-C08-d / H-C15-b); the template signature check is an
// arbitrary boolean. verifyHeader accepts only if
//   * the block carries no AuxPoW only inside the transition period, and an AuxPoW only of kind KawPoW;
//   * with an AuxPoW: the coinbase commits to exactly this header's seal hash, the signature time is
//     parseable and not later than the donor header's time nor the block's time, the donor header's merkle
//     root is the one computed from the coinbase and branch, the coinbase's prev-out is valid and the
//     template signature verifies;
//   * SHA / Scrypt difficulty, count, uncled, both share targets and the KawPoW difficulty equal the
//     derived values.
//
// verif:stub (*core.HeaderChain).CalcDifficulty => stubCalcDifficulty
// verif:stub (*core.HeaderChain).CalcOrder => stubCalcOrder
// verif:stub (*core.HeaderChain).TotalLogEntropy => stubTotalLogEntropy
// verif:stub (*core.HeaderChain).DeltaLogEntropy => stubDeltaLogEntropy
// verif:stub (*core.HeaderChain).UncledDeltaLogEntropy => stubUncledDeltaLogEntropy
// verif:stub (*core.HeaderChain).ComputeExpansionNumber => stubComputeExpansionNumber
// verif:stub core.CalcGasLimit => stubCalcGasLimit
// verif:stub consensus/misc.CalcStateLimit => stubCalcStateLimit
// verif:stub (*core.HeaderChain).CalcBaseFee => stubHcCalcBaseFee
// verif:stub (*core/types.Header).Hash => stubHeaderHash
// verif:stub (*core/types.WorkObject).Hash => stubWoHash
// verif:stub (*core.HeaderChain).IsGenesisHash => stubHcIsGenesisHash
// verif:stub (*core.HeaderChain).NodeLocation => stubHcNodeLocationZone
// verif:stub core/types.ExtractScriptSigFromCoinbaseTx => stubExtractScriptSig
// verif:stub core/types.ExtractSignatureTimeFromCoinbase => stubExtractSignatureTime
// verif:stub core/types.ExtractSealHashFromCoinbase => stubExtractSealHash
// verif:stub core/types.CalculateMerkleRoot => stubCalculateMerkleRoot
// verif:stub core/types.ValidatePrevOutPointIndexAndSequenceOfCoinbase => stubValidatePrevOut
// verif:stub (*core/types.AuxPow).ConvertToTemplate => stubConvertToTemplate
// verif:stub (*core/types.AuxTemplate).VerifySignature => stubTemplateVerifySignature
// verif:stub (*core/types.WorkObjectHeader).SealHash => stubWohSealHash
// verif:stub (*core.HeaderChain).CalculatePowDiffAndCount => stubCalculatePowDiffAndCount
// verif:stub (*core.HeaderChain).CalculateShareTarget => stubCalculateShareTarget
// verif:stub (*core.HeaderChain).CalculateKawpowDifficulty => stubCalculateKawpowDifficulty
func VerifH_C09_p() {
	small := func(tag string) *big.Int { return vBigN(tag, 64) }
	// derivations the pre-fork shell (H-C09-a) already decides: child fields are set equal to them
	vhDifficulty, vhParentEntropy, vhParentDelta, vhParentUncledDelta, vhBaseFee = small("expDifficulty"), small("expParentEntropy"), small("expParentDelta"), small("expParentUncledDelta"), small("expBaseFee")
	vhParentOrder = common.ZONE_CTX
	vhExpansion, vhGasLimit, vhStateLimit = vU8("expExpansion"), uint64(vU32("expGasLimit")), uint64(vU32("expStateLimit"))
	vhHeaderHash = common.BytesToHash(vBytes("bodyHeaderHash", 2))
	vpShaDiff, vpShaCount, vpShaUncled = small("expShaDiff"), small("expShaCount"), small("expShaUncled")
	vpScryptDiff, vpScryptCount, vpScryptUncled = small("expScryptDiff"), small("expScryptCount"), small("expScryptUncled")
	vpShareTarget, vpKawpowDiff = small("expShareTarget"), small("expKawpowDiff")
	vpSigTime, vpSigTimeErr, vpSealErr, vpPrevOutErr, vpSigOK = vU32("signatureTime"), vBool("signatureTimeUnparseable"), vBool("sealHashUnparseable"), vBool("prevOutInvalid"), vBool("templateSignatureValid")
	vpCoinbaseSeal = common.BytesToHash(vBytes("coinbaseSealHash", 2))
	vpSealHash = common.BytesToHash(vBytes("headerSealHash", 2))
	copy(vpMerkleRoot[30:], vBytes("computedMerkleRoot", 2))
	hc := &HeaderChain{config: &params.ChainConfig{Location: qiLoc}, powConfig: params.PowConfig{GasCeil: 1 << 40, NodeLocation: qiLoc}}

	// prime terminus number: the fork block itself, the blocks right after it, or around the end of the transition period
	var ptn uint64
	switch vLen("regime", 2) {
	case 0:
		ptn = params.KawPowForkBlock + uint64(vU8("ptnAfterFork"))
	case 1:
		ptn = params.KawPowForkBlock + params.KawPowTransitionPeriod - 1 + uint64(vU8("ptnAroundTransitionEnd"))
	default:
		ptn = params.KawPowForkBlock - 1 - uint64(vU8("ptnBeforeFork"))
	}
	parent := types.EmptyWorkObject(common.ZONE_CTX)
	parent.WorkObjectHeader().SetTime(uint64(vU32("parentTime")))
	pn := uint64(vU32("parentNumber"))
	vAssume(pn >= 2*params.BlocksPerMonth)
	parent.WorkObjectHeader().SetNumber(new(big.Int).SetUint64(pn))
	parent.WorkObjectHeader().SetLocation(qiLoc)
	parent.WorkObjectHeader().SetPrimeTerminusNumber(new(big.Int).SetUint64(ptn))
	parent.Header().SetPrimeTerminusHash(common.BytesToHash([]byte{0x33}))

	child := types.EmptyWorkObject(common.ZONE_CTX)
	wh, h := child.WorkObjectHeader(), child.Header()
	wh.SetHeaderHash(vhHeaderHash)
	childTime := uint64(vU32("time"))
	wh.SetTime(childTime)
	wh.SetNumber(new(big.Int).SetUint64(pn + 1))
	wh.SetLocation(qiLoc)
	wh.SetDifficulty(new(big.Int).Set(vhDifficulty))
	wh.SetPrimeTerminusNumber(new(big.Int).SetUint64(ptn))
	var cb [20]byte
	cb[0], cb[1] = 0, 0
	wh.SetPrimaryCoinbase(common.Bytes20ToAddress(cb, qiLoc))
	wh.SetLock(0)
	wh.SetData([]byte{0})
	postFork := ptn >= params.KawPowForkBlock
	present := vBool("shareFieldsPresent")
	// a header that decodes after the fork carries every share-difficulty value: WorkObjectHeader.ProtoDecode
	// is the only guard of the dereferences below it (decided in H-C15-a2; F14)
	vAssume(!postFork || present)
	if present {
		wh.SetShaDiffAndCount(types.NewPowShareDiffAndCount(small("shaDiff"), small("shaCount"), small("shaUncled")))
		wh.SetScryptDiffAndCount(types.NewPowShareDiffAndCount(small("scryptDiff"), small("scryptCount"), small("scryptUncled")))
		wh.SetShaShareTarget(small("shaShareTarget"))
		wh.SetScryptShareTarget(small("scryptShareTarget"))
		wh.SetKawpowDifficulty(small("kawpowDifficulty"))
	} else {
		wh.SetShaDiffAndCount(&types.PowShareDiffAndCount{})
		wh.SetScryptDiffAndCount(&types.PowShareDiffAndCount{})
		wh.SetShaShareTarget(nil)
		wh.SetScryptShareTarget(nil)
		wh.SetKawpowDifficulty(nil)
		vFact("shareFields", "absent")
	}
	h.SetParentEntropy(new(big.Int).Set(vhParentEntropy), common.ZONE_CTX)
	h.SetParentDeltaEntropy(new(big.Int).Set(vhParentDelta), common.ZONE_CTX)
	h.SetParentUncledDeltaEntropy(new(big.Int).Set(vhParentUncledDelta), common.ZONE_CTX)
	h.SetExpansionNumber(vhExpansion)
	h.SetGasLimit(vhGasLimit)
	h.SetGasUsed(0)
	h.SetStateLimit(vhStateLimit)
	h.SetStateUsed(0)
	h.SetBaseFee(new(big.Int).Set(vhBaseFee))
	h.SetPrimeTerminusHash(common.BytesToHash([]byte{0x33}))

	aux := &modelAuxHeader{ts: vU32("donorHeaderTime")}
	copy(aux.merkleRoot[30:], vBytes("donorMerkleRoot", 2))
	hasAux := vBool("hasAuxPow")
	var powID types.PowID
	if hasAux {
		powID = types.PowID(vU8("auxPowID"))
		wh.SetAuxPow(types.NewAuxPow(powID, types.NewAuxPowHeader(aux), nil, []byte{1}, nil, []byte{0x01, 0x02}))
	}
	now := int64(vU32("now"))

	err := hc.verifyHeader(child, parent, false, now)

	vReach("verified")
	if err != nil {
		vReach("rejected")
		return
	}
	vReach("accepted")
	if !postFork {
		vAssert("prefork/no-auxpow-and-no-share-fields", !hasAux && wh.ShaDiffAndCount().Difficulty() == nil && wh.ShaShareTarget() == nil && wh.KawpowDifficulty() == nil)
		return
	}
	vReach("accepted-post-fork")
	if !hasAux {
		vAssert("auxpow/absent-only-inside-transition-period", ptn <= params.KawPowForkBlock+params.KawPowTransitionPeriod)
	} else {
		vReach("accepted-with-auxpow")
		vAssert("auxpow/kind-is-kawpow", powID == types.Kawpow)
		vAssert("auxpow/coinbase-commits-to-this-seal-hash", !vpSealErr && vpCoinbaseSeal == vpSealHash)
		vAssert("auxpow/signature-time-parseable-and-not-after-donor-or-block-time", !vpSigTimeErr && aux.ts >= vpSigTime && childTime >= uint64(vpSigTime))
		vAssert("auxpow/donor-merkle-root-is-computed-root", aux.merkleRoot == vpMerkleRoot)
		vAssert("auxpow/coinbase-prevout-valid", !vpPrevOutErr)
		vAssert("auxpow/template-signature-verified", vpSigOK)
	}
	sd, sc := wh.ShaDiffAndCount(), wh.ScryptDiffAndCount()
	vAssert("derived/sha-diff-count-uncled", sd.Difficulty() != nil && sd.Count() != nil && sd.Uncled() != nil && sd.Difficulty().Cmp(vpShaDiff) == 0 && sd.Count().Cmp(vpShaCount) == 0 && sd.Uncled().Cmp(vpShaUncled) == 0)
	vAssert("derived/scrypt-diff-count-uncled", sc.Difficulty() != nil && sc.Count() != nil && sc.Uncled() != nil && sc.Difficulty().Cmp(vpScryptDiff) == 0 && sc.Count().Cmp(vpScryptCount) == 0 && sc.Uncled().Cmp(vpScryptUncled) == 0)
	vAssert("derived/share-targets", wh.ShaShareTarget() != nil && wh.ScryptShareTarget() != nil && wh.ShaShareTarget().Cmp(vpShareTarget) == 0 && wh.ScryptShareTarget().Cmp(vpShareTarget) == 0)
	vAssert("derived/kawpow-difficulty", wh.KawpowDifficulty() != nil && wh.KawpowDifficulty().Cmp(vpKawpowDiff) == 0)
}
