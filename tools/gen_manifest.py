#!/usr/bin/env python3
"""Regenerates /verif/MANIFEST.json from tools/claims.json (per-property claim text) and properties.jsonl."""
import json, os
HERE = os.path.dirname(os.path.dirname(os.path.abspath(__file__)))
props = [json.loads(l) for l in open(os.path.join(HERE, 'properties.jsonl'))]
claims = json.load(open(os.path.join(HERE, 'tools', 'claims.json')))
TECH = "bounded symbolic execution of the real go/ssa code (gosym) with SMT (z3) deciding every branch and assertion over all inputs inside the stated bounds"
checks, na = [], []
for p in props:
    pid = p['id']
    c = claims.get(pid)
    if not c or not c.get('claimed'):
        na.append({"property_id": pid, "reason": (c or {}).get('reason', 'no harness registered; see DESIGN.md')})
        continue
    chk = {
        "property_id": pid,
        "quick_cmd": f"./bin/check {pid} --tier quick",
        "thorough_cmd": f"./bin/check {pid} --tier thorough",
        "evidence_file": f"/verif/evidence/{pid}.json",
        "replay_cmd_template": f"./bin/check {pid} --replay {{path}}",
        "engine": "gosym",
        "level_claimed": {"category": "model_checking", "text": c['text'], "design_ref": c.get('design_ref', 'DESIGN.md section 4')},
        "level_note": c['note'],
        "technique": TECH,
    }
    checks.append(chk)
m = {
    "version": 1,
    "setup_cmd": "cd /verif/gosym && GOFLAGS=-mod=mod GOPROXY=off GOSUMDB=off GOTOOLCHAIN=local go build -o /verif/bin/gosym . && cd /verif && ./bin/gosym selftest",
    "hooks": {"guard": "verif",
              "enable": "harness files (//go:build verif) are injected into /repo packages by build overlay (go/packages Overlay for the engine, go test -overlay -tags verif for native replay); nothing is committed in /repo",
              "baseline_off_cmd": "cd /repo && GOFLAGS=-mod=mod GOPROXY=off GOSUMDB=off GOTOOLCHAIN=local go test -json -vet=off -count=1 -timeout 25m ./...",
              "source_commits": [], "add_only": True},
    "engines": [{"name": "gosym", "path": "/verif/gosym", "serves_properties": [c['property_id'] for c in checks],
                 "kind_free_text": "path-forking symbolic interpreter over go/ssa (x/tools v0.29.0) of /repo's current working tree; integer-first SMT-LIB2 encoding; z3 4.8.12 incremental; counterexamples re-executed concretely in the interpreter and, for stub-free harnesses, replayed as native go tests"}],
    "checks": checks,
    "notes": "Every command reloads /repo's current working tree and regenerates the encoding. INCONCLUSIVE lines are never alarms. Known findings: /verif/known_findings.json. See DESIGN.md.",
    "not_applicable": na,
}
json.dump(m, open(os.path.join(HERE, 'MANIFEST.json'), 'w'), indent=1)
print("checks:", [c['property_id'] for c in checks], "not_applicable:", [n['property_id'] for n in na])
