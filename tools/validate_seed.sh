#!/bin/bash
# usage: validate_seed.sh <ID> <Mk>   -- confirms a seeded change in the scratch worktree /tmp/seed/<ID>
export GOFLAGS=-mod=mod GOPROXY=off GOSUMDB=off GOTOOLCHAIN=local
ID=$1; MK=$2
WT=/tmp/seed/$ID; OUT=/tmp/seed/$ID.out/$MK
cd $WT || exit 9
git checkout -q -- . ; git clean -fdq
DEMODIR=$(python3 -c "import json;print(json.load(open('$OUT/meta.json'))['demo_dir'])")
DEMORUN=$(python3 -c "import json;print(json.load(open('$OUT/meta.json')).get('demo_run',''))")
res() { python3 - "$@" <<'PY'
import json,sys
out,key,val=sys.argv[1],sys.argv[2],sys.argv[3]
p=out+'/validate.json'
try: d=json.load(open(p))
except Exception: d={}
d[key]=val
json.dump(d,open(p,'w'),indent=1)
PY
}
rm -f $OUT/validate.json
mkdir -p $WT/$DEMODIR
cp $OUT/zz_demo_test.go $WT/$DEMODIR/zz_demo_test.go
# 1. demo passes on the unchanged tree
(cd $WT && timeout 900 go test -vet=off -count=1 -run 'Demo|C0|C1|C2|ZZ' ./$DEMODIR/ > $OUT/v_demo_clean.log 2>&1); c=$?
res $OUT demo_clean_exit $c
# 2. apply change
git apply $OUT/patch.diff || { res $OUT apply failed; exit 1; }
res $OUT apply ok
(cd $WT && go build ./... > $OUT/v_build.log 2>&1); res $OUT build_exit $?
(cd $WT && timeout 900 go test -vet=off -count=1 -run 'Demo|C0|C1|C2|ZZ' ./$DEMODIR/ > $OUT/v_demo_mut.log 2>&1); res $OUT demo_mutant_exit $?
# 3. existing suite with the change (demo removed)
rm -f $WT/$DEMODIR/zz_demo_test.go
(cd $WT && timeout 1800 go test -vet=off -count=1 -timeout 25m ./... > $OUT/v_suite.log 2>&1); res $OUT suite_exit $?
grep -a -E "^(FAIL|---|panic)" $OUT/v_suite.log | head -20 > $OUT/v_suite_fail.txt
# rerun failing packages alone (load flakes)
FAILPK=$(grep -a -E "^FAIL\s" $OUT/v_suite.log | awk '{print $2}' | sort -u | tr '\n' ' ')
if [ -n "$FAILPK" ]; then (cd $WT && timeout 1500 go test -vet=off -count=1 $FAILPK > $OUT/v_suite_rerun.log 2>&1); res $OUT suite_rerun_exit $?; res $OUT suite_failed_pkgs "$FAILPK"; fi
git checkout -q -- . ; git clean -fdq
cat $OUT/validate.json
