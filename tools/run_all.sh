#!/bin/bash
# runs every registered quick check on the current /repo tree; prints exit code and wall time per property
cd /verif
for p in $(python3 -c "import json;print(' '.join(c['property_id'] for c in json.load(open('MANIFEST.json'))['checks']))"); do
  s=$(date +%s); ./bin/check $p --tier quick > /tmp/chk_$p.log 2>&1; e=$?; t=$(( $(date +%s) - s ))
  echo "$p exit=$e wall=${t}s $(grep -c '^KNOWN-FINDING' /tmp/chk_$p.log) known, $(grep -c '^INCONCLUSIVE' /tmp/chk_$p.log) inconclusive, $(grep -c '^VIOLATION' /tmp/chk_$p.log) violations"
done
