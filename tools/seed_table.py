#!/usr/bin/env python3
"""Prints the seeded-change detection matrix (markdown) from /verif/seeded/*/meta.json."""
import json, os, glob
HERE = os.path.dirname(os.path.dirname(os.path.abspath(__file__)))
print('| change | file(s) changed | needs, to manifest | reported by (quick tier) |')
print('|---|---|---|---|')
for d in sorted(glob.glob(os.path.join(HERE, 'seeded', '*'))):
    m = json.load(open(os.path.join(d, 'meta.json')))
    det = []
    for x in m.get('detected_by', []):
        if x.get('detected'):
            hs = sorted({v.split(' ')[0] for v in x.get('violations', [])})
            det.append('%s (%s)' % (x['check'], ', '.join(hs[:3])))
    needs = (m.get('needs_to_manifest') or '').replace('\n', ' ').replace('|', '/')
    needs = needs[:150] + ('…' if len(needs) > 150 else '')
    print('| %s | %s | %s | %s |' % (os.path.basename(d), ', '.join(m.get('files_changed', [])), needs, '; '.join(det) if det else '**not detected**'))
