#!/usr/bin/env python3
"""Refreshes the generated tables inside DESIGN.md (between BEGIN/END markers)."""
import os, re, subprocess
HERE = os.path.dirname(os.path.dirname(os.path.abspath(__file__)))
p = os.path.join(HERE, 'DESIGN.md')
s = open(p).read()
for name, tool in (('harness-table', 'harness_table.py'), ('seed-table', 'seed_table.py')):
    out = subprocess.run(['python3', os.path.join(HERE, 'tools', tool)], capture_output=True, text=True).stdout
    s = re.sub(r'(<!-- BEGIN %s -->\n).*?(<!-- END %s -->)' % (name, name), lambda m: m.group(1) + out + m.group(2), s, flags=re.S)
open(p, 'w').write(s)
