#!/bin/bash
# usage: try_seed.sh <patch.diff> <PROP> [extra check flags]  -- applies a seeded change to /repo, runs the check, reverts
P=$1; PROP=$2; shift 2
[ -z "$(git -C /repo status --porcelain)" ] || { echo "/repo has uncommitted changes: refusing"; exit 8; }
cd /repo && git apply "$P" || { echo "patch does not apply"; exit 9; }
cd /verif && ./bin/check $PROP --no-native "$@" 2>&1 | grep -v conda | grep -E "VIOLATION|INCONCLUSIVE|^property|harness=" | grep -v "^KNOWN" | head -20
git -C /repo checkout -- . && git -C /repo clean -fdq
git -C /repo status --short | head -3
