#!/bin/bash
# vs.sh <ID> <Mk>: validate a seeded change in its scratch worktree and store it under /verif/seeded (background-friendly)
cd /verif && tools/validate_seed.sh $1 $2 > /tmp/seed/$1.out/$2/validate.log 2>&1 && python3 tools/store_seed.py $1 $2 >> /tmp/seed/$1.out/$2/validate.log 2>&1
tail -1 /tmp/seed/$1.out/$2/validate.log
