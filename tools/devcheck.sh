#!/bin/bash
# devcheck.sh <PROP> [flags]: run a check against the scratch worktree /tmp/wt_dev (used while /repo is busy)
export GOFLAGS=-mod=mod GOPROXY=off GOSUMDB=off GOTOOLCHAIN=local
P=$1; shift
cd /verif && ./bin/gosym check --property $P --tier quick --repo /tmp/wt_dev --harness-dir /verif/harness --evidence /tmp/ev_dev_$P.json --known /verif/known_findings.json --out /tmp/dev_out --no-native "$@" 2>&1 | grep -v conda
