#!/usr/bin/env python3
"""store_seed.py <ID> <Mk> : copies a validated seeded change into /verif/seeded/<ID>-<Mk>/ (patch.diff, demo, meta.json)."""
import json, os, shutil, sys
ID, MK = sys.argv[1], sys.argv[2]
src = f"/tmp/seed/{ID}.out/{MK}"
dst = f"/verif/seeded/{ID}-{MK}"
os.makedirs(dst, exist_ok=True)
meta = json.load(open(f"{src}/meta.json"))
val = json.load(open(f"{src}/validate.json"))
shutil.copy(f"{src}/patch.diff", f"{dst}/patch.diff")
shutil.copy(f"{src}/zz_demo_test.go", f"{dst}/zz_demo_test.go")
ok = val.get("apply") == "ok" and val.get("build_exit") == "0" and val.get("demo_clean_exit") == "0" and val.get("demo_mutant_exit") not in ("0", None) \
     and (val.get("suite_exit") == "0" or val.get("suite_rerun_exit") == "0")
out = {
 "property": ID, "mutant": MK,
 "files_changed": meta.get("files_changed"),
 "what_breaks": meta.get("what_breaks"),
 "needs_to_manifest": meta.get("needs_to_manifest"),
 "demo_dir": meta.get("demo_dir"), "demo_run": meta.get("demo_run"),
 "confirmed_by_me": {
   "how": "tools/validate_seed.sh in a scratch worktree of /repo HEAD: demo passes on the unchanged tree; patch applies; go build ./... ok; demo fails with the change; full suite (go test ./...) with the change, failing packages (load/timing flakes) re-run alone",
   "demo_exit_unchanged": val.get("demo_clean_exit"), "build_exit": val.get("build_exit"), "demo_exit_with_change": val.get("demo_mutant_exit"),
   "suite_exit": val.get("suite_exit"), "suite_failed_pkgs_first_run": val.get("suite_failed_pkgs", ""), "suite_rerun_exit_of_those": val.get("suite_rerun_exit"),
   "all_confirmed": ok},
 "detected_by": [], "detection_notes": ""}
p = f"{dst}/meta.json"
if os.path.exists(p):
    old = json.load(open(p))
    out["detected_by"] = old.get("detected_by", [])
    out["detection_notes"] = old.get("detection_notes", "")
json.dump(out, open(p, "w"), indent=1)
print(dst, "confirmed" if ok else "NOT CONFIRMED", val)
