#!/usr/bin/env python3
"""Prints a markdown table of all registered harnesses (id, package, tier, bounds, stubs, first sentence of the doc comment)."""
import os, re, sys
HERE = os.path.dirname(os.path.dirname(os.path.abspath(__file__)))
rows = []
for root, _, files in os.walk(os.path.join(HERE, 'harness')):
    for f in sorted(files):
        if not f.endswith('.go'):
            continue
        src = open(os.path.join(root, f)).read()
        for m in re.finditer(r'((?:^//.*\n)+)func VerifH_(C\d\d)_(\w+)\(\)', src, re.M):
            doc, prop, hid = m.group(1), m.group(2), m.group(3)
            lines = [l[2:].strip() for l in doc.strip().split('\n')]
            tier = 'thorough' if any(l.startswith('verif:tier thorough') for l in lines) else 'quick'
            stubs = sum(1 for l in lines if l.startswith('verif:stub'))
            bounds = ' '.join(l[len('verif:bounds'):].strip() for l in lines if l.startswith('verif:bounds'))
            opts = ' '.join(l[len('verif:opts'):].strip() for l in lines if l.startswith('verif:opts'))
            native = any(l.startswith('verif:replay native') for l in lines)
            text = ' '.join(l for l in lines if not l.startswith('verif:'))
            text = re.sub(r'^H-C\d\d-\w+:\s*', '', text)
            first = re.split(r'(?<=[.:;])\s', text, 1)[0]
            rows.append((prop, 'H-%s-%s' % (prop, hid.replace('_', '-')), os.path.relpath(root, os.path.join(HERE, 'harness')), tier, stubs, bounds, opts + (' native-replay' if native else ''), first[:160]))
rows.sort()
print('| harness | package | tier | stubs | bounds / options | subject |')
print('|---|---|---|---|---|---|')
for r in rows:
    print('| %s | %s | %s | %d | %s %s | %s |' % (r[1], r[2], r[3], r[4], r[5], r[6], r[7].replace('|', '/')))
