#!/bin/bash
# dev_seed.sh <patch.diff> <PROP> [flags]: apply a patch to the scratch worktree /tmp/wt_dev, run one check there, revert
P=$1; shift
git -C /tmp/wt_dev checkout -q -- . && git -C /tmp/wt_dev apply $P || { echo "apply failed"; exit 9; }
/verif/tools/devcheck.sh "$@" 2>&1 | grep -v "init of" | grep -E "^VIOLATION|^  harness|^property|^INCONCLUSIVE" | head -12
git -C /tmp/wt_dev checkout -q -- .
