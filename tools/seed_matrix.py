#!/usr/bin/env python3
"""Runs seeded changes against checks: seed_matrix.py [ID-Mk ...]; results in /verif/seeded/<ID-Mk>/meta.json (detected_by)."""
import json, os, subprocess, sys, re, time
REPO = os.environ.get("SEED_REPO", "/repo")   # a scratch worktree of /repo HEAD may be used while /repo is busy
WORKERS = os.environ.get("SEED_WORKERS", "")
PLAN = {
 "C01-M1":["C01"], "C01-M2":["C10","C01"], "C02-M1":["C02"], "C02-M2":["C12","C02"], "C03-M1":["C03"], "C03-M2":["C03"],
 "C04-M1":["C04"], "C04-M2":["C04"], "C05-M1":["C05"], "C05-M2":["C05"], "C06-M1":["C06"], "C06-M2":["C10","C06"],
 "C07-M1":["C07"], "C07-M2":["C07"], "C08-M1":["C08"], "C08-M2":["C08"], "C09-M1":["C09"], "C09-M2":["C09"],
 "C10-M1":["C10"], "C10-M2":["C10"], "C11-M1":["C11"], "C11-M2":["C06","C11"], "C12-M1":["C12"], "C12-M2":["C12"],
 "C13-M1":["C13"], "C13-M2":["C13"], "C14-M1":["C14"], "C14-M2":["C14"], "C15-M1":["C15"], "C15-M2":["C15"],
 "C16-M1":["C01","C16"], "C16-M2":["C16"], "C17-M1":["C17"], "C17-M2":["C17"], "C18-M1":["C18"], "C18-M2":["C18"],
 "C19-M1":["C19"], "C19-M2":["C19"], "C20-M1":["C12","C05","C20"], "C20-M2":["C01","C20"],
 # round 2 (M3, M4): the check expected to report it first, then the property's own check where that is another one
 "C01-M3":["C17"], "C01-M4":["C07"], "C02-M3":["C02"], "C02-M4":["C02"], "C03-M3":["C03"], "C03-M4":["C01"],
 "C04-M3":["C04"], "C04-M4":["C04"], "C05-M3":["C05"], "C05-M4":["C12"], "C06-M3":["C01"], "C06-M4":["C10"],
 "C07-M3":["C07"], "C07-M4":["C07"], "C08-M3":["C08", "C09"], "C08-M4":["C08"], "C09-M3":["C09"], "C09-M4":["C09"],
 "C10-M3":["C06"], "C10-M4":["C10"], "C11-M3":["C11"], "C11-M4":["C11"], "C12-M3":["C12"], "C12-M4":["C12"],
 "C13-M3":["C10"], "C13-M4":["C13"], "C14-M3":["C14"], "C14-M4":["C14"], "C15-M3":["C15"], "C15-M4":["C15"],
 "C16-M3":["C16"], "C16-M4":["C16"], "C17-M3":["C17"], "C17-M4":["C17"], "C18-M3":["C18"], "C18-M4":["C18"],
 "C19-M3":["C19"], "C19-M4":["C19"], "C20-M3":["C14"], "C20-M4":["C13"],
 # round 3 (M5)
 "C01-M5":["C10"], "C02-M5":["C02"], "C03-M5":["C03"], "C04-M5":["C04"], "C05-M5":["C05"], "C06-M5":["C06"], "C07-M5":["C11", "C07"],
 "C08-M5":["C08"], "C09-M5":["C09"], "C10-M5":["C10"], "C11-M5":["C11"], "C12-M5":["C12"], "C13-M5":["C10", "C13"], "C14-M5":["C14"],
 "C15-M5":["C15"], "C16-M5":["C04", "C16"], "C17-M5":["C17"], "C19-M5":["C19"], "C20-M5":["C20"],
 # round 4 (M6)
 "C01-M6":["C17"], "C06-M6":["C06"], "C07-M6":["C07"], "C13-M6":["C13"], "C19-M6":["C19"], "C20-M6":["C04"],
}
claimed = {c["property_id"] for c in json.load(open("/verif/MANIFEST.json"))["checks"]}
def sh(cmd, **kw): return subprocess.run(cmd, shell=True, capture_output=True, text=True, **kw)
targets = sys.argv[1:] or sorted(PLAN)
for t in targets:
    d = f"/verif/seeded/{t}"
    meta = json.load(open(f"{d}/meta.json"))
    if sh(f"git -C {REPO} status --porcelain").stdout.strip():
        print("repo dirty, abort"); sys.exit(1)
    r = sh(f"git -C {REPO} apply {d}/patch.diff")
    if r.returncode != 0:
        print(t, "patch does not apply:", r.stderr[:200]); meta["detection_notes"] = "patch no longer applies to /repo HEAD"; json.dump(meta, open(f"{d}/meta.json","w"), indent=1); continue
    det = []
    try:
        for p in PLAN[t]:
            if p not in claimed:
                det.append({"check": p, "result": "no check registered for this property"}); continue
            t0 = time.time()
            r = sh(f"cd /verif && ./bin/check {p} --tier quick --no-native --evidence /tmp/ev_seed_{t}_{p}.json --out /tmp/seed_out --repo {REPO}" + (f" --workers {WORKERS}" if WORKERS else ""))
            viol = sorted(set(re.findall(r"harness=(\S+) assert=(\S+)", "\n".join(l for l in r.stdout.split("\n") if l.startswith("  harness=")))))
            inc = len([l for l in r.stdout.split("\n") if l.startswith("INCONCLUSIVE")])
            det.append({"check": p, "exit": r.returncode, "detected": r.returncode == 1, "violations": [f"{h} {a}" for h, a in viol][:8], "inconclusive_lines": inc, "wall_s": round(time.time()-t0)})
            print(t, p, "exit", r.returncode, viol[:3], flush=True)
    finally:
        sh(f"git -C {REPO} checkout -- . && git -C {REPO} clean -fdq")
    meta["detected_by"] = det
    meta["ran"] = f"tools/seed_matrix.py: git -C {REPO} apply patch.diff; ./bin/check <prop> --tier quick --repo {REPO}; git -C {REPO} checkout -- ."
    json.dump(meta, open(f"{d}/meta.json","w"), indent=1)
